#!/bin/sh
# Build the pfacts driver and warm the fact cache (offline; files on disk only).
set -e
cd "$(dirname "$0")"
export CARGO_NET_OFFLINE=true
python3 - <<'PY'
import sys
sys.path.insert(0, '.')
from rules import facts
facts.build_driver()
p, info = facts.build_facts('all')
print('facts:', p, info)
PY
