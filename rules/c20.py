"""C20 — serde shape: writer/reader agreement of the derived colour impls and of the hand-written alpha flattening layer."""
import re

from . import facts
from .c18 import Flow, components, _adt_of

EXPLANATION = (
    "Static lint over the type-checked HIR (config all-features, so the `serializing` code the pinned tests never build is analysed). "
    "(SER-1) every derived Serialize of a colour emits exactly its non-phantom fields, in declaration order, each under its own field name, "
    "announces that many fields, and the derived Deserialize's FIELDS list is the same list - type-level metadata is never written and "
    "nothing is renamed; hues serialise their inner value directly (a bare number). (SER-2) AlphaSerializer: every serialize_K forwards to "
    "inner.serialize_K with the length increased by one, every element/field method forwards unchanged, and every end() emits self.alpha "
    "exactly once - under the key \"alpha\" for maps/structs - before inner.end(); AlphaDeserializer: every deserialize_K forwards to the "
    "same-named inner method with the length increased by one and tells its visitor the original length as the alpha index; the field "
    "visitor recognises exactly the key \"alpha\" (str and bytes) and the index equal to that length; sequence visitors read the colour "
    "first and then take the next element as an Option (absent alpha = None, not an error); the map wrapper stores the value under the "
    "alpha key and rejects a duplicate. (SER-3) Alpha/PreAlpha route through these two types, require alpha on plain deserialisation "
    "(missing_field(\"alpha\")) and default to max_intensity in the optional-alpha helpers; as_array/as_uint use the cast pair "
    "into_*_ref / from_*.  All key literals on both sides are the single string \"alpha\".  Not decided: equality of concrete JSON/RON "
    "round trips (format crates are outside the analysed program); serde's own derive semantics is trusted."
    " EQ-COVER: PartialEq::eq of every colour type, Alpha and PreAlpha compares every component with the same-named one (found F13)."
)

SER_FILE = "palette/src/serde/alpha_serializer.rs"
DE_FILE = "palette/src/serde/alpha_deserializer.rs"


def lits(node, kinds=("str", "bstr", "bytestr", "bytes")):
    out = []
    for n, _p in facts.walk(node):
        if n.get("k") == "lit" and isinstance(n.get("lit"), dict) and n["lit"].get("lk") in kinds:
            out.append(n["lit"]["v"])
    return out


def calls(node):
    """(name, node) for every call / method call, in source order."""
    out = []
    for n, _p in facts.walk(node):
        if n.get("k") == "mcall":
            out.append((n["n"], n))
        elif n.get("k") == "call" and isinstance(n.get("c"), dict) and "n" in n["c"]:
            out.append((n["c"]["n"], n))
    return out


def strip(e):
    while isinstance(e, dict) and (e.get("k") in ("ref", "paren") or (e.get("k") == "un" and e.get("op") == "*")):
        e = e["e"]
    return e


_FLOW = {"cur": None}  # binding table of the body under analysis: pure `let x = <place>;` aliases are looked through


def _resolve(e):
    e = strip(e)
    flow = _FLOW["cur"]
    hops = 0
    while flow is not None and isinstance(e, dict) and e.get("k") == "path" and e["res"].get("k") == "local" and hops < 6:
        b = flow.bind.get(e["res"]["h"])
        if b is None:
            break
        b = strip(b)
        if b.get("k") in ("path", "field"):
            e = b
            hops += 1
        else:
            break
    return e


def is_self_field(e, name):
    e = _resolve(e)
    return e.get("k") == "field" and e["n"] == name and strip(e["e"]).get("k") == "path" and strip(e["e"])["res"].get("n") == "self"


def is_local(e, name):
    e0 = strip(e)
    if e0.get("k") == "path" and e0["res"].get("k") == "local" and e0["res"].get("n") == name:
        return True
    e = _resolve(e)
    return e.get("k") == "path" and e["res"].get("k") == "local" and e["res"].get("n") == name


def const_int(e):
    e = strip(e)
    k = e.get("k")
    if k == "lit" and e["lit"].get("lk") == "int":
        return int(e["lit"]["v"])
    if k == "lit" and e["lit"].get("lk") == "bool":
        return 1 if e["lit"]["v"] == "true" else 0
    if k == "cast":
        return const_int(e["e"])
    if k == "bin" and e.get("op") == "+":
        a, b = const_int(e["a"][0]), const_int(e["a"][1])
        return None if a is None or b is None else a + b
    return None


def plus_one_of(e, param):
    """`param + 1` or `param.map(|x| x + 1)`"""
    e = strip(e)
    if e.get("k") == "bin" and e.get("op") == "+":
        a, b = e["a"]
        return (is_local(a, param) and const_int(b) == 1) or (is_local(b, param) and const_int(a) == 1)
    if e.get("k") == "mcall" and e["n"] == "map" and is_local(e["r"], param) and e.get("a") and strip(e["a"][0]).get("k") == "closure":
        cl = strip(e["a"][0])
        ps = cl.get("params", [])
        body = strip(cl["b"])
        if len(ps) == 1 and ps[0].get("k") == "bind" and body.get("k") == "bin" and body.get("op") == "+":
            a, b = body["a"]
            nm = ps[0]["n"]
            return (is_local(a, nm) and const_int(b) == 1) or (is_local(b, nm) and const_int(a) == 1)
    return False


def param_names(b):
    out = []
    for p in b.get("params", []):
        q = p
        while q.get("k") in ("ref", "deref"):
            q = q["p"]
        out.append(q.get("n"))
    return out


def struct_lit_fields(e):
    e = strip(e)
    if e.get("k") == "struct":
        return {n: v for n, v in e["f"]}
    return None


# ------------------------------------------------------------------------------------------------ SER-1
def check_derived(F, rep):
    _FLOW["cur"] = None
    n = 0
    n_hue = 0
    ser_fields = {}
    for im in F.impls:
        tr = im.get("trait") or ""
        tr = F.S[tr] if isinstance(tr, int) else tr
        if not tr.endswith("::Serialize") or not im.get("derived"):
            continue
        adt = im.get("self_adt") or _adt_of(im["self_s"])
        if adt not in F.adt_by_path:
            continue
        b = F.impl_method(im, "serialize")
        key = adt.split("::")[-1]
        comps = components(F, adt)
        allf = [f["n"] for f in F.adt_by_path[adt]["variants"][0]["f"]]
        cs = calls(b["body"])
        names = [c for c, _n in cs]
        if adt.startswith("hues::"):
            n_hue += 1
            ok = "serialize_struct" not in names and "serialize_field" not in names and "serialize_tuple_struct" not in names
            inner = [nd for c, nd in cs if c in ("serialize", "serialize_newtype_struct")]
            ok = ok and len(inner) == 1 and any(is_self_field(a, "0") for a in inner[0].get("a", []) + ([inner[0]["r"]] if "r" in inner[0] else []))
            how = inner[0].get("n") or inner[0]["c"]["n"] if inner else "?"
            rep.ob("SER-1", "Serialize:" + key, ok, "%s of the inner value: a bare number in formats that unwrap newtypes (JSON); never a struct with fields" % how, F.loc(b))
            continue
        n += 1
        pairs = []
        for c, nd in cs:
            if c == "serialize_field" and len(nd.get("a", [])) == 3:
                k_ = strip(nd["a"][1])
                v_ = strip(nd["a"][2])
                kk = k_["lit"]["v"] if k_.get("k") == "lit" else None
                vv = v_["n"] if v_.get("k") == "field" and strip(v_["e"]).get("k") == "path" and strip(v_["e"])["res"].get("n") == "self" else None
                pairs.append((kk, vv))
        want = [(c, c) for c in comps]
        ok = pairs == want
        st = [nd for c, nd in cs if c == "serialize_struct"]
        ln = const_int(st[0]["a"][2]) if len(st) == 1 and len(st[0].get("a", [])) == 3 else None
        ok = ok and ln == len(comps)
        det = "fields %s (of %s), announced length %s" % ([p[0] for p in pairs], allf, ln)
        if not ok:
            rep.fail("SER-1", "Serialize:" + key, "emits %s with length %s; expected exactly the non-phantom fields %s under their own names" % (pairs, ln, comps), F.loc(b))
        else:
            rep.ob("SER-1", "Serialize:" + key, True, det, F.loc(b))
        ser_fields[adt] = comps
    # reader side: FIELDS of the derived Deserialize
    n_de = 0
    for b in F.bodies:
        m = re.match(r"^(.*)::_::<impl _::Deserialize<'de> for ([\w:]+)(?:<.*>)?>::deserialize::FIELDS$", b["path"])
        if not m:
            continue
        adt = m.group(2)
        if adt not in ser_fields:
            continue
        n_de += 1
        got = lits(b["body"], ("str",))
        rep.ob("SER-1", "Deserialize FIELDS:" + adt.split("::")[-1], got == ser_fields[adt],
               "reader expects %s, writer emits %s" % (got, ser_fields[adt]), F.loc(b))
    rep.floor("derived Serialize impls of colour types", n, 20)
    rep.floor("transparent hue Serialize impls", n_hue, 5)
    rep.floor("derived Deserialize FIELDS lists", n_de, 20)


# ------------------------------------------------------------------------------------------------ SER-2 writer
END_EMIT = {
    "SerializeSeq": ("serialize_element", False), "SerializeTuple": ("serialize_element", False),
    "SerializeTupleStruct": ("serialize_field", False), "SerializeTupleVariant": ("serialize_field", False),
    "SerializeMap": ("serialize_entry", True), "SerializeStruct": ("serialize_field", True), "SerializeStructVariant": ("serialize_field", True),
}
LEN_METHODS = {"serialize_seq": "len", "serialize_tuple": "len", "serialize_tuple_struct": "len", "serialize_map": "len", "serialize_struct": "len"}


def inner_calls(b):
    return [(c, nd) for c, nd in calls(b["body"]) if nd.get("k") == "mcall" and is_self_field(nd["r"], "inner")]


def check_serializer(F, rep):
    n_end = n_fwd = n_len = 0
    for b in F.bodies:
        if b["file"] != SER_FILE or b.get("_impl") is None:
            continue
        tr = (b["_impl"].get("trait") or "").split("::")[-1]
        m = b["name"]
        key = "%s::%s" % (tr, m)
        _FLOW["cur"] = Flow(F, b, ["self"])
        ic = inner_calls(b)
        ps = param_names(b)
        if tr == "Serializer":
            if m in LEN_METHODS:
                n_len += 1
                ok = len(ic) == 1 and ic[0][0] == m
                det = ""
                if ok:
                    args = ic[0][1]["a"]
                    want = [p for p in ps[1:]]
                    ok = len(args) == len(want)
                    for a, p in zip(args, want):
                        if p == "len":
                            if not plus_one_of(a, "len"):
                                ok, det = False, "length is not forwarded as len + 1"
                        elif not is_local(a, p):
                            ok, det = False, "argument `%s` is not forwarded unchanged" % p
                    lit = [struct_lit_fields(nd) for _c, nd in [(None, x) for x, _p in facts.walk(b["body"]) if x.get("k") == "struct"]]
                    lit = [l for l in lit if l and "alpha" in l]
                    ok = ok and len(lit) == 1 and is_self_field(lit[0]["alpha"], "alpha")
                rep.ob("SER-2", key, ok, det or "inner.%s(…, len + 1), alpha carried along" % m, F.loc(b))
            elif m == "is_human_readable":
                rep.ob("SER-2", key, len(ic) == 1 and ic[0][0] == m, "forwarded", F.loc(b))
            elif m == "serialize_unit_struct":
                ok = len(ic) == 1 and ic[0][0] == "serialize_newtype_struct" and any(is_self_field(a, "alpha") for a in ic[0][1]["a"])
                rep.ob("SER-2", key, ok, "a colour without fields: the alpha value alone, as a newtype struct", F.loc(b))
            elif m in ("serialize_newtype_struct", "serialize_unit"):
                names = [c for c, _n in calls(b["body"])]
                want = ["serialize_tuple_struct", "serialize_field", "end"] if m == "serialize_newtype_struct" else ["serialize_tuple", "end"]
                got = [c for c in names if c in want]
                rep.ob("SER-2", key, sorted(got) == sorted(want), "built from %s" % want, F.loc(b))
            continue
        if tr in END_EMIT:
            if m == "end":
                n_end += 1
                emit, keyed = END_EMIT[tr]
                names = [c for c, _n in ic]
                ok = names == [emit, "end"]
                det = "inner calls %s" % names
                if ok:
                    args = ic[0][1]["a"]
                    val = args[-1]
                    ok = is_self_field(val, "alpha") and len(args) == (2 if keyed else 1)
                    if keyed:
                        k0 = strip(args[0])
                        ok = ok and k0.get("k") == "lit" and k0["lit"].get("v") == "alpha"
                        det = "inner.%s(\"%s\", self.alpha); inner.end()" % (emit, k0.get("lit", {}).get("v"))
                    else:
                        det = "inner.%s(self.alpha); inner.end()" % emit
                if not ok:
                    rep.fail("SER-2", key, "end() must emit self.alpha exactly once (keyed \"alpha\" for maps/structs) and then end the inner serializer; found %s" % det, F.loc(b))
                else:
                    rep.ob("SER-2", key, True, det, F.loc(b))
            else:
                n_fwd += 1
                ok = len(ic) == 1 and ic[0][0] == m and len(ic[0][1]["a"]) == len(ps) - 1 and all(is_local(a, p) for a, p in zip(ic[0][1]["a"], ps[1:]))
                rep.ob("SER-2", key, ok, "forwards to inner.%s(%s)" % (m, ", ".join(ps[1:])), F.loc(b))
    rep.floor("Serialize* end() methods", n_end, 7)
    rep.floor("Serialize* element forwarders", n_fwd, 11)
    rep.floor("Serializer methods that add one to the length", n_len, 5)


# ------------------------------------------------------------------------------------------------ SER-2 reader
def option_some_of(e, pred):
    e = strip(e)
    return e.get("k") == "call" and "ctor" in e and len(e.get("a", [])) == 1 and pred(e["a"][0])


def check_deserializer(F, rep):
    by = {}
    for b in F.bodies:
        if b["file"] == DE_FILE and b.get("_impl") is not None:
            st = (b["_impl"].get("self_adt") or b["_impl"]["self_s"]).split("::")[-1].split("<")[0]
            by[(st, b["name"])] = b
    # ---- Deserializer methods
    spec = {  # method -> (inner method, len param or None, expected field_count)
        "deserialize_seq": ("deserialize_seq", None, None),
        "deserialize_tuple": ("deserialize_tuple", "len", "len"),
        "deserialize_tuple_struct": ("deserialize_tuple_struct", "len", "len"),
        "deserialize_map": ("deserialize_map", None, "None"),
        "deserialize_struct": ("deserialize_struct", None, "fields.len()"),
    }
    n = 0
    for m, (inner, lenp, fc) in spec.items():
        b = by.get(("AlphaDeserializer", m))
        _FLOW["cur"] = Flow(F, b, ["self"]) if b is not None else None
        if b is None:
            rep.fail("ANCHOR", "AlphaDeserializer::" + m, "method not found")
            continue
        n += 1
        _FLOW["cur"] = Flow(F, b, ["self"])
        ic = inner_calls(b)
        ps = param_names(b)
        ok = len(ic) == 1 and ic[0][0] == inner
        det = ""
        if ok:
            args = ic[0][1]["a"]
            ok = len(args) == len(ps) - 1
            for a, p in zip(args, ps[1:]):
                if p == lenp:
                    if not plus_one_of(a, p):
                        ok, det = False, "length not forwarded as len + 1"
                elif p == "visitor":
                    f = struct_lit_fields(a)
                    if not f or not is_local(f.get("inner", {}), "visitor") or not is_self_field(f.get("alpha", {}), "alpha"):
                        ok, det = False, "visitor wrapper does not carry (visitor, self.alpha)"
                    elif fc is not None:
                        got = f.get("field_count")
                        if fc == "None":
                            g = strip(got)
                            good = g.get("k") == "path" and g["res"].get("k") == "def"
                        elif fc == "len":
                            good = option_some_of(got, lambda x: is_local(x, "len"))
                        else:
                            good = option_some_of(got, lambda x: strip(x).get("k") == "mcall" and strip(x)["n"] == "len" and is_local(strip(x)["r"], "fields"))
                        if not good:
                            ok, det = False, "alpha index (field_count) is not %s" % ("Some(%s)" % fc if fc != "None" else "None")
                elif not is_local(a, p):
                    ok, det = False, "argument `%s` not forwarded unchanged" % p
        rep.ob("SER-2", "AlphaDeserializer::" + m, ok, det or "inner.%s(… %s), alpha index = %s" % (inner, "len + 1" if lenp else "", fc), F.loc(b))
    rep.floor("AlphaDeserializer forwarding methods", n, 5)
    # ---- sequence visitors: colour first, then `*self.alpha = seq.next_element()?`
    for st in ("AlphaSeqVisitor", "AlphaMapVisitor"):
        b = by.get((st, "visit_seq"))
        _FLOW["cur"] = Flow(F, b, ["self"]) if b is not None else None
        if b is None:
            rep.fail("ANCHOR", st + "::visit_seq", "method not found")
            continue
        order = []
        assign_ok = None
        for nd, _p in facts.walk(b["body"]):
            if nd.get("k") == "mcall" and nd["n"] in ("visit_seq", "visit_unit") and is_self_field(nd["r"], "inner"):
                order.append(nd["n"])
            if nd.get("k") == "mcall" and nd["n"] == "next_element":
                order.append("next_element")
            if nd.get("k") == "assign":
                lhs, rhs = nd["a"]
                if is_self_field(lhs, "alpha"):
                    r = strip(rhs)
                    flow = Flow(F, b, ["self"])
                    hops = 0
                    while r.get("k") == "path" and r["res"].get("k") == "local" and flow.bind.get(r["res"]["h"]) is not None and hops < 8:
                        r = strip(flow.bind[r["res"]["h"]])  # a `let` in between does not change the value
                        hops += 1
                    # `seq.next_element()?`: the ?-desugaring whose operand is the call itself
                    direct = r.get("k") == "match" and str(r.get("src", "")).startswith("TryDesugar") and \
                        strip(r["e"]["a"][0]).get("k") == "mcall" and strip(r["e"]["a"][0])["n"] == "next_element"
                    assign_ok = direct
        ok = assign_ok is True and "next_element" in order and order.index("next_element") > max(i for i, x in enumerate(order) if x.startswith("visit_"))
        rep.ob("SER-2", st + "::visit_seq", ok,
               "colour is read first; then *self.alpha = seq.next_element()? - an absent trailing element leaves None (optional alpha), it is not an error"
               if ok else "the alpha slot must be assigned the Option returned by seq.next_element()? after the colour (order %s, direct=%s)" % (order, assign_ok), F.loc(b))
    # ---- map path
    b = by.get(("AlphaMapVisitor", "visit_map"))
    _FLOW["cur"] = Flow(F, b, ["self"]) if b is not None else None
    if b is not None:
        ic = inner_calls(b)
        f = struct_lit_fields(ic[0][1]["a"][0]) if len(ic) == 1 and ic[0][1].get("a") else None
        ok = bool(f) and ic[0][0] == "visit_map" and is_local(f.get("inner", {}), "map") and is_self_field(f.get("alpha", {}), "alpha") and is_self_field(f.get("field_count", {}), "field_count")
        rep.ob("SER-2", "AlphaMapVisitor::visit_map", ok, "inner.visit_map(MapWrapper { map, self.alpha, self.field_count })", F.loc(b))
    else:
        rep.fail("ANCHOR", "AlphaMapVisitor::visit_map", "method not found")
    b = by.get(("MapWrapper", "next_key_seed"))
    _FLOW["cur"] = Flow(F, b, ["self"]) if b is not None else None
    if b is not None:
        names = [c for c, _n in calls(b["body"])]
        ls = lits(b["body"], ("str",))
        stores = [nd for nd, _p in facts.walk(b["body"]) if nd.get("k") == "assign" and is_self_field(nd["a"][0], "alpha")
                  and option_some_of(nd["a"][1], lambda x: any(c == "next_value" for c, _n in calls(x)))]
        ok = "duplicate_field" in names and "is_some" in names and len(stores) == 1 and ls == ["alpha"]
        rep.ob("SER-2", "MapWrapper::next_key_seed", ok, "alpha key: duplicate -> duplicate_field(%s), else *self.alpha = Some(inner.next_value()?)" % ls, F.loc(b))
    else:
        rep.fail("ANCHOR", "MapWrapper::next_key_seed", "method not found")
    b = by.get(("MapWrapper", "next_value_seed"))
    _FLOW["cur"] = Flow(F, b, ["self"]) if b is not None else None
    if b is not None:
        ic = inner_calls(b)
        rep.ob("SER-2", "MapWrapper::next_value_seed", len(ic) == 1 and ic[0][0] == "next_value_seed", "forwarded", F.loc(b))
    # ---- the field visitor: exactly the key "alpha"
    for m, kinds in (("visit_str", ("str",)), ("visit_bytes", ("bstr", "bytestr", "bytes", "str"))):
        b = by.get(("AlphaFieldVisitor", m))
        _FLOW["cur"] = Flow(F, b, ["self"]) if b is not None else None
        if b is None:
            rep.fail("ANCHOR", "AlphaFieldVisitor::" + m, "method not found")
            continue
        cmp_lits = []
        for nd, _p in facts.walk(b["body"]):
            if nd.get("k") == "bin" and nd.get("op") in ("==", "!=") or (nd.get("k") in ("mcall", "call") and (nd.get("n") or nd.get("c", {}).get("n")) in ("eq", "ne", "starts_with", "ends_with", "eq_ignore_ascii_case", "contains")):
                cmp_lits += [l for l in _all_lits(nd)]
            if nd.get("k") == "match" and not str(nd.get("src", "")).startswith("TryDesugar"):
                for arm in nd.get("arms", []):
                    cmp_lits += [l for l in _all_lits(arm["pat"])]
        norm = sorted({_lit_text(l) for l in cmp_lits})
        ok = norm == ["alpha"]
        if not ok:
            rep.fail("SER-2", "AlphaFieldVisitor::" + m, "the alpha field is recognised by %s; writer and reader must agree on exactly \"alpha\"" % norm, F.loc(b))
        else:
            rep.ob("SER-2", "AlphaFieldVisitor::" + m, True, "key compared with %s only" % norm, F.loc(b))
    b = by.get(("AlphaFieldVisitor", "visit_u64"))
    _FLOW["cur"] = Flow(F, b, ["self"]) if b is not None else None
    if b is not None:
        good = False
        for nd, _p in facts.walk(b["body"]):
            if nd.get("k") == "bin" and nd.get("op") == "==":
                x, y = (strip(z) for z in nd["a"])
                def fc(z):
                    z = strip(z)
                    if z.get("k") == "cast":
                        z = strip(z["e"])
                    return z.get("k") == "path" and z["res"].get("n") == "field_count"
                if (is_local(x, "v") and fc(y)) or (is_local(y, "v") and fc(x)):
                    good = True
        rep.ob("SER-2", "AlphaFieldVisitor::visit_u64", good, "tuple index is alpha iff it equals the original field count (the position the writer appends at)", F.loc(b))
    else:
        rep.fail("ANCHOR", "AlphaFieldVisitor::visit_u64", "method not found")
    b = by.get(("AlphaMapVisitor", "visit_newtype_struct"))
    _FLOW["cur"] = Flow(F, b, ["self"]) if b is not None else None
    if b is not None:
        stores = [nd for nd, _p in facts.walk(b["body"]) if nd.get("k") == "assign" and is_self_field(nd["a"][0], "alpha")]
        ic = inner_calls(b)
        rep.ob("SER-2", "AlphaMapVisitor::visit_newtype_struct", len(stores) == 1 and [c for c, _n in ic] == ["visit_unit"],
               "the lone value is the alpha; the colour is a unit", F.loc(b))


def _all_lits(node):
    out = []
    for n, _p in facts.walk(node):
        if n.get("k") == "lit" and isinstance(n.get("lit"), dict) and n["lit"].get("lk") not in ("int", "bool", "float", "char"):
            out.append(n["lit"])
    if isinstance(node, dict) and node.get("k") == "lit" and isinstance(node.get("lit"), dict) and node["lit"].get("lk") not in ("int", "bool", "float", "char"):
        if node["lit"] not in out:
            out.append(node["lit"])
    return out


def _lit_text(l):
    v = l.get("v")
    if isinstance(v, list):
        try:
            return bytes(v).decode()
        except Exception:
            return repr(v)
    s = str(v)
    m = re.match(r'^b?"(.*)"$', s)
    return m.group(1) if m else s


# ------------------------------------------------------------------------------------------------ SER-3
def check_entry_points(F, rep):
    n = 0
    for im in F.impls:
        tr = im.get("trait") or ""
        tr = F.S[tr] if isinstance(tr, int) else tr
        adt = im.get("self_adt") or ""
        if adt.split("::")[-1] not in ("Alpha", "PreAlpha") or im.get("derived"):
            continue
        if tr.endswith("::Serialize"):
            b = F.impl_method(im, "serialize")
            _FLOW["cur"] = Flow(F, b, ["self"]) if b is not None else None
            n += 1
            cs = [nd for c, nd in calls(b["body"]) if c == "serialize"]
            ok = len(cs) == 1 and is_self_field(cs[0].get("r", {}), "color")
            f = struct_lit_fields(cs[0]["a"][0]) if ok and cs[0].get("a") else None
            ok = ok and bool(f) and is_local(f.get("inner", {}), "serializer") and is_self_field(f.get("alpha", {}), "alpha")
            rep.ob("SER-3", "%s::serialize" % adt.split("::")[-1], ok, "self.color.serialize(AlphaSerializer { serializer, &self.alpha }) - flattened, alpha at the same level", F.loc(b))
        elif tr.endswith("::Deserialize<'de>") or tr.endswith("::Deserialize"):
            b = F.impl_method(im, "deserialize")
            _FLOW["cur"] = Flow(F, b, ["self"]) if b is not None else None
            n += 1
            names = [c for c, _n in calls(b["body"])]
            ls = lits(b["body"], ("str",))
            ok = "missing_field" in names and ls == ["alpha"] and "unwrap_or_else" not in names and "unwrap_or" not in names and "unwrap_or_default" not in names
            rep.ob("SER-3", "%s::deserialize" % adt.split("::")[-1], ok, "alpha required: None -> missing_field(%s)" % ls, F.loc(b))
            # the value is ASSEMBLED from the two deserialised parts and nothing else: one struct literal { color, alpha } whose colour is the
            # result of `C::deserialize(AlphaDeserializer { .. })` and whose alpha is the captured alpha; no constructor or arithmetic in between
            # (`PreAlpha::new` premultiplies: stored premultiplied components would be multiplied by alpha again)
            lits_ = [nd for nd, _p in facts.walk(b["body"]) if nd.get("k") == "struct" and set(n_ for n_, _v in nd.get("f", [])) == {"color", "alpha"}]
            problems = []
            if len(lits_) != 1:
                problems.append("expected exactly one `Self { color, alpha }` literal, found %d" % len(lits_))
            else:
                f = struct_lit_fields(lits_[0])
                col = _resolve(f["color"])
                # colour: local bound from the `?` of the deserialize call, or that call itself
                def from_deser(e, depth=0):
                    e = strip(e)
                    if depth > 6 or not isinstance(e, dict):
                        return False
                    if e.get("k") in ("try", "match") and isinstance(e.get("e"), dict):
                        return from_deser(e["e"], depth + 1)
                    if e.get("k") in ("call", "mcall"):
                        c = e.get("c") if isinstance(e.get("c"), dict) else {}
                        nm = c.get("n") or e.get("n")
                        if nm == "deserialize":
                            return True
                        if nm in ("branch", "into_iter") and e.get("a"):
                            return from_deser(e["a"][0], depth + 1)
                    if e.get("k") == "path" and e["res"].get("k") == "local":
                        fl = _FLOW["cur"]
                        bnd = fl.bind.get(e["res"]["h"]) if fl is not None else None
                        return bnd is not None and from_deser(bnd, depth + 1)
                    return False
                if not from_deser(f["color"]):
                    problems.append("the colour field is not the value returned by `C::deserialize(AlphaDeserializer { .. })`")
                al = strip(f["alpha"])
                if not (al.get("k") == "path" and al["res"].get("k") == "local"):
                    problems.append("the alpha field is not the captured alpha")
            bad_calls = sorted({c for c, nd in calls(b["body"]) if c in ("new", "new_const", "premultiply", "unpremultiply", "from_components", "into_components")
                                or re.search(r"(premultiply|::new)$", str(F.cpath(nd) or ""))})
            if bad_calls:
                problems.append("calls %s while assembling the value (a constructor of PreAlpha / a premultiplication changes the stored components)" % bad_calls)
            rep.ob("SER-3", "%s::deserialize assembles" % adt.split("::")[-1], not problems, "; ".join(problems) if problems else
                   "Ok(Self { color: <deserialised colour>, alpha: <captured alpha> }) and no constructor / premultiplication", F.loc(b))
    rep.floor("Alpha/PreAlpha serde impls", n, 4)
    for fn, what in (("serde::deserialize_with_optional_alpha", "Alpha"), ("serde::deserialize_with_optional_pre_alpha", "PreAlpha")):
        b = F.fn(fn)
        _FLOW["cur"] = Flow(F, b, ["self"]) if b is not None else None
        cs = calls(b["body"])
        u = [nd for c, nd in cs if c == "unwrap_or_else"]
        ok = len(u) == 1 and "missing_field" not in [c for c, _n in cs]
        if ok:
            a0 = strip(u[0]["a"][0])
            nm = F.S[a0["res"]["d"]] if a0.get("k") == "path" and isinstance(a0["res"].get("d"), int) else (a0.get("c", {}) or {}).get("n", "")
            ok = "max_intensity" in str(nm) or "max_intensity" in str(a0)
        rep.ob("SER-3", fn.split("::")[-1], ok, "absent alpha -> %s with alpha = Stimulus::max_intensity() (full opacity)" % what, F.loc(b))
    pairs = {"serde::serialize_as_array": "into_array_ref", "serde::deserialize_as_array": "from_array",
             "serde::serialize_as_uint": "into_uint_ref", "serde::deserialize_as_uint": "from_uint"}
    for fn, want in pairs.items():
        b = F.fn(fn)
        _FLOW["cur"] = Flow(F, b, ["self"]) if b is not None else None
        casts = [(c, F.cpath(nd)) for c, nd in calls(b["body"]) if (F.cpath(nd) or "").startswith("cast::")]
        ok = len(casts) == 1 and casts[0][0] == want
        rep.ob("SER-3", fn.split("::")[-1], ok, "uses %s (the inverse pair of C04)" % [p for _c, p in casts], F.loc(b))
    # one key literal everywhere
    allk = set()
    for b in F.bodies:
        if b["file"] in (SER_FILE, DE_FILE) and b["name"] in ("end", "visit_str", "visit_bytes", "next_key_seed"):
            for l in _all_lits(b["body"]):
                allk.add(_lit_text(l))
    rep.ob("SER-2", "one alpha key", allk == {"alpha"}, "key literals on the writer and reader side: %s" % sorted(allk))


from .c18 import components, self_adt_of


def check_equality_cover(F, rep):
    """EQ-COVER: "deserializes to an equal colour" is only as strong as `==`: PartialEq::eq of every colour type, Alpha and PreAlpha compares
    *every* component of self with the same-named component of other and joins the comparisons with `&&` only (a component left out, or
    compared with another one, makes different colours equal)."""
    n = 0
    for b in F.bodies:
        im = b["_impl"]
        if im is None or b["name"] != "eq" or not (im.get("trait") or "").endswith("cmp::PartialEq") or "::test" in b["path"] or im.get("derived"):
            continue
        if not b["file"].endswith(("macros/equality.rs", "alpha/alpha.rs", "blend/pre_alpha.rs")):
            continue
        if im["trait_args_s"] and im["trait_args_s"][0] != im["self_s"]:
            continue
        adt = self_adt_of(F, b)
        comps = components(F, adt)
        if not comps:
            continue
        n += 1
        params = [p_.get("n") for p_ in b.get("params", [])]
        mine, theirs, other_ops = [], [], []
        for node, parents in facts.walk(b["body"]):
            if node.get("k") == "field" and node["e"].get("k") == "path" and isinstance(node["e"].get("res"), dict):
                who = node["e"]["res"].get("n")
                (mine if who == params[0] else theirs if len(params) > 1 and who == params[1] else other_ops).append(node["n"])
            if node.get("k") == "bin" and node.get("op") not in ("==", "&&"):
                other_ops.append(node.get("op"))
            if node.get("k") in ("if", "match", "ret", "un") and not node.get("exp"):
                if not (node.get("k") == "un" and node.get("op") == "*"):
                    other_ops.append("<%s>" % node["k"])
        # pairing: the i-th projection of self is compared with the i-th of other
        ok = sorted(mine) == sorted(comps) and mine == theirs and not other_ops
        rep.ob("EQ-COVER", "eq[%s]" % im["self_s"], ok, "compares self.%s with other.%s%s (components: %s)" % (mine, theirs, (" and uses " + str(other_ops)) if other_ops else "", comps),
               F.loc(b), nontrivial=False)
    rep.floor("PartialEq impls of colour types", n, 29)


def check_deserializer_entry_points(F, rep):
    """DESER-FWD: AlphaDeserializer is the reader for what AlphaSerializer wrote: one more element than the colour's own (`len + 1` where the
    writer adds one), the colour's own count handed to the visitor as `field_count` (so it knows which element is alpha), the caller's
    visitor and the alpha slot passed through, and each shape read with the inner deserializer's method of the same name."""
    V_SEQ = r"mk:AlphaSeqVisitor\{alpha,inner\}\(d\.alpha, %s\)"
    V_MAP = r"mk:AlphaMapVisitor\{alpha,field_count,inner\}\(d\.alpha, %s, %s\)"
    G = r"<D,'_,serde::alpha_deserializer::Alpha(?:Seq|Map)Visitor<'_, V, A>>"
    EXPECT = {
        "deserialize_seq": r"_::Deserializer::deserialize_seq%s\(d\.inner, %s\)" % (G, V_SEQ % "a1"),
        "deserialize_tuple": r"_::Deserializer::deserialize_tuple%s\(d\.inner, 1 \+ a1, %s\)" % (G, V_MAP % (r"mk:Some\{0\}\(a1\)", "a2")),
        "deserialize_tuple_struct": r"_::Deserializer::deserialize_tuple_struct%s\(d\.inner, a1, 1 \+ a2, %s\)" % (G, V_MAP % (r"mk:Some\{0\}\(a2\)", "a3")),
        "deserialize_map": r"_::Deserializer::deserialize_map%s\(d\.inner, %s\)" % (G, V_MAP % (r"unit:std::prelude::v1::None", "a1")),
        "deserialize_struct": r"_::Deserializer::deserialize_struct%s\(d\.inner, a1, a2, %s\)" % (G, V_MAP % (r"mk:Some\{0\}\(core::slice::<impl \[T\]>::len<&str>\(a2\)\)", "a3")),
        "deserialize_newtype_struct": r"_::Deserializer::deserialize_tuple_struct%s\(d\.inner, a1, 2, %s\)" % (G, V_MAP % (r"mk:Some\{0\}\(1\)", "a2")),
    }
    from .common import Session
    from . import alg, poly
    from .sym import Opaque
    S = Session(F)
    n = 0
    for b in F.bodies:
        im = b["_impl"]
        if im is None or not b["file"].endswith("serde/alpha_deserializer.rs") or not im["self_s"].startswith("serde::alpha_deserializer::AlphaDeserializer<"):
            continue
        if b["name"] not in EXPECT:
            continue
        n += 1
        try:
            v, _ = S.eval(b, names=["d", "a1", "a2", "a3"])
            got = alg._short(v, 700)
            rep.ob("DESER-FWD", "AlphaDeserializer::" + b["name"], re.fullmatch(EXPECT[b["name"]], got) is not None, got, F.loc(b))
        except (Opaque, poly.TooBig) as ex:
            rep.fail("DESER-FWD", "AlphaDeserializer::" + b["name"], "uninterpretable: %s" % ex, F.loc(b))
    rep.floor("AlphaDeserializer entry points", n, 6)


def run(F, rep, tier="quick", extra=None, only=None):
    rep.trusted += ["rustc name resolution / type check; derive expansions as seen in HIR", "serde's data model contract and derive semantics; JSON/RON crates"]
    check_derived(F, rep)
    check_serializer(F, rep)
    check_deserializer(F, rep)
    check_entry_points(F, rep)
    check_deserializer_entry_points(F, rep)
    check_equality_cover(F, rep)
    return {"level": "other", "explanation": EXPLANATION}
