"""Symbolic evaluation of resolved HIR bodies into case trees of rational functions.

Shared expression core (DESIGN §1.2).  Nothing is executed: a body is *interpreted
abstractly* over symbolic inputs; the result is a pure term (case tree with RatFunc
leaves, or a structure of those).  Unsupported constructs raise Opaque.
"""
import re
from fractions import Fraction

from . import poly
from . import facts as facts_mod
from .poly import RatFunc, AtomTable


class Opaque(Exception):
    pass


# ------------------------------------------------------------------ values ----

class Ite:
    __slots__ = ("c", "t", "f")

    def __init__(self, c, t, f):
        self.c = c  # canonical condition atom (hashable tuple)
        self.t = t
        self.f = f

    def __repr__(self):
        return "ite(%s, %r, %r)" % (show_cond(self.c), self.t, self.f)


class Struct:
    __slots__ = ("path", "fields")

    def __init__(self, path, fields):
        self.path = path
        self.fields = fields  # dict name -> value

    def __repr__(self):
        return "%s{%s}" % (self.path.split("::")[-1], ", ".join("%s: %r" % kv for kv in self.fields.items()))


class Tuple:
    __slots__ = ("items",)

    def __init__(self, items):
        self.items = list(items)

    def __repr__(self):
        return "(%s)" % ", ".join(repr(x) for x in self.items)


class Array:
    __slots__ = ("items",)

    def __init__(self, items):
        self.items = list(items)

    def __repr__(self):
        return "[%s]" % ", ".join(repr(x) for x in self.items)


class Closure:
    __slots__ = ("params", "body", "env")

    def __init__(self, params, body, env):
        self.params = params
        self.body = body
        self.env = env


class Bottom:
    """Diverging computation (panic / unreachable)."""
    def __repr__(self):
        return "⊥"

    def __eq__(self, o):
        return isinstance(o, Bottom)

    def __hash__(self):
        return 7


class StrVal:
    __slots__ = ("s",)

    def __init__(self, s):
        self.s = s

    def __repr__(self):
        return repr(self.s)

    def __eq__(self, o):
        return isinstance(o, StrVal) and o.s == self.s

    def __hash__(self):
        return hash(self.s)


class IterV:
    """Symbolic iterator over component collections: `elem` is the value of the generic
    element (index i), possibly containing ElemRef objects for `&mut` elements."""
    __slots__ = ("elem",)

    def __init__(self, elem):
        self.elem = elem

    def __repr__(self):
        return "iter(%r)" % (self.elem,)


class ElemRef:
    """`&mut` reference to the generic element of a collection stored in an lvalue."""
    __slots__ = ("target", "frame", "cur", "written")

    def __init__(self, target, frame, cur):
        self.target = target
        self.frame = frame
        self.cur = cur
        self.written = False

    def __repr__(self):
        return "&mut %r" % (self.cur,)


class MutRef:
    """`&mut <place>`: writes go through to the place in the frame that created it."""
    __slots__ = ("target", "frame")

    def __init__(self, target, frame):
        self.target = target
        self.frame = frame

    def __repr__(self):
        return "&mut <place>"


def elementwise(v):
    return Struct("<elementwise>", {"elem": v})


class FloatSpecial:
    """NaN / +inf / -inf as an input or intermediate (extended-real run of a float function)."""
    __slots__ = ("kind",)

    def __init__(self, kind):
        self.kind = kind

    def __repr__(self):
        return self.kind

    def __eq__(self, o):
        return isinstance(o, FloatSpecial) and o.kind == self.kind

    def __hash__(self):
        return hash(self.kind)


NAN = FloatSpecial("NaN")
PINF = FloatSpecial("+inf")
NINF = FloatSpecial("-inf")


def _sign_of(v):
    if isinstance(v, FloatSpecial):
        return {"+inf": 1, "-inf": -1}.get(v.kind)
    if isinstance(v, RatFunc) and v.is_const():
        c = v.const_value()
        return (c > 0) - (c < 0)
    return None


def special_arith(op, a, b):
    """IEEE arithmetic when an operand is NaN or an infinity; None if undecidable (sign unknown)."""
    if (isinstance(a, FloatSpecial) and a.kind == "NaN") or (isinstance(b, FloatSpecial) and b.kind == "NaN"):
        return NAN
    sa, sb = _sign_of(a), _sign_of(b)
    ia, ib = isinstance(a, FloatSpecial), isinstance(b, FloatSpecial)
    if op in ("+", "-"):
        if op == "-":
            sb = -sb if sb is not None else None
        if ia and ib:
            return NAN if sa != sb else (PINF if sa > 0 else NINF)
        if ia:
            return a
        return PINF if sb > 0 else NINF
    if op == "*":
        if sa is None or sb is None:
            return None
        if sa == 0 or sb == 0:
            return NAN
        return PINF if sa * sb > 0 else NINF
    if op == "/":
        if ia and ib:
            return NAN
        if ia:
            if sb is None:
                return None
            return PINF if sa * (sb if sb != 0 else 1) > 0 else NINF
        return None  # finite / inf = 0: let the caller fold
    return None


def special_cmp(op, a, b):
    if (isinstance(a, FloatSpecial) and a.kind == "NaN") or (isinstance(b, FloatSpecial) and b.kind == "NaN"):
        return op == "!="
    # infinities against finite values / each other
    def rank(v):
        if isinstance(v, FloatSpecial):
            return 2 if v.kind == "+inf" else -2
        return 0
    ra, rb = rank(a), rank(b)
    if ra == rb and ra != 0:
        return op in ("<=", ">=", "==")
    return {"<": ra < rb, "<=": ra <= rb, ">": ra > rb, ">=": ra >= rb, "==": False, "!=": True}[op]


BOTTOM = Bottom()
UNIT = Tuple([])
OPT_SOME = "std::prelude::v1::Some"
OPT_NONE = "std::prelude::v1::None"
RES_OK = "std::prelude::v1::Ok"
RES_ERR = "std::prelude::v1::Err"


def show_cond(c):
    if c[0] == "cmp":
        return "%s %s 0" % (c[3], c[2])
    if c[0] == "pred":
        return "%s(%s)" % (c[1], ", ".join(str(x) for x in c[3]))
    return str(c)


# --- tree helpers --------------------------------------------------------------

def tree_map(f, v, assume=None):
    """Apply f to every leaf of a case tree."""
    if isinstance(v, Ite):
        t = tree_map(f, v.t)
        e = tree_map(f, v.f)
        return mk_ite_c(v.c, t, e)
    return f(v)


def leaves(v, path=()):
    if isinstance(v, Ite):
        yield from leaves(v.t, path + ((v.c, True),))
        yield from leaves(v.f, path + ((v.c, False),))
    else:
        yield path, v


def val_eq(a, b):
    """Structural equality of values (RatFunc by value)."""
    if a is b:
        return True
    if isinstance(a, RatFunc) and isinstance(b, RatFunc):
        return a.equals(b)
    if isinstance(a, Ite) and isinstance(b, Ite):
        return a.c == b.c and val_eq(a.t, b.t) and val_eq(a.f, b.f)
    if isinstance(a, Struct) and isinstance(b, Struct):
        return a.path == b.path and a.fields.keys() == b.fields.keys() and all(val_eq(a.fields[k], b.fields[k]) for k in a.fields)
    if isinstance(a, (Tuple, Array)) and type(a) is type(b):
        return len(a.items) == len(b.items) and all(val_eq(x, y) for x, y in zip(a.items, b.items))
    if isinstance(a, bool) and isinstance(b, bool):
        return a == b
    if isinstance(a, (Bottom, StrVal, FloatSpecial)):
        return a == b
    return False


def restrict(v, c, pol, memo=None):
    """Simplify v under the assumption that condition c has truth value pol (identity-preserving, memoised over shared sub-trees)."""
    if not isinstance(v, (Ite, Struct, Tuple, Array)):
        return v
    if memo is None:
        memo = {}
    key = id(v)
    hit = memo.get(key)
    if hit is not None:
        return hit[1]
    if isinstance(v, Ite):
        if v.c == c:
            r = restrict(v.t if pol else v.f, c, pol, memo)
        else:
            t = restrict(v.t, c, pol, memo)
            f = restrict(v.f, c, pol, memo)
            r = v if (t is v.t and f is v.f) else mk_ite_c(v.c, t, f)
    elif isinstance(v, Struct):
        nf = {k: restrict(x, c, pol, memo) for k, x in v.fields.items()}
        r = v if all(nf[k] is v.fields[k] for k in nf) else Struct(v.path, nf)
    else:
        ni = [restrict(x, c, pol, memo) for x in v.items]
        r = v if all(a is b for a, b in zip(ni, v.items)) else type(v)(ni)
    memo[key] = (v, r)  # keep v alive so the id stays unique
    return r


def mk_ite_c(c, t, f):
    """ite on a canonical condition atom; merges structures field-wise."""
    t = restrict(t, c, True)
    f = restrict(f, c, False)
    if val_eq(t, f):
        return t
    if isinstance(t, Struct) and isinstance(f, Struct) and t.path == f.path and t.fields.keys() == f.fields.keys():
        return Struct(t.path, {k: mk_ite_c(c, t.fields[k], f.fields[k]) for k in t.fields})
    if isinstance(t, Tuple) and isinstance(f, Tuple) and len(t.items) == len(f.items):
        return Tuple([mk_ite_c(c, a, b) for a, b in zip(t.items, f.items)])
    if isinstance(t, Array) and isinstance(f, Array) and len(t.items) == len(f.items):
        return Array([mk_ite_c(c, a, b) for a, b in zip(t.items, f.items)])
    r = Ite(c, t, f)
    return r


def mk_ite(b, t, f):
    """ite on a boolean case tree b (leaves True/False)."""
    if b is True:
        return t
    if b is False:
        return f
    if isinstance(b, Ite):
        return mk_ite_c(b.c, mk_ite(b.t, t, f), mk_ite(b.f, t, f))
    raise Opaque("non-boolean condition %r" % (b,))


def b_not(b):
    return tree_map(lambda x: (not x) if isinstance(x, bool) else _bad_bool(x), b)


def _bad_bool(x):
    raise Opaque("not a boolean: %r" % (x,))


def b_and(a, b):
    return mk_ite(a, b, False)


def b_or(a, b):
    return mk_ite(a, True, b)


def map2(op, a, b, depth=0):
    if isinstance(a, Ite):
        return mk_ite_c(a.c, map2(op, restrict(a.t, a.c, True), restrict(b, a.c, True)), map2(op, restrict(a.f, a.c, False), restrict(b, a.c, False)))
    if isinstance(b, Ite):
        return mk_ite_c(b.c, map2(op, a, restrict(b.t, b.c, True)), map2(op, a, restrict(b.f, b.c, False)))
    if isinstance(a, Bottom) or isinstance(b, Bottom):
        return BOTTOM
    return op(a, b)


def mapn(op, args):
    """op over the leaves of several case trees."""
    for i, a in enumerate(args):
        if isinstance(a, Ite):
            ta = [restrict(x, a.c, True) for x in args]
            ta[i] = a.t
            fa = [restrict(x, a.c, False) for x in args]
            fa[i] = a.f
            return mk_ite_c(a.c, mapn(op, ta), mapn(op, fa))
    if any(isinstance(a, Bottom) for a in args):
        return BOTTOM
    return op(*args)


def hoist(v):
    """Case tree equivalent to v whose leaves contain no Ite (conditions pulled out of struct/tuple fields)."""
    if isinstance(v, Ite):
        return mk_ite_top(v.c, hoist(v.t), hoist(v.f))
    if isinstance(v, Struct):
        ks = list(v.fields)
        fs = [hoist(v.fields[k]) for k in ks]
        return _mapn_top(lambda *xs: Struct(v.path, dict(zip(ks, xs))), fs)
    if isinstance(v, Tuple):
        return _mapn_top(lambda *xs: Tuple(list(xs)), [hoist(x) for x in v.items])
    if isinstance(v, Array):
        return _mapn_top(lambda *xs: Array(list(xs)), [hoist(x) for x in v.items])
    return v


def _restrict_top(v, c, pol):
    """restrict() for hoisted trees: never re-merges structures field-wise."""
    if isinstance(v, Ite):
        if v.c == c:
            return _restrict_top(v.t if pol else v.f, c, pol)
        t = _restrict_top(v.t, c, pol)
        f = _restrict_top(v.f, c, pol)
        if t is v.t and f is v.f:
            return v
        return t if val_eq(t, f) else Ite(v.c, t, f)
    return v


def mk_ite_top(c, t, f):
    t = _restrict_top(t, c, True)
    f = _restrict_top(f, c, False)
    if val_eq(t, f):
        return t
    return Ite(c, t, f)


def _mapn_top(op, args):
    for i, a in enumerate(args):
        if isinstance(a, Ite):
            ta = [_restrict_top(x, a.c, True) for x in args]
            ta[i] = a.t
            fa = [_restrict_top(x, a.c, False) for x in args]
            fa[i] = a.f
            return mk_ite_top(a.c, _mapn_top(op, ta), _mapn_top(op, fa))
    return op(*args)


def count_leaves(v):
    if isinstance(v, Ite):
        return count_leaves(v.t) + count_leaves(v.f)
    return 1


# ------------------------------------------------------------- the context ----

SCALAR_PRIMS = {"f32", "f64", "u8", "u16", "u32", "u64", "u128", "usize", "i8", "i16", "i32", "i64", "i128", "isize", "bool"}


class Ctx:
    """Holds the atom table and the operator table for one analysis session."""

    def __init__(self, facts):
        self.facts = facts
        self.tab = AtomTable()
        self.app_canon = None  # optional hook: (name, typeargs) -> canonical name
        self.no_inline = set()  # def paths never inlined (treated as uninterpreted)
        self.force_uninterp = None  # optional predicate(path)->name
        self.max_depth = 8
        self.const_cache = {}
        self.positive = set()  # atom names assumed > 0 (declared by the rule, listed in evidence)
        self.expand_minmax = False  # min/max as case splits (decidable bounds reasoning)
        self.strict_pow_domain = False  # True: keep powf(x, 1/3) distinct from cbrt(x) (they differ for x < 0)
        self.int_ranges = {}  # atom name -> (lo, hi) for integer-typed inputs (declared by the rule)

    # constructors ---------------------------------------------------------
    def num(self, c):
        return RatFunc.const(Fraction(c), self.tab)

    def sym(self, name):
        a = self.tab.sym(name)
        poly.register_atom(a)
        return RatFunc.atom(a, self.tab)

    def app(self, name, args):
        """Uninterpreted application; args are RatFunc (scalar leaves)."""
        if any(isinstance(a, FloatSpecial) for a in args):
            if name in ("min", "max") and len(args) == 2:
                a, b = args
                if isinstance(a, FloatSpecial) and a.kind == "NaN":
                    return b
                if isinstance(b, FloatSpecial) and b.kind == "NaN":
                    return a
                c = special_cmp("<=", a, b)
                return (a if c else b) if name == "min" else (b if c else a)
            if name in ("abs",):
                return NAN if args[0].kind == "NaN" else PINF
            if name in ("round", "floor", "ceil", "sqrt", "cbrt") and isinstance(args[0], FloatSpecial):
                return NAN if (args[0].kind == "NaN" or (name == "sqrt" and args[0].kind == "-inf")) else args[0]
            if name.startswith("cast:"):
                # Rust `as`: NaN -> 0, +inf -> MAX, -inf -> MIN(0 for unsigned)
                t = name[5:]
                if t in ("f32", "f64"):
                    return args[0]
                if args[0].kind == "+inf" and t.startswith("u"):
                    return self.num(2 ** _int_bits(t) - 1)
                if t.startswith("u"):
                    return self.num(0)
            if any(isinstance(a, FloatSpecial) and a.kind == "NaN" for a in args):
                # everything else propagates NaN; the application is kept visible as `name(NaN)`
                return self.sym("%s(NaN)" % name)
            return self.sym("%s(%s)" % (name, ",".join(repr(a) for a in args)))
        if getattr(self, "trig_axioms", False) and all(isinstance(a, RatFunc) for a in args):
            r = self._trig(name, args)
            if r is not None:
                return r
        # light constant folding
        if name == "cbrt" and len(args) == 1 and isinstance(args[0], RatFunc) and not args[0].is_const():
            cube = _cube_of_linear(args[0], self)
            if cube is not None and cube[1] == 0:
                return cube[0]
        if name == "sqrt" and len(args) == 1 and isinstance(args[0], RatFunc) and self.positive and not args[0].is_const() \
                and len(args[0].num) == 1 and len(args[0].den) == 1:
            # sqrt(c * x^2a * y^2b / ...) with every atom declared positive
            (mn, cn), = args[0].num.items()
            (md, cd), = args[0].den.items()
            if all(e % 2 == 0 and poly.atom_by_id(k).name in self.positive for k, e in tuple(mn) + tuple(md)):
                r = _exact_root(Fraction(cn) / Fraction(cd), 2)
                if r is not None:
                    return RatFunc({tuple((k, e // 2) for k, e in mn): Fraction(r)}, {tuple((k, e // 2) for k, e in md): Fraction(1)}, self.tab)._norm()
        if name in ("sqrt", "cbrt") and len(args) == 1 and isinstance(args[0], RatFunc) and args[0].is_const():
            c = args[0].const_value()
            r = _exact_root(c, 2 if name == "sqrt" else 3)
            if r is not None:
                return self.num(r)
        if name in ("from_bits", "float.from_bits") and isinstance(args[0], RatFunc):
            r = _fold_from_bits(args[0], self)
            if r is not None:
                return r
        if name == "abs" and isinstance(args[0], RatFunc) and args[0].is_const():
            return self.num(abs(args[0].const_value()))
        if name in ("min", "max") and all(isinstance(a, RatFunc) and a.is_const() for a in args):
            f = min if name == "min" else max
            return self.num(f(a.const_value() for a in args))
        if name in ("floor", "ceil", "round") and isinstance(args[0], RatFunc) and args[0].is_const():
            c = args[0].const_value()
            import math
            if name == "floor":
                return self.num(math.floor(c))
            if name == "ceil":
                return self.num(math.ceil(c))
            return self.num(math.floor(c + Fraction(1, 2)) if c >= 0 else -math.floor(-c + Fraction(1, 2)))
        if name in ("min", "max") and self.expand_minmax and len(args) == 2 and all(isinstance(a, RatFunc) for a in args):
            c = self._cmp_leaf("<=", args[0], args[1])
            if name == "min":
                return mk_ite(c, args[0], args[1])
            return mk_ite(c, args[1], args[0])
        if name in ("min", "max"):
            # commutative: order arguments canonically
            args = sorted(args, key=lambda a: repr(a.key()) if isinstance(a, RatFunc) else repr(a))
            if len(args) == 2 and isinstance(args[0], RatFunc) and isinstance(args[1], RatFunc) and args[0].equals(args[1]):
                return args[0]
        if name == "abs" and isinstance(args[0], RatFunc):
            # abs(-x) = abs(x): canonical sign = first coefficient positive
            a0 = args[0]
            if a0.num:
                lead = a0.num[min(a0.num)]
                if lead < 0:
                    args = [-a0]
        if name == "powf" and isinstance(args[1], RatFunc) and args[1].is_const():
            e = args[1].const_value()
            if e == Fraction(1, 3) and not self.strict_pow_domain:
                # powf(x, 1/3) = cbrt(x) only for x >= 0 (powf of a negative base is NaN): sibling comparisons switch the rewrite off
                return self.app("cbrt", [args[0]])
            if e == Fraction(1, 2):
                return self.app("sqrt", [args[0]])
            if e.denominator == 1 and abs(e.numerator) <= 8 and isinstance(args[0], RatFunc):
                return args[0] ** int(e)
            b = args[0]
            # powf(powf(x,a),b) = powf(x, ab)
            if isinstance(b, RatFunc):
                ba = _single_atom(b)
                if ba is not None and ba.name == "powf" and isinstance(ba.args[1], RatFunc) and ba.args[1].is_const():
                    return self.app("powf", [ba.args[0], self.num(ba.args[1].const_value() * e)])
        if name == "powf" and isinstance(args[0], RatFunc) and isinstance(args[1], RatFunc) and not args[1].is_const():
            # powf(powf(x, a), b) with symbolic exponents whose product is a constant (a = 1/g, b = g): x^(a·b)
            ba = _single_atom(args[0])
            if ba is not None and ba.name == "powf" and isinstance(ba.args[1], RatFunc):
                prod = ba.args[1] * args[1]
                if prod.is_const():
                    if prod.const_value() == 1:
                        return ba.args[0]
                    return self.app("powf", [ba.args[0], prod])
        if name == "exp" and isinstance(args[0], RatFunc):
            ba = _single_atom(args[0])
            if ba is not None and ba.name == "ln":
                return ba.args[0]
        if name == "ln" and isinstance(args[0], RatFunc):
            ba = _single_atom(args[0])
            if ba is not None and ba.name == "exp":
                return ba.args[0]
        a = self.tab.app(name, list(args))
        poly.register_atom(a)
        return RatFunc.atom(a, self.tab)

    # ---- trigonometric axioms (enabled per rule; each use is an identity over the reals for the stated side conditions) ----
    def _trig(self, name, args):
        a0 = args[0]
        at = _single_atom(a0)
        if name == "deg2rad" and at is not None and at.name == "rad2deg":
            return at.args[0]
        if name == "rad2deg" and at is not None and at.name == "deg2rad":
            return at.args[0]
        if name in ("cos", "sin") and at is None:
            # cos(x + pi) = -cos(x), sin(x + pi) = -sin(x)
            pi = self.sym("pi")
            rest = a0 - pi
            if "pi" not in {poly.atom_by_id(k).name for k in rest.atoms()} and not rest.is_const():
                return -self.app(name, [rest])
        if name in ("cos", "sin") and at is not None and at.name == "atan2":
            y, x = at.args
            r = self.app("sqrt", [x * x + y * y])  # (x, y) != (0, 0)
            return (x if name == "cos" else y) / r
        if name == "sqrt":
            b = self._pythagoras(a0)
            if b is not None and not b.equals(a0):
                return self.app("sqrt", [b])
        if name == "max" and len(args) == 2:
            for u, v in ((args[0], args[1]), (args[1], args[0])):
                au = _single_atom(u)
                if v.is_zero() and au is not None and au.name == "sqrt":
                    return u  # sqrt(x) >= 0
        if name == "atan2":
            y, x = args
            # atan2(r sin t, r cos t) = t (mod 2 pi) for r > 0
            for aid in y.atoms():
                sa = poly.atom_by_id(aid)
                if sa.name != "sin" or not sa.args:
                    continue
                t = sa.args[0]
                sin_t = RatFunc.atom(sa, self.tab)
                cos_t = self.app("cos", [t])
                try:
                    ry, rx = y / sin_t, x / cos_t
                except ZeroDivisionError:
                    continue
                if ry.equals(rx) and self._positive_product(ry):
                    return t
                if ry.equals(rx) and self._positive_product(-ry):
                    return t - self.sym("pi")  # r < 0: the opposite direction, t +- pi (mod 2 pi)
        return None

    def _positive_product(self, r):
        if r.is_const():
            return r.const_value() > 0
        if len(r.num) != 1 or len(r.den) != 1:
            return False
        (mn, cn), = r.num.items()
        (md, cd), = r.den.items()
        if Fraction(cn) / Fraction(cd) <= 0:
            return False
        return all(poly.atom_by_id(k).name in self.positive for k, _e in tuple(mn) + tuple(md))

    def _pythagoras(self, rf):
        """Rewrite sin(t)^2 -> 1 - cos(t)^2 in the numerator of rf (constant denominator only)."""
        if not poly.p_is_const(rf.den):
            return None
        out = self.num(0)
        changed = False
        d = poly.p_const_value(rf.den)
        for m, c in rf.num.items():
            t = self.num(Fraction(c) / d)
            for k, e in m:
                at = poly.atom_by_id(k)
                base = RatFunc.atom(at, self.tab)
                if at.name == "sin" and at.args and e >= 2:
                    cos_t = self.app("cos", [at.args[0]])
                    sq = self.num(1) - cos_t * cos_t
                    t = t * (sq ** (e // 2)) * (base ** (e % 2))
                    changed = True
                else:
                    t = t * (base ** e)
            out = out + t
        return out if changed else None

    def sapp(self, name, args):
        """app lifted over case trees."""
        return mapn(lambda *xs: self.app(name, list(xs)), list(args))

    # conditions -------------------------------------------------------------
    def cmp(self, op, a, b):
        return map2(lambda x, y: self._cmp_leaf(op, x, y), a, b)

    def _cmp_leaf(self, op, a, b):
        if isinstance(a, FloatSpecial) or isinstance(b, FloatSpecial):
            return special_cmp(op, a, b)
        if isinstance(a, Struct) and isinstance(b, Struct) and op in ("==", "!="):
            # enum values without symbolic payload (Option<Ordering> ...)
            eq = _enum_eq(a, b)
            if eq is None:
                raise Opaque("comparison of structured values %r %s %r" % (a, op, b))
            return eq if op == "==" else b_not(eq)
        if isinstance(a, bool) and isinstance(b, bool):
            if op == "==":
                return a == b
            if op == "!=":
                return a != b
        if not (isinstance(a, RatFunc) and isinstance(b, RatFunc)):
            if op in ("==", "!="):
                r = val_eq(a, b)
                if isinstance(a, StrVal) and isinstance(b, StrVal):
                    return r if op == "==" else not r
            raise Opaque("comparison of non-scalars %r %s %r" % (a, op, b))
        # a op b  <=>  (a-b) op 0
        if op == ">":
            return self._cmp_leaf("<", b, a)
        if op == ">=":
            return self._cmp_leaf("<=", b, a)
        d = a - b
        if d.is_const():
            c = d.const_value()
            return {"<": c < 0, "<=": c <= 0, "==": c == 0, "!=": c != 0}[op]
        # a denominator that is a product of atoms declared positive does not affect the sign
        if not poly.p_is_const(d.den) and self.positive:
            # every monomial of the denominator is a positive coefficient times atoms declared positive => denominator > 0
            if all(cden > 0 and all(poly.atom_by_id(k).name in self.positive for k, _ in m) for m, cden in d.den.items()):
                d = RatFunc(dict(d.num), poly.p_const(1), self.tab)._norm()
        if self.positive and poly.p_is_const(d.den) and len(d.num) >= 2:
            # a monomial of positive atoms common to every term does not affect the sign: p*(a - b) op 0 <=> a - b op 0
            common = None
            for m in d.num:
                pm = {k: e for k, e in m if poly.atom_by_id(k).name in self.positive}
                common = pm if common is None else {k: min(e, pm[k]) for k, e in common.items() if k in pm}
                if not common:
                    break
            if common:
                num2 = {}
                for m, cn in d.num.items():
                    m2 = tuple((k, e - common.get(k, 0)) for k, e in m if e - common.get(k, 0) > 0)
                    num2[m2] = num2.get(m2, Fraction(0)) + cn
                d = RatFunc(num2, d.den, self.tab)._norm()
                if d.is_const():
                    c = d.const_value()
                    return {"<": c < 0, "<=": c <= 0, "==": c == 0, "!=": c != 0}[op]
        if self.positive and op in ("==", "!=") and poly.p_is_const(d.den) and len(d.num) == 1:
            # c * p1^a * x^b == 0  <=>  x == 0   (c != 0, p1 > 0)
            (m, cn), = d.num.items()
            m2 = tuple((k, 1) for k, _e in m if poly.atom_by_id(k).name not in self.positive)
            if m2 and (m2 != m or cn != 1):
                d = RatFunc({m2: Fraction(1)}, poly.p_const(1), self.tab)._norm()
        if self.positive and poly.p_is_const(d.den) and d.num:
            # a sum of products of positive atoms with coefficients of one sign has that sign
            dc = poly.p_const_value(d.den)
            signs = set()
            for m, cn in d.num.items():
                if not all(poly.atom_by_id(k).name in self.positive for k, _ in m):
                    signs = None
                    break
                signs.add((cn / dc) > 0)
            if signs is not None and len(signs) == 1:
                pos = signs.pop()
                return {"<": not pos, "<=": not pos, "==": False, "!=": True}[op]
        # (linear form)^3 + r op 0  <=>  linear form op cbrt(-r)   (x -> x^3 strictly monotone)
        cube = _cube_of_linear(d, self)
        if cube is None and poly.p_is_const(d.den):
            # alpha * L^3 + r op 0: divide by the (non-cube) leading coefficient first
            c3 = [cn for m, cn in d.num.items() if len(m) == 1 and m[0][1] == 3]
            if len(c3) == 1 and c3[0] != 0:
                alpha = c3[0] / poly.p_const_value(d.den)
                d2 = d * self.num(1 / alpha)
                cube = _cube_of_linear(d2, self)
                if cube is not None and alpha < 0:
                    op = {"<": ">", "<=": ">=", "==": "==", "!=": "!=", ">": "<", ">=": "<="}[op]
        if cube is not None:
            lin, r = cube
            root = _exact_root(-r, 3)
            if root is not None:
                return self._cmp_leaf(op, lin, self.num(root))
        # strictly monotone cbrt: alpha*cbrt(u) + k op 0  <=>  u op' (-k/alpha)^3
        if poly.p_is_const(d.den) and 1 <= len(d.num) <= 2:
            mono = [m for m in d.num if m != ()]
            if len(mono) == 1 and len(mono[0]) == 1 and mono[0][0][1] == 1:
                at = poly.atom_by_id(mono[0][0][0])
                if at.name == "cbrt" and isinstance(at.args[0], RatFunc):
                    den = poly.p_const_value(d.den)
                    alpha = d.num[mono[0]] / den
                    k = d.num.get((), Fraction(0)) / den
                    thr = self.num((-k / alpha) ** 3)
                    u = at.args[0]
                    if alpha > 0:
                        return self._cmp_leaf(op, u, thr)
                    return self._cmp_leaf({"<": ">", "<=": ">=", "==": "==", "!=": "!="}[op], u, thr)
        neg = False
        if op == "!=":
            op = "=="
            neg = True
        # sign canonicalisation
        lead = d.num[min(d.num)]
        if op == "==":
            if lead < 0:
                d = -d
        else:
            # d < 0 with negative lead:  -d > 0  <=> not(-d <= 0)
            if lead < 0:
                d = -d
                op = "<=" if op == "<" else "<"
                neg = not neg
        c = ("cmp", d.key(), op, poly.show_rf(d))
        self._cond_rf[c] = d
        t = Ite(c, True, False)
        return b_not(t) if neg else t

    _cond_rf = {}

    def pred(self, name, args):
        def leaf(*xs):
            key = tuple(x.key() if isinstance(x, RatFunc) else repr(x) for x in xs)
            c = ("pred", name, key, tuple(repr(x) for x in xs))
            self._cond_rf[c] = list(xs)
            return Ite(c, True, False)
        return mapn(leaf, list(args))


def _float_of_bits(n):
    import struct
    if n < 2 ** 32:
        return Fraction(struct.unpack("<f", struct.pack("<I", n))[0])
    return Fraction(struct.unpack("<d", struct.pack("<Q", n))[0])


def _fold_from_bits(rf, ctx):
    """from_bits(c) for a constant; from_bits(bits(2^k) + t) = 2^k + t for an integer t declared to lie
    in [0, 2^k) (ctx.int_ranges) — the magic-number identity of Hacker's Delight."""
    if rf.is_const():
        c = rf.const_value()
        if c.denominator == 1 and int(c) in (2 ** 32 - 1, 2 ** 64 - 1):
            return ctx.sym("mask:all-ones")  # the SIMD `true` lane (a NaN bit pattern as a float)
        if c.denominator == 1 and 0 <= c < 2 ** 64:
            return ctx.num(_float_of_bits(int(c)))
        return None
    if not poly.p_is_const(rf.den) or poly.p_const_value(rf.den) != 1:
        return None
    c = rf.num.get((), Fraction(0))
    rest = {m: v for m, v in rf.num.items() if m != ()}
    if len(rest) != 1 or c.denominator != 1:
        return None
    (m, coef), = rest.items()
    if coef != 1 or len(m) != 1 or m[0][1] != 1:
        return None
    at = poly.atom_by_id(m[0][0])
    rng = ctx.int_ranges.get(at.name)
    if rng is None:
        return None
    for k, bits in ((23, 0x4B000000), (52, 0x4330000000000000)):
        if int(c) == bits and 0 <= rng[0] and rng[1] < 2 ** k:
            return ctx.num(2 ** k) + RatFunc.atom(at, ctx.tab)
    return None


def _cube_of_linear(d, ctx):
    """If d (constant denominator) = L^3 + r with L a linear form in atoms and r constant,
    return (L, r)."""
    if not poly.p_is_const(d.den):
        return None
    den = poly.p_const_value(d.den)
    num = d.num
    if not num or max(sum(e for _, e in m) for m in num) != 3:
        return None
    atoms = set()
    for m in num:
        for k, e in m:
            atoms.add(k)
    coef = {}
    for k in atoms:
        c3 = num.get(((k, 3),))
        if c3 is None:
            return None
        a = _exact_root(c3 / den, 3)
        if a is None:
            return None
        coef[k] = a
    # constant term of L from the x^2 coefficient of the first atom
    k0 = sorted(atoms)[0]
    c2 = num.get(((k0, 2),), Fraction(0)) / den
    a0 = c2 / (3 * coef[k0] ** 2)
    L = RatFunc.const(a0, ctx.tab)
    for k, a in coef.items():
        L = L + RatFunc({((k, 1),): Fraction(a)}, poly.p_const(1), ctx.tab)
    rest = d - L ** 3
    if not rest.is_const():
        return None
    return L, rest.const_value()


def _single_atom(rf):
    if len(rf.num) == 1 and poly.p_is_const(rf.den) and poly.p_const_value(rf.den) == 1:
        (m, c), = rf.num.items()
        if c == 1 and len(m) == 1 and m[0][1] == 1:
            return poly.atom_by_id(m[0][0])
    return None


def _exact_root(c, n):
    if c < 0 and n == 2:
        return None
    sign = -1 if c < 0 else 1
    c = abs(c)

    def iroot(x):
        r = round(x ** (1.0 / n))
        for k in (r - 1, r, r + 1):
            if k >= 0 and k ** n == x:
                return k
        return None
    p, q = iroot(c.numerator), iroot(c.denominator)
    if p is None or q is None:
        return None
    return Fraction(sign * p, q)


# --------------------------------------------------------------- evaluator ----

class Return(Exception):
    pass


# std methods that take `&mut self` only to hand out a pointer / reference: no state change by the call itself
_VARIANT_NAMES = {"Some", "None", "Ok", "Err", "Continue", "Break", "Less", "Equal", "Greater"}
_PURE_MUT_METHODS = {"as_mut_ptr", "as_mut_slice", "as_mut", "deref_mut", "borrow_mut", "get_mut", "iter_mut", "first_mut", "last_mut",
                     "as_mut_ref", "get_unchecked_mut", "split_at_mut"}
_WIDE_METHODS = {
    "splat": "id.", "cmp_eq": "cmp.==", "cmp_ne": "cmp.!=", "cmp_lt": "cmp.<", "cmp_le": "cmp.<=", "cmp_gt": "cmp.>", "cmp_ge": "cmp.>=",
    "blend": "select", "mul_add": "mul_add", "mul_sub": "mul_sub", "min": "fn1.min", "max": "fn1.max",
    "pow_f32x4": "fn1.powf", "pow_f32x8": "fn1.powf", "pow_f64x2": "fn1.powf", "pow_f64x4": "fn1.powf",
    # one-lane abstraction of horizontal reductions: `all`/`none` of a single lane
    "all": "lane_all", "none": "lane_none", "any": "lane_all",
}
_FLOAT_METHODS = {
    "sqrt": "sqrt", "cbrt": "cbrt", "abs": "abs", "floor": "floor", "ceil": "ceil", "round": "round",
    "sin": "sin", "cos": "cos", "tan": "tan", "asin": "asin", "acos": "acos", "atan": "atan",
    "exp": "exp", "ln": "ln", "signum": "signum", "to_degrees": "rad2deg", "to_radians": "deg2rad",
    "trunc": "trunc", "fract": "fract", "log2": "log2", "log10": "log10", "exp2": "exp2",
}


class _Break(Exception):
    def __init__(self, value):
        self.value = value


class _Continue(Exception):
    pass


def _const_ints(a, b):
    if isinstance(a, RatFunc) and isinstance(b, RatFunc) and a.is_const() and b.is_const():
        x, y = a.const_value(), b.const_value()
        if x.denominator == 1 and y.denominator == 1:
            return int(x), int(y)
    return None


class Frame:
    def __init__(self, body, env, tsubst, depth):
        self.body = body
        self.env = env
        self.tsubst = tsubst
        self.depth = depth
        self.returns = []  # list of (pc boolean tree, value)
        self.panic_pcs = []  # path conditions under which the body diverges
        self.pc = True
        self.dead = False


class Evaluator:
    def __init__(self, ctx):
        self.ctx = ctx
        self.F = ctx.facts
        self.S = ctx.facts.S
        self.trace_calls = []  # (caller path, callee path) inlined
        self.let_hook = None  # optional: value -> value, applied to every simple `let`
        self.uninterp = {}  # name -> count

    # ---- entry -------------------------------------------------------------
    def eval_body(self, body, args=None, tsubst=None, depth=0, self_name=None):
        """Evaluate a body; args: list of values for params (default: fresh symbols).
        Returns (value, final env dict name->value for params bound by-name)."""
        if depth == 0:
            poly.reset_budget()
            self.steps = 0
        env = {}
        params = body.get("params", [])
        if args is None:
            args = [None] * len(params)
        if len(args) != len(params):
            raise Opaque("arity mismatch calling %s" % body["path"])
        pnames = []
        for p, a in zip(params, args):
            if a is None:
                a = self.fresh_for_pat(p)
            self.bind(p, a, env)
            pnames.append(p)
        fr = Frame(body, env, tsubst or {}, depth)
        facts_mod.note_eval(body)
        v = self.ev(body["body"], fr)
        res = self.finish(fr, v)
        return res, fr

    def finish(self, fr, v):
        # combine early returns: ite(pc1, r1, ite(pc2, r2, ... v))
        res = v
        for pc, rv in reversed(fr.returns):
            res = mk_ite(pc, rv, res)
        for pc in reversed(fr.panic_pcs):
            if pc is True:
                return BOTTOM
            if pc is not False:
                res = mk_ite(pc, BOTTOM, res)
        return res

    def fresh_for_pat(self, p, prefix=""):
        k = p["k"]
        if k == "bind":
            return self.ctx.sym(prefix + p["n"])
        if k == "tuple":
            return Tuple([self.fresh_for_pat(x, prefix + "%d." % i) for i, x in enumerate(p["a"])])
        if k in ("ref", "deref"):
            return self.fresh_for_pat(p["p"], prefix)
        if k == "wild":
            return self.ctx.sym(prefix + "_")
        if k == "struct":
            return self.ctx.sym(prefix + "arg")
        raise Opaque("param pattern %s" % k)

    def param_value(self, fr, name):
        for h, (n, v) in fr.env.items():
            if n == name:
                return v
        return None

    # ---- patterns ------------------------------------------------------------
    def bind(self, p, v, env):
        k = p["k"]
        if k == "bind":
            env[p["h"]] = (p["n"], v)
            if p.get("sub"):
                self.bind(p["sub"], v, env)
            return
        if k == "wild":
            return
        if k in ("ref", "deref"):
            return self.bind(p["p"], v, env)
        if k == "tuple":
            n = len(p["a"])
            dd = p.get("dd")
            for i, sp in enumerate(p["a"]):
                if dd is not None and i >= dd:
                    raise Opaque("tuple pattern with ..")
                self.bind(sp, self.proj(v, str(i)), env)
            return
        if k == "struct":
            for fname, sp in p["f"]:
                self.bind(sp, self.proj(v, fname), env)
            return
        if k == "tstruct":
            if p.get("dd") is not None:
                raise Opaque("tuple struct pattern with ..")
            for i, sp in enumerate(p["a"]):
                self.bind(sp, self.proj(v, str(i)), env)
            return
        if k == "slice":
            if p.get("mid") is not None and p["mid"].get("k") != "wild":
                raise Opaque("slice pattern with binding rest")
            for i, sp in enumerate(p["b"]):
                self.bind(sp, self.index(v, i), env)
            if p["a"]:
                raise Opaque("slice pattern suffix")
            return
        raise Opaque("pattern %s" % k)

    def proj(self, v, name):
        v = self.deref(v)
        if isinstance(v, Ite):
            return mk_ite_c(v.c, self.proj(v.t, name), self.proj(v.f, name))
        if isinstance(v, Struct):
            if name in v.fields:
                return v.fields[name]
            raise Opaque("no field %s in %r" % (name, v))
        if isinstance(v, Tuple):
            return v.items[int(name)]
        if isinstance(v, RatFunc):
            a = _single_atom(v)
            if a is not None:
                if a.args:
                    return self.ctx.app("proj." + name, [v])
                return self.ctx.sym(a.name + "." + name)
        if isinstance(v, Bottom):
            return v
        raise Opaque("projection .%s of %r" % (name, v))

    def index(self, v, i):
        v = self.deref(v)
        if isinstance(v, Bottom):
            return v
        if isinstance(v, Ite):
            return mk_ite_c(v.c, self.index(v.t, i), self.index(v.f, i))
        if isinstance(v, (Array, Tuple)):
            if isinstance(i, int):
                return v.items[i]
        if isinstance(v, RatFunc) and isinstance(i, int):
            a = _single_atom(v)
            if a is not None and not a.args:
                return self.ctx.sym("%s[%d]" % (a.name, i))
        raise Opaque("index %r[%r]" % (v, i))

    # ---- expressions -----------------------------------------------------------
    def ev(self, e, fr):
        self.steps = getattr(self, "steps", 0) + 1
        if self.steps > 400000:
            raise Opaque("evaluation step budget exhausted")
        k = e["k"]
        m = getattr(self, "ev_" + k, None)
        if m is None:
            raise Opaque("expr kind %s at line %s" % (k, e.get("l")))
        return m(e, fr)

    def ev_block(self, e, fr):
        for s in e["s"]:
            if fr.dead:
                return BOTTOM
            sk = s["k"]
            if sk == "let":
                if s.get("else") is not None:
                    raise Opaque("let-else")
                if s.get("init") is None:
                    # declared later: bind to bottom placeholder
                    self.bind_uninit(s["pat"], fr.env)
                    continue
                v = self.ev(s["init"], fr)
                if self.let_hook is not None and s["pat"]["k"] in ("bind", "slice", "tuple"):
                    v = self.let_hook(v)
                self.bind(s["pat"], v, fr.env)
            else:
                self.ev(s["e"], fr)
        if fr.dead:
            return BOTTOM
        if "e" in e:
            return self.ev(e["e"], fr)
        return UNIT

    def bind_uninit(self, p, env):
        if p["k"] == "bind":
            env[p["h"]] = (p["n"], BOTTOM)
        else:
            raise Opaque("uninitialised pattern")

    def ev_lit(self, e, fr):
        l = e["lit"]
        lk = l["lk"]
        if lk == "int":
            return self.ctx.num(int(l["v"]))
        if lk == "float":
            return self.ctx.num(_parse_float(l["v"]))
        if lk == "bool":
            return l["v"] == "true"
        if lk == "str":
            return StrVal(l["v"])
        if lk == "char":
            return StrVal(l["v"])
        raise Opaque("literal kind %s" % lk)

    def ev_path(self, e, fr):
        r = e["res"]
        if r["k"] == "local":
            ent = fr.env.get(r["h"])
            if ent is None:
                raise Opaque("unbound local %s" % r["n"])
            return ent[1]
        if r["k"] == "def":
            dk = r["dk"]
            if dk == "ConstParam":
                return self.ctx.sym("const:" + self.S[r["d"]].split("::")[-1])
            if dk.startswith("Const") or dk.startswith("AssocConst"):
                return self.const_value(r["c"], fr, e)
            if dk.startswith("Ctor"):
                # unit struct / variant
                return Struct(self.S[r["d"]], {})
            if dk.startswith("Static"):
                return self.static_value(r, fr)
            if dk in ("Fn", "AssocFn"):
                return ("fnref", r["c"])
            if dk == "ConstParam":
                return self.ctx.sym("const:" + self.S[r["d"]].split("::")[-1])
        if r["k"] == "selfctor":
            return Struct("Self", {})
        raise Opaque("path %r" % (r,))

    def static_value(self, r, fr):
        b = self.F.body_by_id.get(r.get("i"))
        if b is None:
            raise Opaque("extern static")
        key = ("static", r["i"])
        if key not in self.ctx.const_cache:
            v, _ = self.eval_body(b, [], depth=fr.depth + 1)
            self.ctx.const_cache[key] = v
        return self.ctx.const_cache[key]

    def const_value(self, c, fr, e):
        path0 = self.S[c.get("r", c["d"])]
        std0 = _STD_CONSTS.get(path0.split("::", 1)[-1] if path0.startswith(("std::", "core::")) else path0)
        if std0 is not None:
            return self.ctx.sym(std0)
        if "v" in c:
            return self.scalar_const(c["v"])
        mw = re.match(r"^wide::(?:<impl wide::)?(?:f32x4|f32x8|f64x2|f64x4)>?::(ONE|ZERO|HALF)$", path0)
        if mw:
            return self.ctx.num({"ONE": Fraction(1), "ZERO": Fraction(0), "HALF": Fraction(1, 2)}[mw.group(1)])
        bid = c.get("ri", c.get("i"))
        b = self.F.body_by_id.get(bid)
        path = self.S[c.get("r", c["d"])]
        if b is not None and b.get("body") is not None and not b["dk"].startswith("AssocConst") or (b is not None and "ri" in c) or (b is not None and "tr" not in c):
            key = ("const", bid)
            if key not in self.ctx.const_cache:
                v, _ = self.eval_body(b, [], depth=fr.depth + 1)
                self.ctx.const_cache[key] = v
            return self.ctx.const_cache[key]
        # known std constants
        std = _STD_CONSTS.get(path.split("::", 1)[-1] if path.startswith(("std::", "core::")) else path)
        if std is not None:
            return self.ctx.sym(std)
        targs = [self.subst_ty(self.S[a], fr) for a in c["a"]]
        return self.ctx.sym("%s<%s>" % (path, ",".join(targs)))

    def scalar_const(self, v):
        if v in ("true", "false"):
            return v == "true"
        if v.startswith(("f32:", "f64:")):
            t = v[4:]
            if t in ("inf", "-inf", "NaN"):
                return self.ctx.sym("float:" + t)
            # shortest round-trip decimal of the constant = the decimal the source wrote
            return self.ctx.num(Fraction(t))
        if v.startswith("char:"):
            return StrVal(chr(int(v[5:])))
        return self.ctx.num(int(v))

    def subst_ty(self, s, fr):
        if not fr.tsubst:
            return s
        return re.sub(r"\b[A-Za-z_][A-Za-z0-9_]*\b", lambda m: fr.tsubst.get(m.group(0), m.group(0)), s)

    def ev_tup(self, e, fr):
        return Tuple([self.ev(x, fr) for x in e["a"]])

    def ev_array(self, e, fr):
        if "lits" in e:
            return Array([self.ev_lit({"lit": l}, fr) for l in e["lits"]])
        return Array([self.ev(x, fr) for x in e["a"]])

    def ev_repeat(self, e, fr):
        raise Opaque("repeat expression")

    def ev_struct(self, e, fr):
        path = self.S[e["p"]] if isinstance(e["p"], int) else e["p"]
        if path == "Self":
            path = _adt_of_type(self.F.ty(e))
        fields = {}
        if "base" in e:
            base = self.ev(e["base"], fr)
            adt = self.F.adt_by_path.get(path)
            if adt is None:
                raise Opaque("struct base of unknown adt %s" % path)
            for f in adt["variants"][0]["f"]:
                fields[f["n"]] = self.proj(base, f["n"])
        for name, x in e["f"]:
            fields[name] = self.ev(x, fr)
        return Struct(path, fields)

    def ev_field(self, e, fr):
        v = self.ev(e["e"], fr)
        return self.proj(v, e["n"])

    def ev_index(self, e, fr):
        v = self.ev(e["a"][0], fr)
        i = self.ev(e["a"][1], fr)
        if isinstance(i, RatFunc) and i.is_const():
            return self.index(v, int(i.const_value()))
        vv = self.deref(v)
        if isinstance(vv, RatFunc) and _single_atom(vv) is not None:
            return self.uninterpreted("index", [vv, i])
        raise Opaque("symbolic index")

    def ev_ref(self, e, fr):
        if e.get("mut"):
            inner = e["e"]
            # `&mut *x` re-borrows x
            if inner.get("k") == "un" and inner.get("op") == "*":
                v = self.ev(inner["e"], fr)
                if isinstance(v, (MutRef, ElemRef)):
                    return v
            if self.is_place(inner):
                v = self.ev(inner, fr)
                if isinstance(v, (MutRef, ElemRef)):
                    return v
                return MutRef(inner, fr)
        return self.ev(e["e"], fr)

    def is_place(self, e):
        k = e.get("k")
        if k == "path":
            return e["res"]["k"] == "local"
        if k == "field":
            return self.is_place(e["e"])
        if k == "un" and e.get("op") == "*":
            return self.is_place(e["e"])
        if k == "index":
            return self.is_place(e["a"][0])
        return False

    def deref(self, v):
        while True:
            if isinstance(v, MutRef):
                v = self.ev(v.target, v.frame)
            elif isinstance(v, ElemRef):
                v = v.cur
            else:
                return v

    def ev_cast(self, e, fr):
        v = self.ev(e["e"], fr)
        t = self.F.ty(e)
        src = self.F.ty(e["e"])
        if t in ("f32", "f64"):
            return v
        if t in SCALAR_PRIMS and src in SCALAR_PRIMS and src not in ("f32", "f64"):
            # int -> int: widening is value preserving; narrowing is recorded
            if _int_bits(t) >= _int_bits(src) and _int_signed(t) == _int_signed(src):
                return v
            if isinstance(v, RatFunc) and v.is_const() and 0 <= v.const_value() < 2 ** min(_int_bits(t), 128) and v.const_value().denominator == 1:
                return v
        return self.ctx.sapp("cast:" + str(t), [v])

    def ev_ascribe(self, e, fr):
        return self.ev(e["e"], fr)

    def ev_un(self, e, fr):
        v = self.ev(e["e"], fr)
        op = e["op"]
        if op == "*":
            return self.deref(v)
        v = self.deref(v)
        c = e.get("c")
        if c is not None and ("ri" in c):
            return self.call_callee(c, [v], fr, e)
        if op == "-":
            return tree_map(_neg_leaf, v)
        if op == "!":
            if _is_boolish(v):
                return b_not(v)
            if self.F.ty(e) == "bool" and isinstance(v, RatFunc):
                return b_not(self.as_bool(v))  # `!` of an opaque bool is logical negation, not a bit pattern
            return self.ctx.sapp("bitnot", [v])
        raise Opaque("unary %s" % op)

    def ev_bin(self, e, fr):
        op = e["op"]
        if op == "&&":
            a = self.ev(e["a"][0], fr)
            # short-circuit: evaluate rhs under assumption (no side effects expected)
            b = self.ev(e["a"][1], fr)
            return b_and(a, b)
        if op == "||":
            a = self.ev(e["a"][0], fr)
            b = self.ev(e["a"][1], fr)
            return b_or(a, b)
        a = self.ev(e["a"][0], fr)
        b = self.ev(e["a"][1], fr)
        c = e.get("c")
        if c is not None and ("ri" in c or isinstance(self.deref(a), Struct) or isinstance(self.deref(b), Struct)):
            return self.call_callee(c, [a, b], fr, e)
        return self.binop(op, a, b, e)

    def binop(self, op, a, b, e=None):
        ctx = self.ctx
        a = self.deref(a)
        b = self.deref(b)
        if op in ("+", "-", "*", "/"):
            def f(x, y):
                if isinstance(x, FloatSpecial) or isinstance(y, FloatSpecial):
                    r = special_arith(op, x, y)
                    if r is None:
                        if op == "/" and isinstance(y, FloatSpecial) and isinstance(x, RatFunc):
                            return ctx.num(0)
                        raise Opaque("extended-real %s with unknown sign: %r %s %r" % (op, x, op, y))
                    return r
                if not (isinstance(x, RatFunc) and isinstance(y, RatFunc)):
                    raise Opaque("arith on %r %s %r" % (x, op, y))
                if op == "+":
                    return x + y
                if op == "-":
                    return x - y
                if op == "*":
                    return x * y
                if y.is_zero():
                    return ctx.sym("⊥div0")
                return x / y
            return map2(f, a, b)
        if op in ("<", "<=", ">", ">=", "==", "!="):
            return ctx.cmp(op, a, b)
        if op in ("&", "|", "^"):
            if _is_boolish(a) and _is_boolish(b):
                if op == "&":
                    return b_and(a, b)
                if op == "|":
                    return b_or(a, b)
                return b_or(b_and(a, b_not(b)), b_and(b_not(a), b))
            k = _const_ints(a, b)
            if k is not None and min(k) >= 0:
                return ctx.num({"&": k[0] & k[1], "|": k[0] | k[1], "^": k[0] ^ k[1]}[op])
            return ctx.sapp({"&": "bitand", "|": "bitor", "^": "bitxor"}[op], [a, b])
        if op in ("<<", ">>", "%"):
            k = _const_ints(a, b)
            if k is not None and min(k) >= 0 and op == ">>":
                return ctx.num(k[0] >> k[1])
            if k is not None and min(k) >= 0 and op == "%" and k[1] != 0:
                return ctx.num(k[0] % k[1])
            return ctx.sapp({"<<": "shl", ">>": "shr", "%": "rem"}[op], [a, b])
        raise Opaque("binop %s" % op)

    def ev_if(self, e, fr):
        cond_e = e["c"]
        # `if let` is represented as a letexpr condition
        if cond_e["k"] == "letexpr":
            return self.if_let(e, fr)
        c = self.ev(cond_e, fr)
        if c is True:
            return self.ev(e["th"], fr)
        if c is False:
            return self.ev(e["el"], fr) if "el" in e else UNIT
        if not _is_boolish(c):
            c = self.as_bool(self.deref(c))
        return self.branch(c, lambda f2: self.ev(e["th"], f2), (lambda f2: self.ev(e["el"], f2)) if "el" in e else (lambda f2: UNIT), fr)

    def branch(self, c, then_f, else_f, fr):
        env0 = fr.env
        pc0 = fr.pc
        # then
        fr.env = dict(env0)
        fr.pc = b_and(pc0, c)
        fr.dead = False
        tv = then_f(fr)
        tenv, tdead = fr.env, fr.dead
        # else
        fr.env = dict(env0)
        fr.pc = b_and(pc0, b_not(c))
        fr.dead = False
        ev_ = else_f(fr)
        eenv, edead = fr.env, fr.dead
        fr.pc = pc0
        # merge
        if tdead and edead:
            fr.dead = True
            fr.env = env0
            return BOTTOM
        fr.dead = False
        if tdead:
            fr.env = eenv
            fr.pc = b_and(pc0, b_not(c))
            return ev_
        if edead:
            fr.env = tenv
            fr.pc = b_and(pc0, c)
            return tv
        env = {}
        for h in env0:
            a = tenv.get(h, env0[h])
            b = eenv.get(h, env0[h])
            if a[1] is b[1]:
                env[h] = a
            else:
                env[h] = (a[0], mk_ite(c, a[1], b[1]))
        fr.env = env
        return mk_ite(c, tv, ev_)

    def if_let(self, e, fr):
        raise Opaque("if let")

    def ev_match(self, e, fr):
        src = e.get("src", "")
        if src.startswith("ForLoopDesugar"):
            self._loops = getattr(self, "_loops", [])
            self._loops.append((None, None))  # `break`/`continue` inside a `for` never reach an enclosing concrete loop
            try:
                return self.for_loop(e, fr)
            finally:
                self._loops.pop()
        scrut = self.ev(e["e"], fr)
        arms = e["arms"]
        return self.match_arms(scrut, arms, 0, fr)

    def match_arms(self, scrut, arms, i, fr):
        if i >= len(arms):
            return BOTTOM
        arm = arms[i]
        if arm.get("g") is not None:
            raise Opaque("match guard")
        cond, binder = self.pat_test(arm["pat"], scrut, fr)
        if cond is True:
            binder(fr.env)
            return self.ev(arm["b"], fr)
        if cond is False:
            return self.match_arms(scrut, arms, i + 1, fr)

        def then_f(f2):
            binder(f2.env)
            return self.ev(arm["b"], f2)
        return self.branch(cond, then_f, lambda f2: self.match_arms(scrut, arms, i + 1, f2), fr)

    def pat_test(self, p, v, fr):
        """Return (condition, binder(env))."""
        k = p["k"]
        if k == "wild":
            return True, (lambda env: None)
        if k == "bind" and not p.get("sub"):
            return True, (lambda env: self.bind(p, v, env))
        if k in ("ref", "deref"):
            return self.pat_test(p["p"], v, fr)
        if k == "lit":
            lv = self.ev_lit({"lit": p["lit"]}, fr)
            return self.ctx.cmp("==", v, lv), (lambda env: None)
        if k == "tuple" and p.get("dd") is None:
            conds = True
            binders = []
            for i, sp in enumerate(p["a"]):
                c, b = self.pat_test(sp, self.proj(v, str(i)), fr)
                conds = b_and(conds, c)
                binders.append(b)
            return conds, (lambda env: [b(env) for b in binders])
        if k == "struct":
            pp = self.S[p["p"]] if isinstance(p["p"], int) else p["p"]
            v = self.deref(v)
            if isinstance(v, Ite):
                # test each alternative separately
                ct, bt = self.pat_test(p, v.t, fr)
                cf, bf = self.pat_test(p, v.f, fr)
                cond = mk_ite_c(v.c, ct, cf) if not (ct is True and cf is True) else True
                sel = v

                def binder(env, p=p, sel=sel):
                    # bind through projections of the merged value (fields of the matching variant)
                    for fname, sp in p["f"]:
                        self.bind(sp, self._variant_proj(sel, fname, pp), env)
                return cond, binder
            if isinstance(v, Struct) and pp != "Self" and v.path.split("::")[-1] != pp.split("::")[-1] and (
                    pp.split("::")[-1] in _VARIANT_NAMES or v.path.split("::")[-1] in _VARIANT_NAMES):
                return False, (lambda env: None)
            if isinstance(v, (Struct, RatFunc)):
                conds = True
                binders = []
                for fname, sp in p["f"]:
                    c, b = self.pat_test(sp, self.proj(v, fname), fr)
                    conds = b_and(conds, c)
                    binders.append(b)
                return conds, (lambda env: [b(env) for b in binders])
        if k in ("path", "tstruct"):
            # enum variant tests
            if k == "path":
                r = p["res"]
                vpath = self.S[r["d"]] if "d" in r else None
                sub = []
            else:
                vpath = self.S[p["p"]] if isinstance(p["p"], int) else p["p"]
                sub = p["a"]
            if vpath is None:
                raise Opaque("pattern path")
            if isinstance(v, Struct):
                if v.path == vpath or v.path.endswith("::" + vpath.split("::")[-1]) and vpath.rsplit("::", 1)[0] == v.path.rsplit("::", 1)[0]:
                    conds = True
                    binders = []
                    for i, sp in enumerate(sub):
                        c, b = self.pat_test(sp, self.proj(v, str(i)), fr)
                        conds = b_and(conds, c)
                        binders.append(b)
                    return conds, (lambda env: [b(env) for b in binders])
                return False, (lambda env: None)
            if isinstance(v, RatFunc):
                # opaque enum value: variant test predicate, payload projections
                cond = self.ctx.pred("is:" + vpath.split("::")[-1], [v])
                binders = []
                for i, sp in enumerate(sub):
                    pv = self.ctx.app("payload:%s.%d" % (vpath.split("::")[-1], i), [v])
                    c, b = self.pat_test(sp, pv, fr)
                    if c is not True:
                        raise Opaque("nested refutable pattern")
                    binders.append(b)
                return cond, (lambda env: [b(env) for b in binders])
        if k == "or":
            conds = False
            for sp in p["a"]:
                c, b = self.pat_test(sp, v, fr)
                conds = b_or(conds, c)
            return conds, (lambda env: None)
        raise Opaque("pattern test %s on %r" % (k, v))

    def _variant_proj(self, v, fname, pp):
        if isinstance(v, Ite):
            return mk_ite_c(v.c, self._variant_proj(v.t, fname, pp), self._variant_proj(v.f, fname, pp))
        if isinstance(v, Struct) and v.path.split("::")[-1] == pp.split("::")[-1] and fname in v.fields:
            return v.fields[fname]
        return BOTTOM

    def for_loop(self, e, fr):
        # match IntoIterator::into_iter(<iter>) { mut iter => loop { match next(&mut iter) { None => break, Some(pat) => body } } }
        try:
            it_expr = e["e"]["a"][0]
            loop = e["arms"][0]["b"]
            inner = loop["b"]["s"][0]["e"] if loop["b"]["s"] else loop["b"]["e"]
            some_arm = [a for a in inner["arms"] if a["pat"]["k"] == "struct" and a["pat"].get("f")][0]
            pat = some_arm["pat"]["f"][0][1]
            body = some_arm["b"]
        except (KeyError, IndexError, TypeError):
            raise Opaque("unrecognised for-loop desugaring")
        it = self.ev(it_expr, fr)
        if isinstance(it, Struct) and it.path.endswith("ops::Range") and all(isinstance(it.fields.get(k), RatFunc) and it.fields[k].is_const() for k in ("start", "end")):
            lo, hi = int(it.fields["start"].const_value()), int(it.fields["end"].const_value())
            if hi - lo > 64:
                raise Opaque("range loop too long")
            it = Array([self.ctx.num(i) for i in range(lo, hi)])
        if isinstance(it, MutRef) and isinstance(self.deref(it), Array):
            # `for x in &mut array`: unroll with write-through per element
            items = list(self.deref(it).items)
            for i, x in enumerate(items):
                r = ElemRef(None, None, x)
                self.bind(pat, r, fr.env)
                self.ev(body, fr)
                if r.written:
                    items[i] = r.cur
            self.assign(it.target, Array(items), it.frame)
            return UNIT
        if isinstance(it, Array):
            # constant-size array: unroll
            for x in it.items:
                env_before = fr.env
                self.bind(pat, x, fr.env)
                self.ev(body, fr)
            return UNIT
        if not isinstance(it, IterV):
            ity = self.F.ty(it_expr) or ""
            base = self.deref(it)
            if isinstance(base, RatFunc) and _single_atom(base) is not None and ("[" in ity):
                # `for x in slice`: the generic element; `&mut [T]` yields write-through references
                if ity.startswith("&mut") and (isinstance(it, MutRef) or self.is_place(it_expr)):
                    tgt = it.target if isinstance(it, MutRef) else it_expr
                    tfr = it.frame if isinstance(it, MutRef) else fr
                    while tgt.get("k") == "ref":
                        tgt = tgt["e"]
                    it = IterV(ElemRef(tgt, tfr, self.elem_of(base)))
                else:
                    it = IterV(self.elem_of(base))
        if not isinstance(it, IterV):
            raise Opaque("for loop over %r" % (it,))
        refs = []
        _collect_refs(it.elem, refs)
        self.bind(pat, it.elem, fr.env)
        self.ev(body, fr)
        for r in refs:
            if r.written:
                self.assign(r.target, elementwise(r.cur), r.frame)
        return UNIT

    def ev_loop(self, e, fr):
        """`loop`/`while` whose control flow is concrete on every iteration (e.g. square-and-multiply on a constant exponent)."""
        pc0 = fr.pc
        self._loops = getattr(self, "_loops", [])
        self._loops.append((fr, pc0))
        try:
            for _ in range(256):
                try:
                    self.ev(e["b"], fr)
                except _Continue:
                    continue
                except _Break as br:
                    return br.value
                if fr.dead:
                    return BOTTOM
            raise Opaque("loop bound exceeded")
        finally:
            self._loops.pop()

    def ev_closure(self, e, fr):
        return Closure(e["params"], e["b"], fr)

    def ev_ret(self, e, fr):
        v = self.ev(e["e"], fr) if "e" in e else UNIT
        fr.returns.append((fr.pc, v))
        fr.dead = True
        return BOTTOM

    def ev_assign(self, e, fr):
        v = self.ev(e["a"][1], fr)
        self.assign(e["a"][0], v, fr)
        return UNIT

    def ev_assignop(self, e, fr):
        cur = self.ev(e["a"][0], fr)
        rhs = self.ev(e["a"][1], fr)
        c = e.get("c")
        if c is not None and "ri" in c:
            # user-defined op-assign: inline with by-name write back of `self`
            b = self.F.body_by_id.get(c["ri"])
            res, fr2 = self.inline(b, c, [cur, rhs], fr)
            newself = self.final_param(fr2, 0)
            self.assign(e["a"][0], newself, fr)
            return UNIT
        op = e["op"].rstrip("=")
        self.assign(e["a"][0], self.binop(op, cur, rhs), fr)
        return UNIT

    def final_param(self, fr2, idx):
        p = fr2.body["params"][idx]
        while p["k"] in ("ref", "deref"):
            p = p["p"]
        if p["k"] != "bind":
            raise Opaque("by-name param writeback")
        return fr2.env[p["h"]][1]

    def assign(self, lhs, v, fr):
        k = lhs["k"]
        if k == "path" and lhs["res"]["k"] == "local":
            h = lhs["res"]["h"]
            cur = fr.env.get(h)
            if cur is not None and isinstance(cur[1], MutRef) and not isinstance(v, MutRef):
                return self.assign(cur[1].target, v, cur[1].frame)
            if cur is not None and isinstance(cur[1], ElemRef) and not isinstance(v, ElemRef):
                cur[1].cur = v
                cur[1].written = True
                return
            fr.env[h] = (lhs["res"]["n"], v)
            return
        if k == "un" and lhs["op"] == "*":
            return self.assign(lhs["e"], v, fr)
        if k == "field":
            base = self.ev(lhs["e"], fr)
            nb = self.with_field(base, lhs["n"], v, lhs["e"])
            return self.assign(lhs["e"], nb, fr)
        if k == "index":
            base = self.ev(lhs["a"][0], fr)
            i = self.ev(lhs["a"][1], fr)
            if isinstance(base, Array) and isinstance(i, RatFunc) and i.is_const():
                items = list(base.items)
                items[int(i.const_value())] = v
                return self.assign(lhs["a"][0], Array(items), fr)
        if k == "ref":
            return self.assign(lhs["e"], v, fr)
        raise Opaque("assignment target %s" % k)

    def with_field(self, base, name, v, base_expr):
        if isinstance(base, Ite):
            return mk_ite_c(base.c, self.with_field(base.t, name, v, base_expr), self.with_field(base.f, name, v, base_expr))
        if isinstance(base, Struct):
            f = dict(base.fields)
            f[name] = v
            return Struct(base.path, f)
        if isinstance(base, Tuple):
            items = list(base.items)
            items[int(name)] = v
            return Tuple(items)
        if isinstance(base, RatFunc):
            # opaque struct value: materialise its fields from the ADT definition
            t = self.F.ty(base_expr) or ""
            adtp = _adt_of_type(t.lstrip("&").replace("mut ", "").strip())
            adt = self.F.adt_by_path.get(adtp)
            if adt is not None and len(adt["variants"]) == 1:
                f = {fd["n"]: self.proj(base, fd["n"]) for fd in adt["variants"][0]["f"]}
                f[name] = v
                return Struct(adtp, f)
        raise Opaque("field update on %r" % (base,))

    def _concrete_loop(self, fr):
        lp = getattr(self, "_loops", [])
        return bool(lp) and lp[-1][0] is fr and lp[-1][1] is fr.pc and not fr.dead

    def ev_break(self, e, fr):
        if self._concrete_loop(fr):
            raise _Break(self.ev(e["e"], fr) if "e" in e else UNIT)
        raise Opaque("break under a symbolic condition")

    def ev_continue(self, e, fr):
        if self._concrete_loop(fr):
            raise _Continue()
        raise Opaque("continue under a symbolic condition")

    def ev_letexpr(self, e, fr):
        raise Opaque("let expression")

    def ev_constblock(self, e, fr):
        return self.ev(e["e"], fr)

    # ---- calls -------------------------------------------------------------------
    def ev_call(self, e, fr):
        if self.F.ty(e) == "!":
            # panic / unreachable / assert_failed: this path diverges
            fr.dead = True
            fr.panic_pcs.append(fr.pc)
            return BOTTOM
        if "ctor" in e:
            path = self.S[e["ctor"]] if isinstance(e["ctor"], int) else e["ctor"]
            if path == "Self":
                path = _adt_of_type(self.F.ty(e))
            args = [self.ev(x, fr) for x in e["a"]]
            return Struct(path, {str(i): a for i, a in enumerate(args)})
        if "c" in e:
            args = [self.ev(x, fr) for x in e["a"]]
            return self.call_callee(e["c"], args, fr, e)
        f = self.ev(e["f"], fr)
        args = [self.ev(x, fr) for x in e["a"]]
        return self.apply(f, args, fr, e)

    def apply(self, f, args, fr, e=None):
        if isinstance(f, Closure):
            env = dict(f.env.env)
            fr2 = Frame(f.env.body, env, f.env.tsubst, f.env.depth)
            fr2.pc = fr.pc
            if len(args) != len(f.params):
                raise Opaque("closure arity")
            for p, a in zip(f.params, args):
                self.bind(p, a, fr2.env)
            v = self.ev(f.body, fr2)
            if fr2.returns:
                v = self.finish(fr2, v)
            return v
        if isinstance(f, tuple) and f and f[0] == "fnref":
            self._fnref_apply = True
            try:
                return self.call_callee(f[1], args, fr, e)
            finally:
                self._fnref_apply = False
        if isinstance(f, RatFunc) and _single_atom(f) is not None:
            return self.uninterpreted("call:" + _single_atom(f).name, args)
        raise Opaque("call of %r" % (f,))

    def ev_mcall(self, e, fr):
        recv = self.ev(e["r"], fr)
        if e["r"].get("adj", "").endswith("m") and self.is_place(e["r"]) and not isinstance(recv, (MutRef, ElemRef)):
            recv = MutRef(e["r"], fr)
        args = [recv] + [self.ev(x, fr) for x in e["a"]]
        c = e.get("c")
        if c is None:
            raise Opaque("unresolved method %s" % e["n"])
        return self.call_callee(c, args, fr, e)

    def call_callee(self, c, args, fr, e=None):
        S = self.S
        spath = S[c["d"]]
        rpath = S[c["r"]] if "r" in c else spath
        name = c["n"]
        # 1. operator table (by static and resolved path); a std operator trait that
        #    resolves to a palette impl (e.g. `Xyz / Xyz`) is inlined instead
        local_std = "ri" in c and spath.startswith(("std::", "core::"))
        raw_args = args
        keep_refs = _OPKEY.get(spath) in _REF_OPS or _OPKEY.get(rpath) in _REF_OPS
        if not keep_refs:
            args = [self.deref(a) if isinstance(a, (MutRef, ElemRef)) else a for a in args]
        if not local_std and spath.startswith(("std::ops::", "core::ops::")) and args and isinstance(self.deref(args[0]), Struct):
            b2 = self.struct_op_impl(c, [self.deref(a) for a in args])
            if b2 is not None and fr.depth < self.ctx.max_depth:
                res, fr2 = self.inline(b2, c, raw_args, fr, generic_from_self=True)
                return res
        if not local_std:
            for p in (spath, rpath):
                r = self.operator(p, name, args, fr, c, e)
                if r is not NotImplemented:
                    return r
        # 2a. hook: rule-supplied semantics for an external function (spath/rpath, args) -> value | NotImplemented
        ch = getattr(self.ctx, "call_hook", None)
        if ch is not None:
            r = ch(spath, rpath, args, c, self, fr)
            if r is not NotImplemented:
                return r
        # 2. hook: force uninterpreted
        fu = self.ctx.force_uninterp
        if fu is not None:
            nm = fu(rpath, c, self, fr)
            if nm is not None:
                return self.uninterpreted(nm, args)
        # 3. inline local bodies
        bid = c.get("ri", c.get("i"))
        b = self.F.body_by_id.get(bid) if bid is not None else None
        if b is not None and ("tr" not in c or "ri" in c or self._trait_default(c, b)):
            if rpath in self.ctx.no_inline:
                return self.uninterpreted(self.app_name(rpath, c, fr), args)
            if fr.depth >= self.ctx.max_depth:
                raise Opaque("inline depth exceeded at %s" % rpath)
            res, fr2 = self.inline(b, c, raw_args, fr)
            return res
        # 3b. trait method on a concrete ADT that rustc left to a where-clause: if exactly one
        #     impl of the trait exists for that ADT, it is the one (no overlap in stable Rust)
        if "tr" in c and "ri" not in c and c["a"]:
            b2 = self.unique_impl_method(c, fr)
            if b2 is not None and b2["path"] not in self.ctx.no_inline and fr.depth < self.ctx.max_depth:
                res, fr2 = self.inline(b2, c, raw_args, fr, generic_from_self=True)
                return res
        # 4. uninterpreted; places passed by `&mut` receive an uninterpreted update
        nm = self.app_name(rpath, c, fr)
        res = self.uninterpreted(nm, args)
        if not isinstance(nm, tuple) and name not in _PURE_MUT_METHODS:
            for i, a in enumerate(raw_args):
                if isinstance(a, MutRef):
                    self.assign(a.target, self.uninterpreted("mut%d:%s" % (i, nm), args), a.frame)
                elif isinstance(a, ElemRef) and (i > 0 or getattr(self, "_fnref_apply", False) or (e is not None and e.get("k") == "mcall" and self._recv_is_mut(c, e))):
                    a.cur = self.uninterpreted("mut%d:%s" % (i, nm), args)
                    a.written = True
        return res

    def _recv_is_mut(self, c, e):
        # receiver type of the callee: `&mut Self` methods mutate the element
        b = self.F.body_by_id.get(c.get("i")) if c.get("i") is not None else None
        r = e.get("r", {})
        t = self.F.ty(r) or ""
        return t.startswith("&mut") or r.get("adj", "").endswith("m")

    def struct_op_impl(self, c, args):
        """std::ops trait applied to a palette struct through a where-clause: pick the impl by
        the shape of the right-hand side (same ADT vs scalar)."""
        lhs = args[0]
        tr = self.S[c["tr"]] if "tr" in c else None
        if tr is None or lhs.path not in self.F.adt_by_path:
            return None
        ims = [im for im in self.F.impls if im.get("trait") == tr and im.get("self_adt") == lhs.path]
        if len(args) > 1:
            rhs = args[1]
            if isinstance(rhs, Struct):
                ims = [im for im in ims if im["trait_args_s"] and _adt_of_type(im["trait_args_s"][0]) == rhs.path]
            else:
                ims = [im for im in ims if im["trait_args_s"] and re.match(r"^[A-Z][A-Za-z0-9_]*$", im["trait_args_s"][0])]
        if len(ims) != 1:
            return None
        return self.F.impl_method(ims[0], c["n"])

    def unique_impl_method(self, c, fr):
        key = (c["tr"], tuple(self.subst_ty(self.S[a], fr) for a in c["a"]), c["n"])
        cache = self.ctx.const_cache
        if ("uim", key) in cache:
            return cache[("uim", key)]
        res = None
        self_ty = self.subst_ty(self.S[c["a"][0]], fr)
        adt = _adt_of_type(self_ty)
        tr = self.S[c["tr"]]
        name = c["n"]
        targs = [self.subst_ty(self.S[a], fr) for a in c["a"][1:]]
        # blanket `impl IntoColorUnclamped<U> for T where U: FromColorUnclamped<T>` (checked as CONV-BLANKET by C01)
        if tr.endswith("IntoColorUnclamped") and name == "into_color_unclamped" and targs:
            tr, name = tr.replace("IntoColorUnclamped", "FromColorUnclamped"), "from_color_unclamped"
            self_ty, targs = targs[0], [self_ty]
            adt = _adt_of_type(self_ty)
        if adt in self.F.adt_by_path:
            ims = [im for im in self.F.impls if im.get("trait") == tr and im.get("self_adt") == adt and not im.get("derived")]
            if targs and any(im["trait_args_s"] for im in ims):
                # the trait's own type arguments must name the same ADT as the impl's (never guess)
                want = _adt_of_type(targs[0])
                if want in self.F.adt_by_path:
                    ims = [im for im in ims if im["trait_args_s"] and _adt_of_type(im["trait_args_s"][0]) == want]
                else:
                    ims = []
            if len(ims) == 1:
                res = self.F.impl_method(ims[0], name)
        cache[("uim", key)] = res
        return res

    def _trait_default(self, c, b):
        # a trait method with a default body, left unresolved by rustc: it is the body that runs
        # unless an impl overrides the method; inline only when no impl in the crate does
        key = ("trait_default", c["tr"], c["n"])
        cache = self.ctx.const_cache
        if key not in cache:
            tr = self.S[c["tr"]]
            over = any(im.get("trait") == tr and any(it["n"] == c["n"] and it["kind"] == "Fn" for it in im["items"]) for im in self.F.impls)
            cache[key] = not over
        return cache[key]

    def app_name(self, path, c, fr):
        targs = [self.subst_ty(self.S[a], fr) for a in c.get("ra", c["a"])]
        if self.ctx.app_canon is not None:
            r = self.ctx.app_canon(path, targs)
            if r is not None:
                return r
        return "%s<%s>" % (path, ",".join(targs))

    def uninterpreted(self, name, args):
        if isinstance(name, tuple) and name[0] == "num":
            return self.ctx.num(name[1])
        self.uninterp[name] = self.uninterp.get(name, 0) + 1
        flat = []
        for a in args:
            flat.append(self.scalarize(a))
        return mapn(lambda *xs: self.ctx.app(name, list(xs)), flat)

    def scalarize(self, a):
        """Turn a structured argument into something an app atom can hold."""
        a = self.deref(a)
        if isinstance(a, (RatFunc, Ite, bool)):
            if isinstance(a, bool):
                return self.ctx.num(1 if a else 0)
            return a
        if isinstance(a, Struct):
            items = [self.scalarize(a.fields[k]) for k in sorted(a.fields)]
            return mapn(lambda *xs: self.ctx.app("mk:" + a.path.split("::")[-1] + "{" + ",".join(sorted(a.fields)) + "}", list(xs)), items) if items else self.ctx.sym("unit:" + a.path)
        if isinstance(a, (Tuple, Array)):
            items = [self.scalarize(x) for x in a.items]
            if not items:
                return self.ctx.sym("()")
            return mapn(lambda *xs: self.ctx.app("tuple%d" % len(xs), list(xs)), items)
        if isinstance(a, StrVal):
            return self.ctx.sym("str:" + a.s)
        if isinstance(a, FloatSpecial):
            return a
        if isinstance(a, Closure):
            return self.ctx.sym("closure")
        if isinstance(a, Bottom):
            return a
        if isinstance(a, tuple) and a and a[0] == "fnref":
            return self.ctx.sym("fn:" + self.S[a[1]["d"]])
        raise Opaque("cannot scalarize %r" % (a,))

    def inline(self, b, c, args, fr, generic_from_self=False):
        # generic substitution: callee generic names -> caller type args (strings)
        tsub = {}
        gens = b.get("generics")
        ra = c.get("ra", c["a"])
        if generic_from_self:
            # impl generics are recovered by matching the impl's self type against the call's
            im = b.get("_impl")
            if im is not None:
                from .alg import split_type
                _, pat = split_type(im["self_s"])
                cand = [self.subst_ty(self.S[a], fr) for a in c["a"]]
                act_ty = next((t for t in cand if _adt_of_type(t) == im.get("self_adt")), cand[0])
                _, act = split_type(act_ty)
                if len(pat) == len(act):
                    for g, a in zip(pat, act):
                        if re.match(r"^[A-Za-z_][A-Za-z0-9_]*$", g):
                            tsub[g] = a
        elif gens and len(gens) == len(ra):
            for g, a in zip(gens, ra):
                tsub[g] = self.subst_ty(self.S[a], fr)
        self.trace_calls.append((fr.body["path"], b["path"]))
        env = {}
        params = b.get("params", [])
        if len(params) != len(args):
            raise Opaque("arity mismatch inlining %s" % b["path"])
        for p, a in zip(params, args):
            self.bind(p, a, env)
        fr2 = Frame(b, env, tsub, fr.depth + 1)
        v = self.ev(b["body"], fr2)
        return self.finish(fr2, v), fr2

    # ---- operator table -------------------------------------------------------------
    def operator(self, path, name, args, fr, c, e):
        ctx = self.ctx
        p = _strip_crate(path)
        tr = p.rsplit("::", 1)[0] if "::" in p else ""
        key = _OPKEY.get(p)
        if key is None:
            # std float inherent methods: core::f32::<impl f32>::sqrt
            m = re.match(r"^(?:core|std)::(f32|f64)::<impl (f32|f64)>::(\w+)$", path)
            if m:
                key = "float." + m.group(3)
            else:
                m = re.match(r"^(?:core|std)::num::<impl (u8|u16|u32|u64|u128|usize|i8|i16|i32|i64|i128)>::(\w+)$", path)
                if m:
                    key = "int." + m.group(2)
        if key is None and re.match(r"^(?:core|std)::convert::num::<impl (?:core|std)::convert::From<\w+> for \w+>::from$", path):
            key = "id."  # lossless numeric widening
        if key is None:
            m = re.match(r"^wide::(?:\w+::)*(f32x4|f32x8|f64x2|f64x4)::(\w+)$", path) \
                or re.match(r"^wide::<impl wide::(f32x4|f32x8|f64x2|f64x4)>::(\w+)$", path) \
                or re.match(r"^<wide::(f32x4|f32x8|f64x2|f64x4) as wide::\w+>::(\w+)$", path)
            if m:
                key = _WIDE_METHODS.get(m.group(2), "float." + m.group(2))
        if key is None:
            return NotImplemented
        h = getattr(self, "op_" + key.replace(".", "_"), None)
        if h is not None:
            return h(args, fr, c, e)
        kind, _, opn = key.partition(".")
        if kind in ("fn1", "float", "int"):
            nm = _FLOAT_METHODS.get(opn, opn) if kind == "float" else opn
            if kind == "float" and opn in ("powi",):
                return self.op_powi(args, fr, c, e)
            if kind == "float" and opn in ("min", "max"):
                return ctx.sapp(opn, args)
            if kind == "float" and opn == "mul_add":
                return self.op_mul_add(args, fr, c, e)
            if kind == "float" and opn == "recip":
                return self.binop("/", ctx.num(1), args[0])
            if kind == "float" and opn == "is_nan":
                return tree_map(lambda x: (x.kind == "NaN") if isinstance(x, FloatSpecial) else False, args[0])
            if kind == "float" and opn == "copysign":
                # copysign(a, b) = |a| * signum(b)   (signum(+-0) = +-1, as f32::signum)
                return self.binop("*", ctx.sapp("abs", [args[0]]), ctx.sapp("signum", [args[1]]))
            if kind == "float" and opn == "is_normal":
                t = "f64" if "f64" in path else "f32"
                ax = ctx.sapp("abs", [args[0]])
                return b_and(ctx.cmp(">=", ax, ctx.sym(t + "::MIN_POSITIVE")), ctx.cmp("<=", ax, ctx.sym(t + "::MAX")))
            if kind == "float" and opn == "clamp":
                return self.op_clamp(args, fr, c, e)
            if kind == "float" and opn == "hypot":
                return self.op_hypot(args, fr, c, e)
            if kind == "float" and opn == "powf":
                return ctx.sapp("powf", args)
            if kind == "float" and opn == "atan2":
                return ctx.sapp("atan2", args)
            if kind == "float" and opn == "sin_cos":
                return Tuple([ctx.sapp("sin", args), ctx.sapp("cos", args)])
            if kind == "int":
                if opn == "wrapping_neg" and isinstance(args[0], RatFunc) and args[0].is_const() and path.split("impl ")[-1].startswith("i"):
                    return -args[0]
                return ctx.sapp("int." + opn, args)
            return ctx.sapp(nm, args)
        if kind == "bin":
            return self.binop(opn, args[0], args[1])
        if kind == "cmp":
            return ctx.cmp(opn, args[0], args[1])
        if kind == "id":
            return args[0]
        if kind == "const":
            return ctx.num(Fraction(opn))
        raise Opaque("operator key %s" % key)

    def op_lane_all(self, args, fr, c, e):
        return self.as_bool(self.deref(args[0]))

    def op_lane_none(self, args, fr, c, e):
        return b_not(self.as_bool(self.deref(args[0])))

    def op_powi(self, args, fr, c, e):
        n = args[1]
        if isinstance(n, RatFunc) and n.is_const():
            k = int(n.const_value())
            return tree_map(lambda x: x ** k if isinstance(x, RatFunc) else _bad(x, "powi"), args[0])
        raise Opaque("powi with symbolic exponent")

    def op_mul_add(self, args, fr, c, e):
        return self.binop("+", self.binop("*", args[0], args[1]), args[2])

    def op_mul_sub(self, args, fr, c, e):
        return self.binop("-", self.binop("*", args[0], args[1]), args[2])

    def op_recip(self, args, fr, c, e):
        return self.binop("/", self.ctx.num(1), args[0])

    def op_hypot(self, args, fr, c, e):
        s = self.binop("+", self.binop("*", args[0], args[0]), self.binop("*", args[1], args[1]))
        return self.ctx.sapp("sqrt", [s])

    def op_clamp(self, args, fr, c, e):
        # clamp(x, lo, hi) = min(max(x, lo), hi); f32::clamp propagates NaN
        if isinstance(args[0], FloatSpecial) and args[0].kind == "NaN":
            return NAN
        return self.ctx.sapp("min", [self.ctx.sapp("max", [args[0], args[1]]), args[2]])

    def write_through(self, ref, v, fr, e):
        if isinstance(ref, MutRef):
            return self.assign(ref.target, v, ref.frame)
        if isinstance(ref, ElemRef):
            ref.cur = v
            ref.written = True
            return
        # `&mut self.x` written inline as the first argument expression
        if e is not None:
            tgt = e["r"] if e.get("k") == "mcall" else (e["a"][0] if e.get("a") else None)
            while tgt is not None and tgt.get("k") == "ref":
                tgt = tgt["e"]
            if tgt is not None and self.is_place(tgt):
                return self.assign(tgt, v, fr)
        raise Opaque("cannot write through %r" % (ref,))

    def op_clamp_assign(self, args, fr, c, e):
        cur = self.deref(args[0])
        self.write_through(args[0], self.op_clamp([cur, self.deref(args[1]), self.deref(args[2])], fr, c, e), fr, e)
        return UNIT

    def op_clamp_min_assign(self, args, fr, c, e):
        cur = self.deref(args[0])
        self.write_through(args[0], self.ctx.sapp("max", [cur, self.deref(args[1])]), fr, e)
        return UNIT

    def op_clamp_max_assign(self, args, fr, c, e):
        cur = self.deref(args[0])
        self.write_through(args[0], self.ctx.sapp("min", [cur, self.deref(args[1])]), fr, e)
        return UNIT

    def _op_assign(self, op, args, fr, c, e):
        cur = self.deref(args[0])
        rhs = self.deref(args[1])
        if isinstance(cur, Struct) and cur.path in self.F.adt_by_path:
            return NotImplemented
        self.write_through(args[0], self.binop(op, cur, rhs), fr, e)
        return UNIT

    def op_add_assign(self, args, fr, c, e):
        return self._op_assign("+", args, fr, c, e)

    def op_sub_assign(self, args, fr, c, e):
        return self._op_assign("-", args, fr, c, e)

    def op_mul_assign(self, args, fr, c, e):
        return self._op_assign("*", args, fr, c, e)

    def op_div_assign(self, args, fr, c, e):
        return self._op_assign("/", args, fr, c, e)

    def op_slice_iter_mut(self, args, fr, c, e):
        a0 = args[0]
        base = self.deref(a0)
        if isinstance(a0, MutRef):
            return IterV(ElemRef(a0.target, a0.frame, self.elem_of(base)))
        tgt = e["r"] if e is not None and e.get("k") == "mcall" else None
        while tgt is not None and tgt.get("k") == "ref":
            tgt = tgt["e"]
        if tgt is not None and self.is_place(tgt):
            return IterV(ElemRef(tgt, fr, self.elem_of(base)))
        raise Opaque("iter_mut of non-place")

    def op_slice_len(self, args, fr, c, e):
        a = self.deref(args[0])
        if isinstance(a, (Array, Tuple)):
            return self.ctx.num(len(a.items))
        return self.uninterpreted(self.app_name(self.S[c["d"]], c, fr), [a])

    def op_slice_iter(self, args, fr, c, e):
        return IterV(self.elem_of(self.deref(args[0])))

    def op_iter_for_each(self, args, fr, c, e):
        it, f = args
        if not isinstance(it, IterV):
            raise Opaque("for_each over %r" % (it,))
        refs = []
        _collect_refs(it.elem, refs)
        self.apply(f, [it.elem], fr, e)
        for r in refs:
            if r.written:
                self.assign(r.target, elementwise(r.cur), r.frame)
        return UNIT

    def op_clamp_min(self, args, fr, c, e):
        return self.ctx.sapp("max", [args[0], args[1]])

    def op_clamp_max(self, args, fr, c, e):
        return self.ctx.sapp("min", [args[0], args[1]])

    def op_min_max(self, args, fr, c, e):
        return Tuple([self.ctx.sapp("min", args), self.ctx.sapp("max", args)])

    def op_sin_cos(self, args, fr, c, e):
        return Tuple([self.ctx.sapp("sin", args), self.ctx.sapp("cos", args)])

    def op_select(self, args, fr, c, e):
        return mk_ite(self.as_bool(args[0]), args[1], args[2])

    def op_lazy_select(self, args, fr, c, e):
        cnd = self.as_bool(args[0])
        if cnd is True:
            return self.apply(args[1], [], fr)
        if cnd is False:
            return self.apply(args[2], [], fr)
        return self.branch(cnd, lambda f2: self.apply(args[1], [], f2), lambda f2: self.apply(args[2], [], f2), fr)

    def as_bool(self, v):
        if _is_boolish(v):
            return v
        if isinstance(v, RatFunc):
            # opaque boolean symbol
            return self.ctx.pred("bool", [v])
        raise Opaque("not boolean: %r" % (v,))

    def op_is_valid_divisor(self, args, fr, c, e):
        return self.ctx.pred("valid_divisor", [args[0]])

    def op_is_true(self, args, fr, c, e):
        return self.as_bool(args[0])

    def op_is_false(self, args, fr, c, e):
        return b_not(self.as_bool(args[0]))

    def op_not(self, args, fr, c, e):
        if _is_boolish(args[0]):
            return b_not(args[0])
        if e is not None and self.F.ty(e) == "bool" and isinstance(self.deref(args[0]), RatFunc):
            return b_not(self.as_bool(self.deref(args[0])))  # `!` of an opaque bool is logical negation, not a bit pattern
        return self.ctx.sapp("bitnot", args)

    def op_neg(self, args, fr, c, e):
        return tree_map(_neg_leaf, args[0])

    def op_powu(self, args, fr, c, e):
        return self.op_powi(args, fr, c, e)

    def op_clone(self, args, fr, c, e):
        return args[0]

    def op_into(self, args, fr, c, e):
        ta = [self.subst_ty(self.S[a], fr) for a in c["a"]]
        if len(ta) == 2 and ta[0] == ta[1]:
            return args[0]
        if len(ta) == 2:
            src, dst = (ta[0], ta[1]) if c["n"] == "into" else (ta[1], ta[0])
            v = self.deref(args[0])
            if dst.startswith(("std::option::Option<", "core::option::Option<")):
                if src.startswith(("std::option::Option<", "core::option::Option<")):
                    return v
                return Struct(OPT_SOME, {"0": v})
            # T -> Hue<T> (impl From<T> for hue newtypes, make_hues!): wrap
            da = _adt_of_type(dst)
            if da.startswith("hues::") and da in self.F.adt_by_path and not src.startswith("hues::") and isinstance(v, (RatFunc, Ite, Array)):
                adt = self.F.adt_by_path[da]
                if len(adt["variants"]) == 1 and [f["n"] for f in adt["variants"][0]["f"]] == ["0"]:
                    return Struct(da, {"0": v})
            # SIMD vector <-> array of its lanes, one-lane abstraction: the generic lane stands for every lane
            if re.match(r"^wide::(f32x4|f32x8|f64x2|f64x4)$", src) and dst.startswith("[") and isinstance(v, (RatFunc, Ite)):
                return Array([v])
            if re.match(r"^wide::(f32x4|f32x8|f64x2|f64x4)$", dst) and src.startswith("[") and isinstance(v, Array) and len(v.items) == 1:
                return v.items[0]
            if re.match(r"^wide::(f32x4|f32x8|f64x2|f64x4)$", dst) and src in ("f32", "f64"):
                return v  # splat
            # colour -> [T; N] and back (impl_array_casts!): declaration order of the fields
            if dst.startswith("[") and isinstance(v, Struct) and v.path in self.F.adt_by_path:
                return Array(self.struct_components(v))
            if src.startswith("[") and isinstance(v, Array):
                adt = self.F.adt_by_path.get(_adt_of_type(dst))
                if adt is not None and len(adt["variants"]) == 1:
                    items = list(v.items)
                    st = self._struct_from_items(dst, items)
                    if st is not None and not items:
                        return st
        return NotImplemented

    # ---- component collections / iterators ------------------------------------------
    def elem_of(self, v):
        v = self.deref(v)
        if isinstance(v, Struct) and v.path == "<elementwise>":
            return v.fields["elem"]
        if isinstance(v, RatFunc):
            a = _single_atom(v)
            if a is not None and not a.args:
                return self.ctx.sym(a.name + "[i]")
        if isinstance(v, Ite):
            return mk_ite_c(v.c, self.elem_of(v.t), self.elem_of(v.f))
        raise Opaque("generic element of %r" % (v,))

    def struct_components(self, v):
        adt = self.F.adt_by_path.get(v.path)
        if adt is None or len(adt["variants"]) != 1:
            raise Opaque("components of %r" % (v,))
        out = []
        for f in adt["variants"][0]["f"]:
            x = v.fields.get(f["n"])
            if isinstance(x, Struct) and x.path.endswith("PhantomData"):
                continue
            if isinstance(x, Struct) and x.path in self.F.adt_by_path and x.path != "<elementwise>":
                out.extend(self.struct_components(x))  # nested colour (Alpha<C, T>): colour components first
            else:
                out.append(x)
        return out

    def op_into_array(self, args, fr, c, e):
        v = args[0]
        if isinstance(v, Struct) and v.path != "<elementwise>":
            return Array(self.struct_components(v))
        return IterV(self.elem_of(v))

    def op_into_array_mut(self, args, fr, c, e):
        if e is None or "a" not in e:
            raise Opaque("into_array_mut without call expression")
        a0 = args[0]
        if isinstance(a0, MutRef):
            return IterV(ElemRef(a0.target, a0.frame, self.elem_of(a0)))
        target = e["a"][0]
        while target.get("k") == "ref":
            target = target["e"]
        return IterV(ElemRef(target, fr, self.elem_of(a0)))

    def op_iter_zip(self, args, fr, c, e):
        a, b = args
        if isinstance(a, Struct) and a.path.endswith("ops::RangeFrom") and isinstance(b, Array) and isinstance(a.fields.get("start"), RatFunc) and a.fields["start"].is_const():
            s0 = int(a.fields["start"].const_value())
            return Array([Tuple([self.ctx.num(s0 + i), y]) for i, y in enumerate(b.items)])
        if isinstance(a, IterV) and isinstance(b, IterV):
            return IterV(Tuple([a.elem, b.elem]))
        if isinstance(a, Array) and isinstance(b, Array) and len(a.items) == len(b.items):
            return Array([Tuple([x, y]) for x, y in zip(a.items, b.items)])
        raise Opaque("zip of %r and %r" % (a, b))

    def op_iter_map(self, args, fr, c, e):
        it, f = args
        if isinstance(it, IterV):
            return IterV(self.apply(f, [it.elem], fr))
        if isinstance(it, Array):
            return Array([self.apply(f, [x], fr) for x in it.items])
        raise Opaque("map over %r" % (it,))

    def op_into_iter(self, args, fr, c, e):
        if isinstance(args[0], (IterV, Array)):
            return args[0]
        if isinstance(args[0], MutRef) and isinstance(self.deref(args[0]), Array):
            return args[0]
        raise Opaque("into_iter of %r" % (args[0],))

    # ---- Option ------------------------------------------------------------------------------
    def opt_case(self, v, some_f, none_f, fr):
        v = self.deref(v)
        if isinstance(v, Ite):
            return mk_ite_c(v.c, self.opt_case(v.t, some_f, none_f, fr), self.opt_case(v.f, some_f, none_f, fr))
        if isinstance(v, Struct):
            tail = v.path.split("::")[-1]
            if tail == "Some":
                return some_f(v.fields["0"], fr)
            if tail == "None":
                return none_f(fr)
        if isinstance(v, RatFunc) and _single_atom(v) is not None:
            cond = self.ctx.pred("is_some", [v])
            payload = self.ctx.app("payload:Some.0", [v])
            return self.branch(cond, lambda f2: some_f(payload, f2), lambda f2: none_f(f2), fr)
        raise Opaque("Option operation on %r" % (v,))

    def op_opt_map_or(self, args, fr, c, e):
        return self.opt_case(args[0], lambda x, f2: self.apply(args[2], [x], f2), lambda f2: args[1], fr)

    def op_opt_map_or_else(self, args, fr, c, e):
        return self.opt_case(args[0], lambda x, f2: self.apply(args[2], [x], f2), lambda f2: self.apply(args[1], [], f2), fr)

    def op_opt_map(self, args, fr, c, e):
        return self.opt_case(args[0], lambda x, f2: Struct(OPT_SOME, {"0": self.apply(args[1], [x], f2)}), lambda f2: Struct(OPT_NONE, {}), fr)

    def op_opt_unwrap_or(self, args, fr, c, e):
        return self.opt_case(args[0], lambda x, f2: x, lambda f2: args[1], fr)

    def op_opt_unwrap_or_else(self, args, fr, c, e):
        return self.opt_case(args[0], lambda x, f2: x, lambda f2: self.apply(args[1], [], f2), fr)

    def op_opt_unwrap(self, args, fr, c, e):
        return self.opt_case(args[0], lambda x, f2: x, lambda f2: BOTTOM, fr)

    def op_opt_is_some(self, args, fr, c, e):
        return self.opt_case(args[0], lambda x, f2: True, lambda f2: False, fr)

    def op_opt_is_none(self, args, fr, c, e):
        return self.opt_case(args[0], lambda x, f2: False, lambda f2: True, fr)

    def op_partial_cmp(self, args, fr, c, e):
        a, b = self.deref(args[0]), self.deref(args[1])
        O = "std::cmp::Ordering::"

        def leaf(x, y):
            if isinstance(x, FloatSpecial) and x.kind == "NaN" or isinstance(y, FloatSpecial) and y.kind == "NaN":
                return Struct(OPT_NONE, {})
            lt = self.ctx._cmp_leaf("<", x, y)
            eq = self.ctx._cmp_leaf("==", x, y)
            mk = lambda n: Struct(OPT_SOME, {"0": Struct(O + n, {})})
            return mk_ite(lt, mk("Less"), mk_ite(eq, mk("Equal"), mk("Greater")))
        return map2(leaf, a, b)

    def res_case(self, v, ok_f, err_f, fr):
        v = self.deref(v)
        if isinstance(v, Ite):
            return mk_ite_c(v.c, self.res_case(v.t, ok_f, err_f, fr), self.res_case(v.f, ok_f, err_f, fr))
        if isinstance(v, Struct):
            tail = v.path.split("::")[-1]
            if tail == "Ok":
                return ok_f(v.fields["0"], fr)
            if tail == "Err":
                return err_f(v.fields["0"], fr)
        if isinstance(v, Bottom):
            return v
        if isinstance(v, RatFunc) and _single_atom(v) is not None:
            cond = self.ctx.pred("is_ok", [v])
            return self.branch(cond, lambda f2: ok_f(self.ctx.app("ok_value", [v]), f2), lambda f2: err_f(self.ctx.app("err_value", [v]), f2), fr)
        raise Opaque("Result operation on %r" % (v,))

    def op_res_unwrap(self, args, fr, c, e):
        return self.res_case(args[0], lambda x, f2: x, lambda x, f2: BOTTOM, fr)

    def op_res_is_ok(self, args, fr, c, e):
        return self.res_case(args[0], lambda x, f2: True, lambda x, f2: False, fr)

    def op_res_is_err(self, args, fr, c, e):
        return self.res_case(args[0], lambda x, f2: False, lambda x, f2: True, fr)

    def op_res_ok(self, args, fr, c, e):
        return self.res_case(args[0], lambda x, f2: Struct(OPT_SOME, {"0": x}), lambda x, f2: Struct(OPT_NONE, {}), fr)

    def op_res_map(self, args, fr, c, e):
        return self.res_case(args[0], lambda x, f2: Struct(RES_OK, {"0": self.apply(args[1], [x], f2)}), lambda x, f2: Struct(RES_ERR, {"0": x}), fr)

    def op_res_map_err(self, args, fr, c, e):
        return self.res_case(args[0], lambda x, f2: Struct(RES_OK, {"0": x}), lambda x, f2: Struct(RES_ERR, {"0": self.apply(args[1], [x], f2)}), fr)

    def op_try_branch(self, args, fr, c, e):
        CF = "std::ops::ControlFlow::"
        v = self.deref(args[0])

        def conv(x):
            if isinstance(x, Ite):
                return mk_ite_c(x.c, conv(x.t), conv(x.f))
            if isinstance(x, Struct):
                tail = x.path.split("::")[-1]
                if tail in ("Ok", "Some"):
                    return Struct(CF + "Continue", {"0": x.fields["0"]})
                if tail in ("Err", "None"):
                    return Struct(CF + "Break", {"0": x})
            if isinstance(x, Bottom):
                return x
            if isinstance(x, RatFunc) and _single_atom(x) is not None:
                cond = self.ctx.pred("is_ok", [x])
                return mk_ite(cond, Struct(CF + "Continue", {"0": self.ctx.app("ok_value", [x])}),
                              Struct(CF + "Break", {"0": Struct(RES_ERR, {"0": self.ctx.app("err_value", [x])})}))
            raise Opaque("`?` on %r" % (x,))
        return conv(v)

    def op_from_residual(self, args, fr, c, e):
        return self.deref(args[0])

    def op_int_from_str_radix(self, args, fr, c, e):
        a, r = self.deref(args[0]), self.deref(args[1])
        if isinstance(a, StrVal) and isinstance(r, RatFunc) and r.is_const():
            try:
                t = a.s
                if t[:1] == "+":
                    t = t[1:]
                if not t or t[:1] in "+-" or "_" in t:
                    raise ValueError
                return Struct(RES_OK, {"0": self.ctx.num(int(t, int(r.const_value())))})
            except ValueError:
                return Struct(RES_ERR, {"0": self.ctx.sym("ParseIntError")})
        return self.uninterpreted("int.from_str_radix", [a, r])

    def op_str_len(self, args, fr, c, e):
        a = self.deref(args[0])
        if isinstance(a, Ite):
            return mk_ite_c(a.c, self.op_str_len([a.t], fr, c, e), self.op_str_len([a.f], fr, c, e))
        if isinstance(a, StrVal):
            return self.ctx.num(len(a.s.encode()))
        if isinstance(a, RatFunc):
            at = _single_atom(a)
            # len(strip_prefix(X, one-byte char).unwrap()) = len(X) - 1
            if at is not None and at.name == "payload:Some.0" and isinstance(at.args[0], RatFunc):
                inner = _single_atom(at.args[0])
                if inner is not None and inner.name.startswith(("core::str::<impl str>::strip_prefix", "std::str::<impl str>::strip_prefix")) and len(inner.args) == 2:
                    pre = inner.args[1]
                    pa = _single_atom(pre) if isinstance(pre, RatFunc) else None
                    if pa is not None and pa.name.startswith("str:") and len(pa.name[4:].encode()) == 1:
                        return self.binop("-", self.op_str_len([inner.args[0]], fr, c, e), self.ctx.num(1))
        return self.uninterpreted("str::len", [a])

    def _struct_from_items(self, ty, items):
        """Rebuild a (possibly nested) colour struct of type `ty` from a flat component list (consumed in place)."""
        from .alg import split_type
        head, targs = split_type(ty)
        adt = self.F.adt_by_path.get(head)
        if adt is None or len(adt["variants"]) != 1:
            return None
        sub = dict(zip(adt["generics"], targs)) if len(adt["generics"]) == len(targs) else {}
        fields = {}
        for f in adt["variants"][0]["f"]:
            ft = re.sub(r"\b[A-Za-z_][A-Za-z0-9_]*\b", lambda m: sub.get(m.group(0), m.group(0)), self.S[f["t"]])
            if ft.startswith(("core::marker::PhantomData", "std::marker::PhantomData")):
                fields[f["n"]] = Struct("PhantomData", {})
            elif _adt_of_type(ft) in self.F.adt_by_path:
                inner = self._struct_from_items(ft, items)
                if inner is None:
                    return None
                fields[f["n"]] = inner
            else:
                if not items:
                    return None
                fields[f["n"]] = items.pop(0)
        return Struct(adt["path"], fields)

    def op_phantom(self, args, fr, c, e):
        return Struct("PhantomData", {})

    def op_default(self, args, fr, c, e):
        ta = [self.S[a] for a in c["a"]]
        if ta and ta[0].startswith(("core::marker::PhantomData", "std::marker::PhantomData")):
            return Struct("PhantomData", {})
        if ta:
            t = self.subst_ty(ta[0], fr)
            if t == "Self" and e is not None:
                t = self.subst_ty(self.F.ty(e) or "", fr)
            m = re.match(r"^\[(.*); (\d+)\]$", t)
            if m and int(m.group(2)) <= 16:
                # array default with a concrete length: every slot holds the (unknown) default of the element type
                return Array([self.ctx.sym("default<%s>" % m.group(1)) for _ in range(int(m.group(2)))])
        return NotImplemented

    def op_iter_enumerate(self, args, fr, c, e):
        it = args[0]
        if isinstance(it, Array):
            return Array([Tuple([self.ctx.num(i), x]) for i, x in enumerate(it.items)])
        return NotImplemented

    def op_lanes_id(self, args, fr, c, e):
        # FromScalarArray::from_array / IntoScalarArray::into_array on a vector modelled as the array of its lanes
        if isinstance(args[0], Array):
            return args[0]
        return NotImplemented


def _collect_refs(v, out):
    if isinstance(v, ElemRef):
        out.append(v)
    elif isinstance(v, (Tuple, Array)):
        for x in v.items:
            _collect_refs(x, out)
    elif isinstance(v, Struct):
        for x in v.fields.values():
            _collect_refs(x, out)


def _enum_eq(a, b):
    """Equality of constructor trees (variants compared by name: std re-exports print differently).
    Returns a boolean case tree, or None if undecidable."""
    if isinstance(a, Ite):
        t, f = _enum_eq(a.t, b), _enum_eq(a.f, b)
        if t is None or f is None:
            return None
        return mk_ite_c(a.c, t, f)
    if isinstance(b, Ite):
        t, f = _enum_eq(a, b.t), _enum_eq(a, b.f)
        if t is None or f is None:
            return None
        return mk_ite_c(b.c, t, f)
    if isinstance(a, Struct) and isinstance(b, Struct):
        if a.path.split("::")[-1] != b.path.split("::")[-1] or a.fields.keys() != b.fields.keys():
            return False
        acc = True
        for k in a.fields:
            r = _enum_eq(a.fields[k], b.fields[k])
            if r is None:
                return None
            acc = b_and(acc, r)
        return acc
    if False:
        if a.path.split("::")[-1] != b.path.split("::")[-1] or a.fields.keys() != b.fields.keys():
            return False
        for k in a.fields:
            r = _enum_eq(a.fields[k], b.fields[k])
            if r is None:
                return None
            if not r:
                return False
        return True
    if isinstance(a, RatFunc) and isinstance(b, RatFunc) and a.is_const() and b.is_const():
        return a.const_value() == b.const_value()
    return None


def _neg_leaf(x):
    if isinstance(x, RatFunc):
        return -x
    if isinstance(x, FloatSpecial):
        return {"NaN": NAN, "+inf": NINF, "-inf": PINF}[x.kind]
    return _bad(x, "neg")


def _bad(x, what):
    raise Opaque("%s of %r" % (what, x))


def _is_boolish(v):
    if isinstance(v, bool):
        return True
    if isinstance(v, Ite):
        return _is_boolish(v.t) and _is_boolish(v.f)
    return False


def _parse_float(s):
    s = s.replace("_", "")
    for suf in ("f32", "f64"):
        if s.endswith(suf):
            s = s[: -len(suf)]
    return Fraction(s)


def _int_bits(t):
    if t in ("usize", "isize"):
        return 64
    if t == "bool":
        return 1
    return int(t[1:])


def _int_signed(t):
    return t.startswith("i")


def _adt_of_type(t):
    if t is None:
        return "?"
    t = t.strip()
    while t.startswith("&"):
        t = t[1:].strip()
        if t.startswith("mut "):
            t = t[4:]
    i = t.find("<")
    return t if i < 0 else t[:i]


def _strip_crate(p):
    return p


_STD_CONSTS = {
    "f32::consts::PI": "pi", "f64::consts::PI": "pi",
    "f32::EPSILON": "f32::EPSILON", "f64::EPSILON": "f64::EPSILON",
    "f32::<impl f32>::MIN_POSITIVE": "f32::MIN_POSITIVE", "f64::<impl f64>::MIN_POSITIVE": "f64::MIN_POSITIVE",
    "f32::<impl f32>::MAX": "f32::MAX", "f64::<impl f64>::MAX": "f64::MAX",
    "f32::MIN_POSITIVE": "f32::MIN_POSITIVE", "f64::MIN_POSITIVE": "f64::MIN_POSITIVE", "f32::MAX": "f32::MAX", "f64::MAX": "f64::MAX",
}

# static / resolved def path -> operator key
_OPKEY = {}


def _reg(paths, key):
    for p in paths:
        _OPKEY[p] = key


for _t in ("std", "core"):
    _reg(["%s::ops::Add::add" % _t], "bin.+")
    _reg(["%s::ops::Sub::sub" % _t], "bin.-")
    _reg(["%s::ops::Mul::mul" % _t], "bin.*")
    _reg(["%s::ops::Div::div" % _t], "bin./")
    _reg(["%s::ops::Rem::rem" % _t], "bin.%")
    _reg(["%s::ops::BitAnd::bitand" % _t], "bin.&")
    _reg(["%s::ops::BitOr::bitor" % _t], "bin.|")
    _reg(["%s::ops::BitXor::bitxor" % _t], "bin.^")
    _reg(["%s::ops::Shl::shl" % _t], "bin.<<")
    _reg(["%s::ops::Shr::shr" % _t], "bin.>>")
    _reg(["%s::ops::Neg::neg" % _t], "neg")
    _reg(["%s::ops::Not::not" % _t], "not")
    _reg(["%s::clone::Clone::clone" % _t], "clone")
    _reg(["%s::convert::Into::into" % _t, "%s::convert::From::from" % _t], "into")
    _reg(["%s::default::Default::default" % _t], "default")
    _reg(["%s::cmp::PartialEq::eq" % _t], "cmp.==")
    _reg(["%s::cmp::PartialEq::ne" % _t], "cmp.!=")
    _reg(["%s::cmp::PartialOrd::lt" % _t], "cmp.<")
    _reg(["%s::cmp::PartialOrd::le" % _t], "cmp.<=")
    _reg(["%s::cmp::PartialOrd::gt" % _t], "cmp.>")
    _reg(["%s::cmp::PartialOrd::ge" % _t], "cmp.>=")
    _reg(["%s::cmp::PartialOrd::partial_cmp" % _t], "partial_cmp")
    _reg(["%s::borrow::Borrow::borrow" % _t, "%s::convert::AsRef::as_ref" % _t, "%s::ops::Deref::deref" % _t], "id.")

_reg(["num::FromScalarArray::from_array", "num::IntoScalarArray::into_array"], "lanes_id")
for _t in ("std", "core"):
    _reg(["%s::iter::Iterator::enumerate" % _t], "iter_enumerate")
    _reg(["%s::iter::Iterator::zip" % _t], "iter_zip")
    _reg(["%s::iter::Iterator::map" % _t], "iter_map")
    _reg(["%s::iter::IntoIterator::into_iter" % _t], "into_iter")
for _t in ("std", "core"):
    for _m in ("map_or", "map_or_else", "map", "unwrap_or", "unwrap_or_else", "unwrap", "is_some", "is_none"):
        _reg(["%s::option::Option::<T>::%s" % (_t, _m)], "opt_" + _m)
    _reg(["%s::option::Option::<T>::expect" % _t], "opt_unwrap")
for _t in ("std", "core"):
    _reg(["%s::ops::Try::branch" % _t], "try_branch")
    _reg(["%s::ops::FromResidual::from_residual" % _t], "from_residual")
for _t in ("std", "core"):
    for _m in ("unwrap", "is_ok", "is_err", "ok", "map", "map_err"):
        _reg(["%s::result::Result::<T, E>::%s" % (_t, _m)], "res_" + _m)
    _reg(["%s::result::Result::<T, E>::expect" % _t], "res_unwrap")
_reg(["core::str::<impl str>::len", "std::str::<impl str>::len"], "str_len")
_reg(["cast::array::into_array"], "into_array")
_reg(["cast::array::into_array_mut"], "into_array_mut")
_reg(["num::Real::from_f64", "num::FromScalar::from_scalar"], "id.")
_reg(["num::Zero::zero"], "const.0")
_reg(["num::One::one"], "const.1")
_reg(["num::MinMax::min"], "fn1.min")
_reg(["num::MinMax::max"], "fn1.max")
_reg(["num::MinMax::min_max"], "min_max")
for _n in ("sin", "cos", "tan", "asin", "acos", "atan", "atan2"):
    _reg(["num::Trigonometry::" + _n], "fn1." + _n)
_reg(["num::Trigonometry::sin_cos"], "sin_cos")
_reg(["num::Abs::abs"], "fn1.abs")
_reg(["num::Sqrt::sqrt"], "fn1.sqrt")
_reg(["num::Cbrt::cbrt"], "fn1.cbrt")
_reg(["num::Powf::powf"], "fn1.powf")
_reg(["num::Powi::powi"], "powi")
_reg(["num::Powu::powu"], "powu")
_reg(["num::Recip::recip"], "recip")
_reg(["num::Exp::exp"], "fn1.exp")
_reg(["num::Ln::ln"], "fn1.ln")
_reg(["num::IsValidDivisor::is_valid_divisor"], "is_valid_divisor")
_reg(["num::Hypot::hypot"], "hypot")
_reg(["num::Round::round"], "fn1.round")
_reg(["num::Round::floor"], "fn1.floor")
_reg(["num::Round::ceil"], "fn1.ceil")
_reg(["num::Clamp::clamp"], "clamp")
_reg(["num::Clamp::clamp_min"], "clamp_min")
_reg(["num::Clamp::clamp_max"], "clamp_max")
_reg(["num::ClampAssign::clamp_assign"], "clamp_assign")
_reg(["num::ClampAssign::clamp_min_assign"], "clamp_min_assign")
_reg(["num::ClampAssign::clamp_max_assign"], "clamp_max_assign")
for _t in ("std", "core"):
    _reg(["%s::ops::AddAssign::add_assign" % _t], "add_assign")
    _reg(["%s::ops::SubAssign::sub_assign" % _t], "sub_assign")
    _reg(["%s::ops::MulAssign::mul_assign" % _t], "mul_assign")
    _reg(["%s::ops::DivAssign::div_assign" % _t], "div_assign")
    _reg(["%s::slice::<impl [T]>::iter_mut" % _t], "slice_iter_mut")
    _reg(["%s::slice::<impl [T]>::iter" % _t], "slice_iter")
    _reg(["%s::slice::<impl [T]>::len" % _t], "slice_len")
    _reg(["%s::iter::Iterator::for_each" % _t], "iter_for_each")
_REF_OPS = ("into_array_mut", "clamp_assign", "clamp_min_assign", "clamp_max_assign", "add_assign", "sub_assign", "mul_assign", "div_assign",
            "slice_iter_mut", "iter_for_each")
_reg(["num::MulAdd::mul_add"], "mul_add")
_reg(["num::MulSub::mul_sub"], "mul_sub")
_reg(["num::Signum::signum"], "fn1.signum")
_reg(["num::SaturatingAdd::saturating_add"], "fn1.saturating_add")
_reg(["num::SaturatingSub::saturating_sub"], "fn1.saturating_sub")
_reg(["num::PartialCmp::lt"], "cmp.<")
_reg(["num::PartialCmp::lt_eq"], "cmp.<=")
_reg(["num::PartialCmp::eq"], "cmp.==")
_reg(["num::PartialCmp::neq"], "cmp.!=")
_reg(["num::PartialCmp::gt_eq"], "cmp.>=")
_reg(["num::PartialCmp::gt"], "cmp.>")
_reg(["bool_mask::Select::select"], "select")
_reg(["bool_mask::LazySelect::lazy_select"], "lazy_select")
_reg(["bool_mask::BoolMask::from_bool"], "id.")
_reg(["bool_mask::BoolMask::is_true"], "is_true")
_reg(["bool_mask::BoolMask::is_false"], "is_false")
_reg(["angle::HalfRotation::half_rotation"], "const.180")
_reg(["angle::FullRotation::full_rotation"], "const.360")
_reg(["angle::FromAngle::from_angle", "angle::IntoAngle::into_angle"], "fn1.angle_cast")
_reg(["angle::RealAngle::degrees_to_radians"], "fn1.deg2rad")
_reg(["angle::RealAngle::radians_to_degrees"], "fn1.rad2deg")
_reg(["angle::SignedAngle::normalize_signed_angle"], "fn1.norm_signed")
_reg(["angle::UnsignedAngle::normalize_unsigned_angle"], "fn1.norm_unsigned")
_reg(["angle::AngleEq::angle_eq"], "fn1.angle_eq")
_reg(["core::marker::PhantomData", "std::marker::PhantomData"], "phantom")
