"""CONST engine: relations between literal tables extracted from the source (exact arithmetic)."""
from fractions import Fraction as Fr

from . import sym, alg
from .sym import Struct, Array, Tuple, Opaque
from .poly import RatFunc
from .common import check_ref, check_value

# ASTM E308-01 / CIE 15 tristimulus values (Y = 1); independent of the code (DESIGN Appendix B)
WHITE_POINTS = {
    "white_point::A": ("1.09850", "0.35585"),
    "white_point::B": ("0.99072", "0.85223"),
    "white_point::C": ("0.98074", "1.18232"),
    "white_point::D50": ("0.96422", "0.82521"),
    "white_point::D55": ("0.95682", "0.92149"),
    "white_point::D65": ("0.95047", "1.08883"),
    "white_point::D75": ("0.94972", "1.22638"),
    "white_point::E": ("1.0", "1.0"),
    "white_point::F2": ("0.99186", "0.67393"),
    "white_point::F7": ("0.95041", "1.08747"),
    "white_point::F11": ("1.00962", "0.64350"),
    "white_point::D50Degree10": ("0.9672", "0.8143"),
    "white_point::D55Degree10": ("0.958", "0.9093"),
    "white_point::D65Degree10": ("0.9481", "1.073"),
    "white_point::D75Degree10": ("0.94416", "1.2064"),
}
DCI_WHITE_XY = ("0.314", "0.351")

# chromaticities (x, y) of the primaries, from the respective standards
PRIMARIES = {
    "encoding::srgb::Srgb": (("0.64", "0.33"), ("0.30", "0.60"), ("0.15", "0.06")),
    "encoding::adobe::AdobeRgb": (("0.64", "0.33"), ("0.21", "0.71"), ("0.15", "0.06")),
    "encoding::rec_standards::Rec2020": (("0.708", "0.292"), ("0.170", "0.797"), ("0.131", "0.046")),
    "encoding::p3::DciP3": (("0.680", "0.320"), ("0.265", "0.690"), ("0.150", "0.060")),
    "encoding::p3::DisplayP3": (("0.680", "0.320"), ("0.265", "0.690"), ("0.150", "0.060")),
    "encoding::p3::DciP3Plus": (("0.740", "0.270"), ("0.220", "0.780"), ("0.090", "-0.090")),
    "encoding::prophoto::ProPhotoRgb": (("0.7347", "0.2653"), ("0.1596", "0.8404"), ("0.0366", "0.0001")),
}

TOL_MATRIX = Fr(2, 10 ** 6)


def num(v):
    if isinstance(v, RatFunc) and v.is_const():
        return v.const_value()
    raise Opaque("not a constant: %r" % (v,))


def eval_const_fn(S, body, targs=None):
    v, _ = S.ev.eval_body(body, [])
    return v


def mat_from_value(v):
    """Option<[f64; 9]> value -> list of 9 Fractions or None."""
    if isinstance(v, Struct) and v.path.split("::")[-1] == "None":
        return None
    if isinstance(v, Struct) and v.path.split("::")[-1] == "Some":
        v = v.fields["0"]
    if isinstance(v, Array) and len(v.items) == 9:
        return [num(x) for x in v.items]
    raise Opaque("not a 3x3 matrix: %r" % (v,))


def mat_mul(a, b):
    return [sum(a[3 * i + k] * b[3 * k + j] for k in range(3)) for i in range(3) for j in range(3)]


def mat_vec(a, v):
    return [sum(a[3 * i + k] * v[k] for k in range(3)) for i in range(3)]


def mat_inv(a):
    d0 = a[4] * a[8] - a[5] * a[7]
    d1 = a[3] * a[8] - a[5] * a[6]
    d2 = a[3] * a[7] - a[4] * a[6]
    det = a[0] * d0 - a[1] * d1 + a[2] * d2
    d3 = a[1] * a[8] - a[2] * a[7]
    d4 = a[0] * a[8] - a[2] * a[6]
    d5 = a[0] * a[7] - a[1] * a[6]
    d6 = a[1] * a[5] - a[2] * a[4]
    d7 = a[0] * a[5] - a[2] * a[3]
    d8 = a[0] * a[4] - a[1] * a[3]
    return [d0 / det, -d3 / det, d6 / det, -d1 / det, d4 / det, -d7 / det, d2 / det, -d5 / det, d8 / det]


IDENT = [Fr(1), Fr(0), Fr(0), Fr(0), Fr(1), Fr(0), Fr(0), Fr(0), Fr(1)]


def maxdiff(a, b):
    return max(abs(x - y) for x, y in zip(a, b))


def derived_rgb_to_xyz(prims, white):
    """Matrix whose columns are the primaries' XYZ scaled so that RGB(1,1,1) maps to the white point."""
    cols = []
    for x, y in prims:
        x, y = Fr(x), Fr(y)
        cols.append([x / y, Fr(1), (1 - x - y) / y])
    m = [cols[j][i] for i in range(3) for j in range(3)]
    s = mat_vec(mat_inv(m), white)
    return [m[3 * i + j] * s[j] for i in range(3) for j in range(3)]


def white_of(F, S, wp_path):
    ims = [im for im in F.find_impls(trait="white_point::WhitePoint") if im["self_s"] == wp_path or im.get("self_adt") == wp_path]
    if len(ims) != 1:
        raise Opaque("white point impl for %s: %d" % (wp_path, len(ims)))
    b = F.impl_method(ims[0], "get_xyz")
    v = eval_const_fn(S, b)
    return [num(v.fields["x"]), num(v.fields["y"]), num(v.fields["z"])], b


def f6(x):
    return "%.3g" % float(x)


def check_white_points(F, rep, S):
    n = 0
    for im in F.find_impls(trait="white_point::WhitePoint"):
        p = im.get("self_adt") or im["self_s"]
        b = F.impl_method(im, "get_xyz")
        if b is None:
            continue
        try:
            v = eval_const_fn(S, b)
            got = [num(v.fields["x"]), num(v.fields["y"]), num(v.fields["z"])]
        except Opaque as ex:
            rep.fail("CONST-WP", "white:" + p, "uninterpretable: %s" % ex, F.loc(b))
            continue
        n += 1
        if p in WHITE_POINTS:
            ex_ = [Fr(WHITE_POINTS[p][0]), Fr(1), Fr(WHITE_POINTS[p][1])]
            rep.ob("CONST-WP", "white:" + p, got == ex_, "code %s vs ASTM E308 %s" % ([str(x) for x in got], [str(x) for x in ex_]), F.loc(b))
        elif p.endswith("p3::DciP3"):
            x, y = Fr(DCI_WHITE_XY[0]), Fr(DCI_WHITE_XY[1])
            ex_ = [x / y, Fr(1), (1 - x - y) / y]
            rep.ob("CONST-WP", "white:" + p, maxdiff(got, ex_) <= Fr(1, 10 ** 6), "code %s vs xy (0.314, 0.351) -> %s" % ([f6(x) for x in got], [f6(x) for x in ex_]), F.loc(b))
        elif p.endswith("white_point::Any"):
            continue
        else:
            rep.fail("CONST-WP", "white:" + p, "white point without a published reference row in rules/consts.py", F.loc(b))
    rep.floor("white points", n, 16)


def check_rgb_spaces(F, rep, S):
    n = 0
    for im in F.find_impls(trait="rgb::RgbSpace"):
        p = im.get("self_adt") or im["self_s"]
        if p.startswith("("):
            continue  # tuple (Primaries, WhitePoint) spaces are derived at run time from their parts
        assoc = {it["n"]: F.S[it["ty"]] for it in im["items"] if it["kind"] == "Type"}
        key = p.split("::")[-1]
        b1 = F.impl_method(im, "rgb_to_xyz_matrix")
        b2 = F.impl_method(im, "xyz_to_rgb_matrix")
        try:
            m1 = mat_from_value(eval_const_fn(S, b1)) if b1 else None
            m2 = mat_from_value(eval_const_fn(S, b2)) if b2 else None
            wp_path = sym._adt_of_type(assoc["WhitePoint"])
            white, _ = white_of(F, S, wp_path)
        except (Opaque, KeyError) as ex:
            rep.fail("CONST-MAT", "space:" + key, "uninterpretable: %s" % ex, F.loc(b1 or b2) if (b1 or b2) else None)
            continue
        n += 1
        prim_path = sym._adt_of_type(assoc["Primaries"])
        prims = PRIMARIES.get(prim_path)
        loc = F.loc(b1) if b1 else None
        if prims is None:
            rep.fail("CONST-MAT", "primaries-ref:" + key, "no published primaries row for %s in rules/consts.py" % prim_path, loc)
            continue
        # the Primaries impl literals = published chromaticities; luma (Y) = middle row of the matrix
        pim = [x for x in F.find_impls(trait="rgb::Primaries") if (x.get("self_adt") or x["self_s"]) == prim_path]
        der = derived_rgb_to_xyz(prims, white)
        if len(pim) == 1:
            for j, cname in enumerate(("red", "green", "blue")):
                pb = F.impl_method(pim[0], cname)
                try:
                    pv = eval_const_fn(S, pb)
                    got = (num(pv.fields["x"]), num(pv.fields["y"]), num(pv.fields["luma"]))
                    okxy = got[0] == Fr(prims[j][0]) and got[1] == Fr(prims[j][1])
                    rep.ob("CONST-PRIM", "primary-xy:%s.%s" % (key, cname), okxy, "code (%s, %s) vs standard %s" % (got[0], got[1], prims[j]), F.loc(pb))
                    rep.ob("CONST-PRIM", "primary-luma:%s.%s" % (key, cname), abs(got[2] - der[3 + j]) <= Fr(1, 10 ** 4),
                           "luma literal %s vs derived Y row %s (|diff| %s, tol 1e-4)" % (float(got[2]), float(der[3 + j]), f6(abs(got[2] - der[3 + j]))), F.loc(pb))
                except (Opaque, KeyError, AttributeError) as ex:
                    rep.fail("CONST-PRIM", "primary:%s.%s" % (key, cname), "uninterpretable: %s" % ex, F.loc(pb) if pb else None)
        else:
            rep.fail("ANCHOR", "primaries-impl:" + key, "Primaries impl for %s: %d" % (prim_path, len(pim)))
        if m1 is not None:
            d = maxdiff(m1, der)
            rep.ob("CONST-MAT", "rgb_to_xyz=derived:" + key, d <= TOL_MATRIX, "max |literal - derived from primaries+white| = %s (tol %s)" % (f6(d), f6(TOL_MATRIX)), loc)
            rows = [m1[0] + m1[1] + m1[2], m1[3] + m1[4] + m1[5], m1[6] + m1[7] + m1[8]]
            d = maxdiff(rows, white)
            rep.ob("CONST-MAT", "white-row-sums:" + key, d <= TOL_MATRIX, "RGB(1,1,1) -> %s vs white point %s" % ([f6(x) for x in rows], [f6(x) for x in white]), loc)
        if m2 is not None:
            d = maxdiff(m2, mat_inv(der))
            rep.ob("CONST-MAT", "xyz_to_rgb=inverse-derived:" + key, d <= TOL_MATRIX * 3, "max |literal - inverse(derived)| = %s" % f6(d), F.loc(b2))
        if m1 is not None and m2 is not None:
            d = maxdiff(mat_mul(m1, m2), IDENT)
            rep.ob("CONST-MAT", "pair-inverse:" + key, d <= TOL_MATRIX, "max |A*B - I| = %s" % f6(d), loc)
    rep.floor("RgbSpace impls", n, 7)


# ---- transfer functions (IEC 61966-2-1, BT.709/2020, Adobe RGB (1998), DCI P3, ROMM) -------------
ALPHA = Fr("1.09929682680944")
BETA = Fr("0.018053968510807")


def _tf_refs():
    def srgb_dec(R, e):
        return R.ite(R.le(e, "0.04045"), R.div(e, "12.92"), R.powf(R.div(R.add(e, "0.055"), "1.055"), "2.4"))

    def srgb_enc(R, l):
        return R.ite(R.le(l, "0.0031308"), R.mul("12.92", l), R.sub(R.mul("1.055", R.powf(l, Fr(5, 12))), "0.055"))

    def rec_dec(R, e):
        return R.ite(R.lt(e, Fr(9, 2) * BETA), R.div(e, Fr(9, 2)), R.powf(R.div(R.add(e, ALPHA - 1), ALPHA), 1 / Fr("0.45")))

    def rec_enc(R, l):
        return R.ite(R.lt(l, BETA), R.mul(Fr(9, 2), l), R.sub(R.mul(ALPHA, R.powf(l, "0.45")), ALPHA - 1))

    def adobe_dec(R, e):
        return R.powf(e, Fr(563, 256))

    def adobe_enc(R, l):
        return R.powf(l, Fr(256, 563))

    def p3_dec(R, e):
        return R.powf(e, "2.6")

    def p3_enc(R, l):
        return R.powf(l, 1 / Fr("2.6"))

    def romm_dec(R, e):
        return R.ite(R.lt(e, Fr(1, 32)), R.div(e, 16), R.powf(e, "1.8"))

    def romm_enc(R, l):
        return R.ite(R.lt(l, Fr(1, 512)), R.mul(16, l), R.powf(l, 1 / Fr("1.8")))

    def ident(R, x):
        return x
    return {
        "encoding::srgb::Srgb": (srgb_dec, srgb_enc, (Fr("0.0031308"), Fr("0.04045"))),
        "encoding::rec_standards::RecOetf": (rec_dec, rec_enc, (BETA, Fr(9, 2) * BETA)),
        "encoding::adobe::AdobeRgb": (adobe_dec, adobe_enc, None),
        "encoding::p3::P3Gamma": (p3_dec, p3_enc, None),
        "encoding::prophoto::ProPhotoRgb": (romm_dec, romm_enc, (Fr(1, 512), Fr(1, 32))),
        "encoding::linear::LinearFn": (ident, ident, None),
    }


def generic_tf_impls(F, trait):
    out = {}
    for im in F.find_impls(trait=trait):
        ta = im["trait_args_s"]
        if len(ta) == 2 and ta[0] == "T" and ta[1] == "T":
            out[im.get("self_adt") or im["self_s"]] = im
    return out


def check_transfer_functions(F, rep, S, rule="ALG-REF"):
    refs = _tf_refs()
    into = generic_tf_impls(F, "encoding::IntoLinear")
    frm = generic_tf_impls(F, "encoding::FromLinear")
    n = 0
    for path, (dec, enc, knee) in refs.items():
        key = path.split("::")[-1]
        for which, table, ref, mname in (("decode", into, dec, "into_linear"), ("encode", frm, enc, "from_linear")):
            im = table.get(path)
            if im is None:
                rep.fail("ANCHOR", "transfer:%s:%s" % (key, which), "generic %s impl not found" % mname)
                continue
            b = F.impl_method(im, mname)
            n += 1
            check_ref(rep, rule, "transfer:%s:%s" % (key, which), S, b, lambda R, x, ref=ref: ref(R, x), names=["x"])
        if knee is not None:
            # CONST-2: step of the published constants at the knee, computed in floating point
            # from the reference constants (the code was just shown equal to the reference)
            lin_t, enc_t = float(knee[0]), float(knee[1])
            ctxR = _FloatR()
            lo = float_eval(enc, lin_t, True)
            hi = float_eval(enc, lin_t, False)
            rep.ob("CONST-KNEE", "knee-step:%s:encode" % key, abs(lo - hi) < 1e-6, "|linear arm - power arm| at %g = %.3g" % (lin_t, abs(lo - hi)))
            lo = float_eval(dec, enc_t, True)
            hi = float_eval(dec, enc_t, False)
            rep.ob("CONST-KNEE", "knee-step:%s:decode" % key, abs(lo - hi) < 1e-6, "|linear arm - power arm| at %g = %.3g" % (enc_t, abs(lo - hi)))
            rep.ob("CONST-KNEE", "knee-image:%s" % key, abs(float_eval(enc, lin_t, True) - enc_t) < 1e-6,
                   "encode(linear threshold) = %.9g vs encoded threshold %.9g" % (float_eval(enc, lin_t, True), enc_t))
    # GammaFn<N> (deprecated, documented as not following any standard): no published curve to compare with, but the pair must still be
    # mutually inverse -- every Gamma<..> colour converts through into_linear / from_linear like any other RGB standard
    for path in sorted(set(into) | set(frm)):
        if not path.endswith("gamma::GammaFn"):
            continue
        try:
            bi, bf = F.impl_method(into[path], "into_linear"), F.impl_method(frm[path], "from_linear")
            x = S.ctx.sym("x")
            S.ctx.positive.add("x")
            dec, _ = S.ev.eval_body(bi, [x])
            enc_dec, _ = S.ev.eval_body(bf, [dec])
            enc, _ = S.ev.eval_body(bf, [x])
            dec_enc, _ = S.ev.eval_body(bi, [enc])
            from .common import check_value
            check_value(rep, "ALG-LAW", "transfer:GammaFn:from_linear∘into_linear", S, bf, enc_dec, x, sample="(x^a)^b with a·b = 1")
            check_value(rep, "ALG-LAW", "transfer:GammaFn:into_linear∘from_linear", S, bi, dec_enc, x, sample="(x^b)^a with a·b = 1")
            n += 1
        except (KeyError, Opaque, poly.TooBig) as ex:
            rep.fail("ALG-LAW", "transfer:GammaFn", "uninterpretable: %s" % ex)
    # every other generic transfer function impl must be known (fail closed on additions)
    for path in set(into) | set(frm):
        if path not in refs and not path.endswith("gamma::GammaFn"):
            rep.fail("ANCHOR", "transfer:" + path, "transfer function without a reference in rules/consts.py")
    rep.floor("transfer functions", n, 13)


class _FloatR:
    """Float interpretation of the reference DSL, used only to evaluate *reference constants*
    (never palette code) on one side of a knee."""

    def __init__(self, force=None):
        self.force = force

    def c(self, x):
        return float(Fr(x)) if isinstance(x, (str, Fr, int)) else x

    def add(self, *xs):
        return sum(self.c(x) for x in xs)

    def sub(self, a, b):
        return self.c(a) - self.c(b)

    def mul(self, *xs):
        r = 1.0
        for x in xs:
            r *= self.c(x)
        return r

    def div(self, a, b):
        return self.c(a) / self.c(b)

    def powf(self, a, b):
        return self.c(a) ** self.c(b)

    def le(self, a, b):
        return self.force

    lt = le

    def ite(self, c, a, b):
        return self.c(a) if c else self.c(b)


def float_eval(ref, x, first_arm):
    return ref(_FloatR(first_arm), x)


# ---- Oklab ------------------------------------------------------------------------
# M1: the recalculated XYZ(D65)->LMS matrix published with CSS Color 4 / color.js (the source the
# code cites; Ottosson's original 2020 M1 differs from it by 3e-4 because of a different D65);
# M2: Ottosson, "A perceptual color space for image processing".
OK_M1 = ["0.8190224432164319", "0.3619062562801221", "-0.12887378261216414",
         "0.0329836671980271", "0.9292868468965546", "0.03614466816999844",
         "0.048177199566046255", "0.26423952494422764", "0.6335478258136937"]
OK_M2 = ["0.2104542553", "0.7936177850", "-0.0040720468",
         "1.9779984951", "-2.4285922050", "0.4505937099",
         "0.0259040371", "0.7827717662", "-0.8086757660"]


def check_oklab_matrices(F, rep, S):
    vals = {}
    for name in ("m1", "m1_inv", "m2", "m2_inv"):
        try:
            b = F.fn("oklab::%s" % name)
            v = eval_const_fn(S, b)
            if isinstance(v, Array) and len(v.items) == 9:
                vals[name] = ([num(x) for x in v.items], b)
            else:
                rep.fail("CONST-OK", "oklab:" + name, "not a constant 3x3 matrix: %r" % (v,), F.loc(b))
        except Opaque as ex:
            rep.fail("CONST-OK", "oklab:" + name, "uninterpretable: %s" % ex)
    if "m1" in vals:
        d = maxdiff(vals["m1"][0], [Fr(x) for x in OK_M1])
        rep.ob("CONST-OK", "oklab:m1=published", d <= Fr(1, 10 ** 7), "max |m1 - CSS Color 4 / color.js M1| = %s" % f6(d), F.loc(vals["m1"][1]))
    if "m2" in vals:
        d = maxdiff(vals["m2"][0], [Fr(x) for x in OK_M2])
        rep.ob("CONST-OK", "oklab:m2=published", d <= Fr(1, 10 ** 9), "max |m2 - Ottosson M2| = %s" % f6(d), F.loc(vals["m2"][1]))
    for a, b_ in (("m1", "m1_inv"), ("m2", "m2_inv")):
        if a in vals and b_ in vals:
            d = maxdiff(mat_mul(vals[a][0], vals[b_][0]), IDENT)
            rep.ob("CONST-OK", "oklab:%s*%s=I" % (a, b_), d <= Fr(1, 10 ** 8), "max |A*B - I| = %s" % f6(d), F.loc(vals[a][1]))
