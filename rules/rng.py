"""RANGE engine: interval abstract interpretation of symbolic values (RatFunc over application atoms).

Intervals are exact rationals (fractions.Fraction) or integers; a point interval is constant folding.
Supported atoms: to_bits (monotone on non-negative f32), from_bits, shr, shl, bitand, bitor (disjoint), int.saturating_sub,
cast:<uint>, get_unchecked / index into a registered table, round/floor.  Anything else -> Unknown.
"""
import struct
from fractions import Fraction

from . import poly
from .poly import RatFunc


class Unknown(Exception):
    pass


class RangeViolation(Exception):
    pass


def f32_bits(x):
    """bits of the f32 nearest to the non-negative rational x (exact for representable x)."""
    return struct.unpack("<I", struct.pack("<f", float(x)))[0]


def f32_of_bits(n):
    return Fraction(struct.unpack("<f", struct.pack("<I", int(n)))[0])


def f32_round(x):
    return Fraction(struct.unpack("<f", struct.pack("<f", float(x)))[0])


class Env:
    def __init__(self, atoms=None, tables=None):
        self.atoms = atoms or {}    # atom name -> (lo, hi)
        self.tables = tables or {}  # table symbol name -> list of ints
        self.events = []            # (kind, detail) side observations: index ranges, casts
        self.memo = {}              # atom id -> interval (valid for this Env's atom ranges; create a new Env when they change)


def imul(a, b):
    c = [a[0] * b[0], a[0] * b[1], a[1] * b[0], a[1] * b[1]]
    return (min(c), max(c))


def ipow(a, e):
    r = (Fraction(1), Fraction(1))
    for _ in range(e):
        r = imul(r, a)
    return r


def interval(v, env):
    """Interval of a RatFunc (constant denominator) under env."""
    if not isinstance(v, RatFunc):
        raise Unknown("not a scalar: %r" % (v,))
    if not poly.p_is_const(v.den):
        num = _poly_interval(v.num, env)
        den = _poly_interval(v.den, env)
        if den[0] <= 0 <= den[1]:
            raise Unknown("denominator interval contains 0")
        q = [num[0] / den[0], num[0] / den[1], num[1] / den[0], num[1] / den[1]]
        return (min(q), max(q))
    d = poly.p_const_value(v.den)
    lo, hi = _poly_interval(v.num, env)
    r = (lo / d, hi / d)
    return (min(r), max(r))


def _poly_interval(p, env):
    lo = hi = Fraction(0)
    for m, c in p.items():
        t = (Fraction(c), Fraction(c))
        for k, e in m:
            t = imul(t, ipow(atom_interval(poly.atom_by_id(k), env), e))
        lo += t[0]
        hi += t[1]
    return (lo, hi)


def _const_arg(a, env, what):
    lo, hi = interval(a, env)
    if lo != hi:
        raise Unknown("%s must be constant" % what)
    return lo


def atom_interval(a, env):
    if a.args:
        k = id(a)
        hit = env.memo.get(k)
        if hit is not None and hit[0] is a:
            return hit[1]
        r = _atom_interval(a, env)
        env.memo[k] = (a, r)
        return r
    return _atom_interval(a, env)


def _atom_interval(a, env):
    name = a.name
    if not a.args:
        if name in env.atoms:
            lo, hi = env.atoms[name]
            return (Fraction(lo), Fraction(hi))
        raise Unknown("unbounded atom %s" % name)
    args = a.args
    if name in ("to_bits", "float.to_bits"):
        lo, hi = interval(args[0], env)
        if lo < 0:
            raise RangeViolation("to_bits of a possibly negative float [%s, %s]: the sign bit breaks monotonicity" % (float(lo), float(hi)))
        env.events.append(("to_bits", (lo, hi)))
        if lo >= 2 ** 52:  # f64 magic-number range
            return (Fraction(struct.unpack("<Q", struct.pack("<d", float(lo)))[0]), Fraction(struct.unpack("<Q", struct.pack("<d", float(hi)))[0]))
        return (Fraction(f32_bits(lo)), Fraction(f32_bits(hi)))
    if name in ("from_bits", "float.from_bits"):
        lo, hi = interval(args[0], env)
        return (f32_of_bits(lo), f32_of_bits(hi))
    if name == "shr":
        lo, hi = interval(args[0], env)
        n = int(_const_arg(args[1], env, "shift amount"))
        if lo < 0:
            raise RangeViolation("right shift of a possibly negative (wrapped) integer [%s, %s]" % (lo, hi))
        return (Fraction(int(lo) >> n), Fraction(int(hi) >> n))
    if name == "shl":
        lo, hi = interval(args[0], env)
        n = int(_const_arg(args[1], env, "shift amount"))
        return (lo * 2 ** n, hi * 2 ** n)
    if name == "bitand":
        lo, hi = interval(args[0], env)
        mlo, mhi = interval(args[1], env)
        if mlo == mhi and lo >= 0:
            mask = int(mlo)
            if lo == hi:
                return (Fraction(int(lo) & mask),) * 2
            if (mask & (mask + 1)) == 0 and hi <= mask:
                return (lo, hi)
            return (Fraction(0), Fraction(mask))
        raise Unknown("bitand with non-constant mask")
    if name == "bitor":
        a0, a1 = interval(args[0], env), interval(args[1], env)
        if a0[0] == a0[1] and a1[0] == a1[1]:
            return (Fraction(int(a0[0]) | int(a1[0])),) * 2
        return (max(a0[0], a1[0]), a0[1] + a1[1])
    if name == "int.saturating_sub":
        a0, a1 = interval(args[0], env), interval(args[1], env)
        return (max(Fraction(0), a0[0] - a1[1]), max(Fraction(0), a0[1] - a1[0]))
    if name.startswith("cast:"):
        lo, hi = interval(args[0], env)
        t = name[5:]
        if t in ("f32", "f64"):
            return (lo, hi)
        bits = 64 if t in ("usize", "isize") else int(t[1:])
        tmax = 2 ** bits - 1
        env.events.append(("cast:" + t, (lo, hi)))
        if lo < 0 or hi > tmax:
            raise RangeViolation("cast to %s truncates: value range [%s, %s]" % (t, lo, hi))
        return (lo, hi)
    if "get_unchecked" in name or name == "index":
        tab = args[0]
        tname = repr(tab)
        data = env.tables.get(tname)
        lo, hi = interval(args[1], env)
        env.events.append(("index", (tname, lo, hi, len(data) if data is not None else None)))
        if data is None:
            raise Unknown("unknown table %s" % tname)
        if lo < 0 or hi >= len(data):
            raise RangeViolation("unchecked index range [%s, %s] not within table of length %d" % (lo, hi, len(data)))
        seg = data[int(lo): int(hi) + 1]
        return (Fraction(min(seg)), Fraction(max(seg)))
    if name in ("round", "floor", "ceil"):
        import math
        lo, hi = interval(args[0], env)
        f = {"round": lambda x: math.floor(x + Fraction(1, 2)), "floor": math.floor, "ceil": math.ceil}[name]
        return (Fraction(f(lo)), Fraction(f(hi)))
    if name in ("min", "max"):
        a0, a1 = interval(args[0], env), interval(args[1], env)
        f = min if name == "min" else max
        return (f(a0[0], a1[0]), f(a0[1], a1[1]))
    raise Unknown("no interval semantics for %s" % name)
