"""ALG engine: comparison of symbolic values (code vs reference, code vs sibling, laws)."""
from fractions import Fraction

from . import poly, sym
from .poly import RatFunc
from .sym import Ite, Struct, Tuple, Array, Bottom, StrVal, Opaque, leaves, mk_ite, mk_ite_c


# ----------------------------------------------------------- symbolic inputs ----

def split_type(t):
    """'a::B<X, Y<Z>>' -> ('a::B', ['X', 'Y<Z>'])"""
    t = t.strip()
    i = t.find("<")
    if i < 0 or not t.endswith(">"):
        return t, []
    head = t[:i]
    inner = t[i + 1:-1]
    args, depth, cur = [], 0, ""
    for ch in inner:
        if ch in "<([":
            depth += 1
        elif ch in ">)]":
            depth -= 1
        if ch == "," and depth == 0:
            args.append(cur.strip())
            cur = ""
        else:
            cur += ch
    if cur.strip():
        args.append(cur.strip())
    return head, args


def strip_ref(t):
    t = t.strip()
    while t.startswith("&"):
        t = t[1:].strip()
        if t.startswith("'"):
            t = t.split(" ", 1)[1] if " " in t else t
        if t.startswith("mut "):
            t = t[4:].strip()
    return t


def symbolic_arg(ctx, ty, prefix, depth=0, leaf=None):
    """Build a symbolic value of type `ty`: ADTs of the analysed crate are expanded into
    Structs of per-field symbols named <prefix>.<field>; everything else is one symbol."""
    F = ctx.facts
    ty = strip_ref(ty)
    head, targs = split_type(ty)
    if head in ("core::marker::PhantomData", "std::marker::PhantomData"):
        return Struct("PhantomData", {})
    if ty.startswith("(") and ty.endswith(")"):
        _, items = split_type("T<" + ty[1:-1] + ">")
        return Tuple([symbolic_arg(ctx, t, "%s.%d" % (prefix, i), depth + 1, leaf) for i, t in enumerate(items)])
    adt = F.adt_by_path.get(head)
    if adt is not None and adt["kind"] == "Struct" and depth < 4:
        gens = adt["generics"]
        sub = dict(zip(gens, targs)) if len(gens) == len(targs) else {}
        fields = {}
        for f in adt["variants"][0]["f"]:
            ft = F.S[f["t"]]
            ft = _subst(ft, sub)
            fields[f["n"]] = symbolic_arg(ctx, ft, prefix + "." + f["n"], depth + 1, leaf)
        return Struct(head, fields)
    if leaf is not None:
        return leaf(prefix, ty)
    return ctx.sym(prefix)


def _subst(t, sub):
    import re
    if not sub:
        return t
    return re.sub(r"\b[A-Za-z_][A-Za-z0-9_]*\b", lambda m: sub.get(m.group(0), m.group(0)), t)


def symbolic_args(ctx, body, names=None):
    ins = [ctx.facts.S[i] for i in body.get("ins", [])]
    out = []
    for i, t in enumerate(ins):
        nm = names[i] if names and i < len(names) and names[i] else "a%d" % i
        out.append(symbolic_arg(ctx, t, nm))
    return out


# ------------------------------------------------------------- feasibility ----

def linear_form(d):
    """d (RatFunc with constant denominator) = alpha * (p - t); returns (pkey, alpha, t) or None."""
    if not poly.p_is_const(d.den):
        return None
    den = poly.p_const_value(d.den)
    num = d.num
    k = num.get((), Fraction(0)) / den
    q = {m: c / den for m, c in num.items() if m != ()}
    if not q:
        return None
    m0 = min(q)
    alpha = q[m0]
    p = tuple(sorted((m, c / alpha) for m, c in q.items()))
    return p, alpha, -k / alpha


class Interval:
    def __init__(self):
        self.lo = None  # (value, strict)
        self.hi = None
        self.ne = set()

    def add(self, rel, t):
        if rel == "<":
            self._hi(t, True)
        elif rel == "<=":
            self._hi(t, False)
        elif rel == ">":
            self._lo(t, True)
        elif rel == ">=":
            self._lo(t, False)
        elif rel == "==":
            self._lo(t, False)
            self._hi(t, False)
        elif rel == "!=":
            self.ne.add(t)

    def _hi(self, t, strict):
        if self.hi is None or t < self.hi[0] or (t == self.hi[0] and strict):
            self.hi = (t, strict)

    def _lo(self, t, strict):
        if self.lo is None or t > self.lo[0] or (t == self.lo[0] and strict):
            self.lo = (t, strict)

    def empty(self):
        if self.lo is not None and self.hi is not None:
            if self.lo[0] > self.hi[0]:
                return True
            if self.lo[0] == self.hi[0]:
                if self.lo[1] or self.hi[1]:
                    return True
                if self.lo[0] in self.ne:
                    return True
        return False

    def point(self):
        if self.lo is not None and self.hi is not None and self.lo[0] == self.hi[0] and not self.empty():
            return self.lo[0]
        return None


_NEG = {"<": ">=", "<=": ">", "==": "!="}
_FLIP = {"<": ">", "<=": ">=", ">": "<", ">=": "<=", "==": "==", "!=": "!="}


def feasible(path, ctx, domain=None):
    """Is the conjunction of (cond, polarity) literals satisfiable (sound: never says
    infeasible for a satisfiable path)?  `domain`: optional {pkey: Interval-constraints}."""
    seen = {}
    ivs = {}
    for c, pol in path:
        if seen.setdefault(c, pol) != pol:
            return False, None
        if c[0] == "cmp":
            d = ctx._cond_rf.get(c)
            lf = linear_form(d) if d is not None else None
            if lf is None:
                continue
            p, alpha, t = lf
            rel = c[2]
            if not pol:
                rel = _NEG[rel]
            if alpha < 0:
                rel = _FLIP[rel]
            ivs.setdefault(p, Interval()).add(rel, t)
    if domain:
        for p, cons in domain.items():
            if p in ivs:
                for rel, t in cons:
                    ivs[p].add(rel, t)
    for iv in ivs.values():
        if iv.empty():
            return False, None
    return True, ivs


# -------------------------------------------------------------- comparison ----

class Mismatch:
    def __init__(self, where, a, b, path):
        self.where = where
        self.a = a
        self.b = b
        self.path = path

    def __str__(self):
        conds = " & ".join(("" if pol else "!") + "(" + sym.show_cond(c) + ")" for c, pol in self.path)
        return "%s: code=%s  expected=%s%s" % (self.where or "value", _short(self.a), _short(self.b), ("  when " + conds) if conds else "")


def _short(v, n=300):
    s = repr(v)
    return s if len(s) <= n else s[:n] + "…"


IGNORED_FIELD_TYPES = ("PhantomData",)


def compare(a, b, ctx, where="", out=None, ignore_phantom=True, domain=None):
    """Return list of Mismatch between value a (code) and b (expected)."""
    if out is None:
        out = []
    if isinstance(a, Struct) and isinstance(b, Struct):
        ka = {k for k, v in a.fields.items() if not _is_phantom(v)}
        kb = {k for k, v in b.fields.items() if not _is_phantom(v)}
        if _tail(a.path) != _tail(b.path) and b.path != "*":
            out.append(Mismatch(where, a, b, ()))
            return out
        for k in sorted(ka | kb):
            if k not in a.fields or k not in b.fields:
                out.append(Mismatch(where + "." + k, a.fields.get(k), b.fields.get(k), ()))
                continue
            compare(a.fields[k], b.fields[k], ctx, where + "." + k, out, domain=domain)
        return out
    if isinstance(a, (Tuple, Array)) and type(a) is type(b):
        if len(a.items) != len(b.items):
            out.append(Mismatch(where, a, b, ()))
            return out
        for i, (x, y) in enumerate(zip(a.items, b.items)):
            compare(x, y, ctx, "%s[%d]" % (where, i), out, domain=domain)
        return out
    # case trees
    for pa, la in leaves(a):
        ok, _ = feasible(pa, ctx, domain)
        if not ok:
            continue
        for pb, lb in leaves(b):
            ok, ivs = feasible(pa + pb, ctx, domain)
            if not ok:
                continue
            # eta: an opaque struct-valued application equals the struct of its projections
            if isinstance(la, Struct) and isinstance(lb, RatFunc) and sym._single_atom(lb) is not None and sym._single_atom(lb).args:
                lb = Struct(la.path, {k: (ctx.app("proj." + k, [lb]) if not _is_phantom(x) else x) for k, x in la.fields.items()})
            elif isinstance(lb, Struct) and isinstance(la, RatFunc) and sym._single_atom(la) is not None and sym._single_atom(la).args:
                la = Struct(lb.path, {k: (ctx.app("proj." + k, [la]) if not _is_phantom(x) else x) for k, x in lb.fields.items()})
            if isinstance(la, (Struct, Tuple, Array)) and type(la) is type(lb):
                sub = compare(la, lb, ctx, where, [], domain=domain)
                for mm in sub:
                    mm.path = pa + pb + mm.path
                    # the inner comparison did not know the outer path: drop mismatches on jointly infeasible paths
                    if feasible(mm.path, ctx, domain)[0]:
                        out.append(mm)
                continue
            if not leaf_eq(la, lb):
                # boundary point: both sides may legitimately differ in which piece owns a
                # single point if their values agree there
                if ivs and _equal_at_points(la, lb, ivs, ctx):
                    continue
                out.append(Mismatch(where, la, lb, pa + pb))
    return out


def deep_subst(rf, subs, ctx):
    """Substitute constants for plain atoms (by id) everywhere in a RatFunc, including inside application arguments
    (applications are rebuilt through ctx.app so that constant folding / canonicalisation applies)."""
    def conv(p):
        out = ctx.num(0)
        for m, c in p.items():
            t = ctx.num(c)
            for k, e in m:
                if k in subs:
                    t = t * ctx.num(Fraction(subs[k]) ** e)
                    continue
                at = poly.atom_by_id(k)
                if at.args:
                    args = [deep_subst(x, subs, ctx) if isinstance(x, RatFunc) else x for x in at.args]
                    base = ctx.app(at.name, args)
                    if not isinstance(base, RatFunc):
                        raise Opaque("substitution produced a case tree")
                else:
                    base = RatFunc.atom(at, ctx.tab)
                t = t * (base ** e)
            out = out + t
        return out
    d = conv(rf.den)
    if d.is_zero():
        raise ZeroDivisionError
    return conv(rf.num) / d


def _equal_at_points(la, lb, ivs, ctx=None):
    """If the feasible region pins some single-atom polynomial to a point, substitute."""
    if not (isinstance(la, RatFunc) and isinstance(lb, RatFunc)):
        return False
    subs = {}
    for p, iv in ivs.items():
        t = iv.point()
        if t is None:
            continue
        # p is a tuple of (monomial, coeff); single atom with exponent 1?
        if len(p) == 1 and len(p[0][0]) == 1 and p[0][0][0][1] == 1 and p[0][1] == 1:
            subs[p[0][0][0][0]] = t
    if not subs:
        return False
    try:
        if subst_atoms(la, subs).equals(subst_atoms(lb, subs)):
            return True
    except Exception:
        pass
    if ctx is not None:
        # the pinned atom may also occur inside min/max/abs/... arguments
        try:
            saved = ctx.expand_minmax
            ctx.expand_minmax = False
            try:
                return deep_subst(la, subs, ctx).equals(deep_subst(lb, subs, ctx))
            finally:
                ctx.expand_minmax = saved
        except Exception:
            return False
    return False


def subst_atoms(rf, subs):
    """Substitute constants for atoms (by id) in a RatFunc (top level only)."""
    tab = rf.tab

    def conv(p):
        r = {}
        for m, c in p.items():
            cc = c
            rest = []
            for k, e in m:
                if k in subs:
                    cc = cc * subs[k] ** e
                else:
                    rest.append((k, e))
            rest = tuple(rest)
            if cc != 0:
                v = r.get(rest, 0) + cc
                if v == 0:
                    r.pop(rest, None)
                else:
                    r[rest] = v
        return r
    n, d = conv(rf.num), conv(rf.den)
    if not d:
        raise ZeroDivisionError
    return RatFunc(n, d, tab)._norm()


def _is_phantom(v):
    return isinstance(v, Struct) and v.path.endswith("PhantomData")


def _tail(p):
    return p.split("::")[-1]


def leaf_eq(a, b):
    if isinstance(a, RatFunc) and isinstance(b, RatFunc):
        return a.equals(b)
    if isinstance(a, Bottom) or isinstance(b, Bottom):
        return isinstance(a, Bottom) and isinstance(b, Bottom)
    return sym.val_eq(a, b)


# ---------------------------------------------------------- reference DSL ----

class R:
    """Tiny DSL for writing reference formulas against an evaluator context."""

    def __init__(self, ctx):
        self.ctx = ctx
        self.ev = sym.Evaluator(ctx)

    def c(self, x):
        if isinstance(x, (int, Fraction)):
            return self.ctx.num(x)
        if isinstance(x, str):
            return self.ctx.num(Fraction(x))
        if isinstance(x, float):
            raise TypeError("use strings or Fractions for reference constants")
        return x

    def s(self, name):
        return self.ctx.sym(name)

    def add(self, *xs):
        r = self.c(xs[0])
        for x in xs[1:]:
            r = self.ev.binop("+", r, self.c(x))
        return r

    def sub(self, a, b):
        return self.ev.binop("-", self.c(a), self.c(b))

    def mul(self, *xs):
        r = self.c(xs[0])
        for x in xs[1:]:
            r = self.ev.binop("*", r, self.c(x))
        return r

    def div(self, a, b):
        return self.ev.binop("/", self.c(a), self.c(b))

    def neg(self, a):
        return self.sub(0, a)

    def pow(self, a, n):
        return sym.tree_map(lambda x: x ** n, self.c(a))

    def f(self, name, *args):
        return self.ctx.sapp(name, [self.c(a) for a in args])

    def sqrt(self, a):
        return self.f("sqrt", a)

    def cbrt(self, a):
        return self.f("cbrt", a)

    def abs(self, a):
        return self.f("abs", a)

    def min(self, a, b):
        return self.f("min", a, b)

    def max(self, a, b):
        return self.f("max", a, b)

    def clamp(self, x, lo, hi):
        return self.min(self.max(x, lo), hi)

    def powf(self, a, b):
        return self.f("powf", a, b)

    def lt(self, a, b):
        return self.ctx.cmp("<", self.c(a), self.c(b))

    def le(self, a, b):
        return self.ctx.cmp("<=", self.c(a), self.c(b))

    def gt(self, a, b):
        return self.ctx.cmp(">", self.c(a), self.c(b))

    def ge(self, a, b):
        return self.ctx.cmp(">=", self.c(a), self.c(b))

    def eq(self, a, b):
        return self.ctx.cmp("==", self.c(a), self.c(b))

    def ne(self, a, b):
        return self.ctx.cmp("!=", self.c(a), self.c(b))

    def and_(self, *xs):
        r = True
        for x in xs:
            r = sym.b_and(r, x)
        return r

    def or_(self, *xs):
        r = False
        for x in xs:
            r = sym.b_or(r, x)
        return r

    def not_(self, a):
        return sym.b_not(a)

    def ite(self, c, a, b):
        return mk_ite(c, self.c(a), self.c(b))

    def valid(self, a):
        return self.ctx.pred("valid_divisor", [self.c(a)])

    def struct(self, path, **fields):
        return Struct(path, {k: self.c(v) for k, v in fields.items()})
