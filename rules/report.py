"""Obligation bookkeeping, known findings, evidence and replay files."""
import json
import os
import time

VERIF = os.path.dirname(os.path.dirname(os.path.abspath(__file__)))
# self-test lanes write their evidence and replay files to a scratch directory, never over the evidence of the registered commands
_LANE = os.environ.get("PALETTE_LANE", "")
EVID = os.path.join(VERIF, "evidence") if not _LANE else os.path.join(VERIF, ".cache", "lane" + _LANE, "evidence")


class Report:
    def __init__(self, prop, tier, seed=0):
        self.prop = prop
        self.tier = tier
        self.seed = seed
        self.t0 = time.time()
        self.obligations = []  # dicts: rule, key, ok, detail, loc
        self.notes = []
        self.floors = {}  # rule -> (count, floor)
        self.assumptions = []
        self.trusted = []
        self.analysed = {}
        self.controls = []  # positive controls (name, fired)

    # ---- recording ----------------------------------------------------------
    def ob(self, rule, key, ok, detail="", loc=None, nontrivial=True, sample=None):
        self.obligations.append({"rule": rule, "key": key, "ok": bool(ok), "detail": detail, "loc": loc, "nontrivial": nontrivial, "sample": sample})
        return ok

    def fail(self, rule, key, detail, loc=None):
        return self.ob(rule, key, False, detail, loc)

    def note(self, s):
        self.notes.append(s)

    def floor(self, rule, count, floor):
        """Fail closed when a rule matched fewer instances than confirmed by hand."""
        self.floors[rule] = (count, floor)
        if count < floor:
            self.ob(rule, "floor:" + rule, False, "rule %s matched %d instances, floor is %d (anchor missing or construct no longer recognised)" % (rule, count, floor))

    def control(self, name, fired):
        self.controls.append((name, bool(fired)))
        if not fired:
            self.ob("CONTROL", "control:" + name, False, "positive control %s did not fire: the rule is blind" % name)

    def count(self, rule=None):
        return sum(1 for o in self.obligations if rule is None or o["rule"] == rule)

    # ---- output -------------------------------------------------------------
    def finish(self, level="other", explanation="", rule_text=""):
        known = load_known()
        viol = [o for o in self.obligations if not o["ok"]]
        new, kn = [], []
        for o in viol:
            kf = match_known(known, self.prop, o["rule"], o["key"])
            if kf is not None:
                kn.append((o, kf))
            else:
                new.append(o)
        os.makedirs(os.path.join(EVID, "replay"), exist_ok=True)
        lines = []
        for o, kf in kn:
            ln = "KNOWN-FINDING: property=%s %s [%s %s]" % (self.prop, kf.get("what", o["detail"]), o["rule"], o["key"])
            if ln not in lines:
                lines.append(ln)
        for o in new:
            rp = os.path.join(EVID, "replay", "%s-%s.json" % (self.prop, _safe(o["rule"] + "-" + o["key"])))
            with open(rp, "w") as fh:
                json.dump({"property": self.prop, "rule": o["rule"], "key": o["key"], "loc": o["loc"], "detail": o["detail"],
                           "replay": "./check %s --only '%s'" % (self.prop, o["key"])}, fh, indent=1)
            lines.append("VIOLATION property=%s replay=%s" % (self.prop, rp))
            lines.append("  rule=%s key=%s at %s" % (o["rule"], o["key"], o["loc"]))
            lines.append("  " + str(o["detail"])[:1500])
        n = len(self.obligations)
        ok = sum(1 for o in self.obligations if o["ok"])
        distinct = len({(o["rule"], o["key"]) for o in self.obligations if o["nontrivial"]})
        samples = [{"rule": o["rule"], "key": o["key"], "loc": o["loc"], "ok": o["ok"], "what": (o["sample"] or o["detail"])[:400] if (o["sample"] or o["detail"]) else ""} for o in _pick(self.obligations, 12)]
        byrule = {}
        for o in self.obligations:
            r = byrule.setdefault(o["rule"], [0, 0])
            r[0] += 1
            r[1] += 1 if o["ok"] else 0
        cov = {
            "explanation": explanation,
            "evaluations": n,
            "distinct_nontrivial": distinct,
            "rule": rule_text or "one evaluation = one rule instance (obligation) decided on the facts extracted from /repo's current tree; distinct = distinct (rule, instance key) pairs marked non-trivial (not a bare forward/identity)",
            "samples": samples,
            "obligations": n,
            "discharged": ok + len(kn),
            "checker_cmd": "./check %s --tier %s" % (self.prop, self.tier),
            "trusted_base": self.trusted,
            "per_rule": {k: {"instances": v[0], "held": v[1]} for k, v in sorted(byrule.items())},
            "floors": {k: {"count": v[0], "floor": v[1]} for k, v in self.floors.items()},
            "analysed": self.analysed,
            "controls_fired": [c[0] for c in self.controls if c[1]],
            "known_findings_matched": [kf.get("id") for _, kf in kn],
            "notes": self.notes[:60],
        }
        ev = {
            "property_id": self.prop,
            "tier": self.tier,
            "seed": self.seed,
            "level": level,
            "coverage": cov,
            "assumptions": self.assumptions,
            "wall_s": round(time.time() - self.t0, 2),
            "violations": len(new),
        }
        with open(os.path.join(EVID, self.prop + ".json"), "w") as fh:
            json.dump(ev, fh, indent=1)
        return lines, len(new)


def _pick(obs, n):
    # deterministic spread: failures first, then one per rule, then fill
    out = [o for o in obs if not o["ok"]][: n // 2]
    seen = set()
    for o in obs:
        if len(out) >= n:
            break
        if o["rule"] not in seen and o not in out and o["nontrivial"]:
            seen.add(o["rule"])
            out.append(o)
    for o in obs:
        if len(out) >= n:
            break
        if o not in out and o["nontrivial"]:
            out.append(o)
    return out


def _safe(s):
    return "".join(ch if ch.isalnum() or ch in "-_." else "_" for ch in s)[:120]


def load_known():
    p = os.path.join(VERIF, "known_findings.json")
    if not os.path.exists(p):
        return {"findings": [], "fixed": []}
    with open(p) as fh:
        return json.load(fh)


def match_known(known, prop, rule, key):
    for kf in known.get("findings", []):
        if kf.get("status", "open") != "open":
            continue
        if prop in kf.get("properties", [kf.get("property")]) and kf.get("rule") == rule and kf.get("key") == key:
            return kf
    return None
