"""C03 — clamped, checked and unclamped conversions obey one bounds contract."""
import os
import re
import shutil
import subprocess
from fractions import Fraction as Fr

from . import alg, sym, poly, facts
from .common import Session, check_value, impl_methods, apps_of, atoms_of, one
from .sym import Struct, Tuple, Ite, Opaque, mk_ite, restrict
from .poly import RatFunc

EXPLANATION = (
    "Static, all-inputs: for every colour type the bodies of IsWithinBounds::is_within_bounds, Clamp::clamp and ClampAssign::clamp_assign "
    "(resolved HIR of the macro output) are evaluated symbolically with min/max expanded into case splits, and the contract itself is "
    "discharged on them by exact interval reasoning over the comparison thresholds: is_within_bounds(clamp(c)) = true for every c, "
    "clamp(c) = c whenever is_within_bounds(c), clamp∘clamp = clamp, clamp_assign ≡ clamp, and the thresholds equal the type's public "
    "min_*/max_* accessors. HWB forms (coupled whiteness+blackness) are compared with the documented renormalisation formula instead. "
    "Blanket FromColor / TryFromColor / Alpha / slice impls are checked for composition shape. Not decided: rounding in the HWB division."
    " BOUNDS-SLICE: the slice impl ANDs in every item and exits early only when every lane of the accumulator is false."
)


def app_canon(path, targs):
    if path.endswith("WhitePoint::get_xyz"):
        return "wp"
    if path.endswith("stimulus::Stimulus::max_intensity") and targs and re.match(r"^[A-Z][A-Za-z0-9]*$", targs[0]):
        return ("num", 1)
    return None


def app_canon_m(path, targs):
    """As app_canon, but the component type's `Stimulus::max_intensity()` stays a free positive symbol M: the component type of most colour
    types may be an integer (M = 255, 65535, ...), where `One::one()` or a literal 1 is NOT the maximum."""
    r = app_canon(path, targs)
    return "M" if r == ("num", 1) else r


def app_canon_255(path, targs):
    r = app_canon(path, targs)
    return ("num", 255) if r == ("num", 1) else r


def mk_session(F, expand=True, symbolic_max=False):
    S = Session(F, app_canon={False: app_canon, True: app_canon_m, 255: app_canon_255}[symbolic_max], positive=("wp.x", "wp.y", "wp.z", "M"))
    S.ctx.expand_minmax = expand
    return S


def self_types(F, trait):
    out = {}
    for im, ms in impl_methods(F, trait):
        adt = im.get("self_adt")
        if adt and adt in F.adt_by_path:
            out.setdefault(adt, []).append((im, ms))
    return out


def all_true(v, S, domain=None):
    """Boolean tree is True on every feasible path; returns list of offending paths."""
    bad = []
    for path, leaf in sym.leaves(v):
        ok, _ = alg.feasible(path, S.ctx, domain)
        if not ok:
            continue
        if leaf is not True:
            bad.append(path)
    return bad


def show_path(path):
    return " & ".join(("" if pol else "!") + "(" + sym.show_cond(c) + ")" for c, pol in path)


HWB_TYPES = ("hwb::Hwb", "okhwb::Okhwb")


def thresholds(v, S, out=None):
    """{atom name: set of constant thresholds} appearing in comparisons of a boolean/case tree."""
    if out is None:
        out = {}
    if isinstance(v, Ite):
        d = sym.Ctx._cond_rf.get(v.c)
        if isinstance(d, RatFunc):
            lf = alg.linear_form(d)
            if lf is not None:
                p, alpha, t = lf
                if len(p) == 1 and len(p[0][0]) == 1 and p[0][0][0][1] == 1:
                    out.setdefault(poly.atom_by_id(p[0][0][0][0]).name, set()).add(t)
        thresholds(v.t, S, out)
        thresholds(v.f, S, out)
    return out


def run(F, rep, tier="quick", extra=None, only=None):
    rep.trusted += ["rustc name resolution / type check", "operator table of rules/sym.py (num::Clamp = min/max, PartialCmp = real comparisons)",
                    "exact interval / difference-constraint reasoning of rules/alg.py"]
    rep.assumptions += ["generic float component type: Stimulus::max_intensity() = 1 (STIM-MAX obligation checks the f32/f64 impls)",
                        "white point tristimulus values are positive"]
    S = mk_session(F)
    # STIM-MAX: the assumption above
    n_stim = 0
    for im, ms in impl_methods(F, "stimulus::Stimulus"):
        # the float components get max_intensity from the blanket impl `impl<T: Real + One + Zero> Stimulus for T`
        if im["self_s"] in ("f32", "f64") or (im["self_s"] in (im.get("generics") or []) and any("num::One" in p for p in im.get("preds", []))):
            b = ms.get("max_intensity")
            n_stim += 1
            try:
                v, _ = S.eval(b)
                rep.ob("STIM-MAX", "max_intensity:" + im["self_s"], isinstance(v, RatFunc) and v.is_const() and v.const_value() == 1, repr(v), F.loc(b))
            except Opaque as ex:
                rep.fail("STIM-MAX", "max_intensity:" + im["self_s"], str(ex), F.loc(b))
    rep.floor("Stimulus impl covering the float components", n_stim, 1)

    wb = self_types(F, "IsWithinBounds")
    cl = self_types(F, "Clamp")
    ca = self_types(F, "ClampAssign")
    types = sorted(set(wb) | set(cl) | set(ca))
    n_types = 0
    S_one, S_m, S_255 = S, mk_session(F, symbolic_max=True), mk_session(F, symbolic_max=255)
    rep.assumptions.append("for the HWB forms (float-only: the renormalisation divides) max_intensity() = 1; for every other type it is a free positive symbol M, "
                           "so the laws hold for integer components too and a bound written as `one()` or a literal instead of max_intensity() is a violation")
    for adt in types:
        key = adt.split("::")[-1]
        if key in ("Alpha", "PreAlpha"):
            continue
        S = S_one if adt in HWB_TYPES else S_m
        if adt not in wb or adt not in cl or adt not in ca:
            rep.fail("BOUNDS", "triple:" + key, "type implements only a part of {IsWithinBounds, Clamp, ClampAssign}: %s" % [t for t, d in (("IsWithinBounds", wb), ("Clamp", cl), ("ClampAssign", ca)) if adt in d])
            continue
        n_types += 1
        b_wb = wb[adt][0][1].get("is_within_bounds")
        b_cl = cl[adt][0][1].get("clamp")
        b_ca = ca[adt][0][1].get("clamp_assign")
        loc = F.loc(b_cl)
        try:
            args = S.args(b_cl, ["c"])
            c = args[0]
            V = S.ev.eval_body(b_cl, [c])[0]
            _, fr = S.ev.eval_body(b_ca, [c])
            VA = S.final_self(fr)
            B = S.ev.eval_body(b_wb, [c])[0]
        except (Opaque, poly.TooBig) as ex:
            rep.fail("BOUNDS", "eval:" + key, "uninterpretable: %s" % ex, loc)
            continue
        # L4: clamp_assign ≡ clamp
        check_value(rep, "BOUNDS-SIB", "clamp=clamp_assign:" + key, S, b_cl, VA, V, sample="final *self of clamp_assign equals clamp(self)")
        if adt in HWB_TYPES:
            check_hwb(F, rep, S, key, c, V, B, b_cl, b_wb)
            continue
        try:
            # L1: clamped colour is within bounds
            BV = S.ev.eval_body(b_wb, [V])[0]
            bad = all_true(BV, S)
            rep.ob("BOUNDS-LAW", "within(clamp(c)):" + key, not bad, ("clamp result not within bounds when " + show_path(bad[0])) if bad else "is_within_bounds(clamp(c)) ≡ true for all c", loc)
            # L2: identity on in-bounds colours
            W = mk_ite(B, V, c)
            check_value(rep, "BOUNDS-LAW", "clamp-identity-in-bounds:" + key, S, b_cl, W, c, sample="is_within_bounds(c) ⇒ clamp(c) = c")
            # L3: idempotent
            VV = S.ev.eval_body(b_cl, [V])[0]
            check_value(rep, "BOUNDS-LAW", "clamp-idempotent:" + key, S, b_cl, VV, V, sample="clamp(clamp(c)) = clamp(c)")
        except (Opaque, poly.TooBig) as ex:
            rep.fail("BOUNDS-LAW", "laws:" + key, "uninterpretable: %s" % ex, loc)
        # L5: thresholds = public accessors, decided at max_intensity() = 1 (floats) and = 255 (u8): a bound written with `one()` or a literal
        # where the accessor says max_intensity() (or the reverse) agrees at 1 and differs at 255
        try:
            check_accessors(F, rep, S_one, adt, key, S_one.ev.eval_body(b_wb, [S_one.args(b_wb, ["c"])[0]])[0], b_wb)
            check_accessors(F, rep, S_255, adt, key + "@max_intensity=255", S_255.ev.eval_body(b_wb, [S_255.args(b_wb, ["c"])[0]])[0], b_wb)
        except (Opaque, poly.TooBig) as ex:
            rep.fail("BOUNDS-ACC", "bounds=accessors:" + key, "uninterpretable: %s" % ex, loc)
    rep.floor("bounded colour types", n_types, 26)

    check_blankets(F, rep)
    check_slice_bounds(F, rep)
    check_slice_clamp(F, rep)
    check_contract_applies(F, rep, [t for t in types if t.split("::")[-1] not in ("Alpha", "PreAlpha") and t in wb and t in cl and t in ca])
    return {"level": "proof"}


def check_accessors(F, rep, S, adt, key, B, b_wb):
    th = thresholds(B, S)
    # inherent accessors min_<f>/max_<f>
    acc = {}
    for b in F.bodies:
        im = b["_impl"]
        if im is None or im.get("trait") or im.get("self_adt") != adt:
            continue
        m = re.match(r"^(min|max)_(\w+)$", b["name"])
        if m and not b.get("params"):
            acc.setdefault(m.group(2), {})[m.group(1)] = b
    for atom, ts in sorted(th.items()):
        fld = atom.split(".", 1)[1] if "." in atom else atom
        a = acc.get(fld)
        if a is None:
            continue
        vals = set()
        try:
            for which, b in a.items():
                v, _ = S.eval(b)
                if isinstance(v, RatFunc) and v.is_const():
                    vals.add(v.const_value())
                else:
                    vals = None
                    break
        except Opaque:
            vals = None
        if vals is None:
            continue
        # documented slack: Okhsv accepts max + MAX_SRGB_SATURATION_INACCURACY (same constant on both sides, checked by L2)
        slack = Fr(1, 10 ** 6) if key.startswith("Okhsv") else 0
        ok = all(any(abs(t - v) <= slack for v in vals) for t in ts)
        rep.ob("BOUNDS-ACC", "bounds=accessors:%s.%s" % (key, fld), ok, "thresholds %s vs min/max accessors %s" % (sorted(map(str, ts)), sorted(map(str, vals))), F.loc(b_wb))


def check_hwb(F, rep, S, key, c, V, B, b_cl, b_wb):
    """Reference: w,b <- max(.,0); s <- w+b; if s > 1: w/s, b/s."""
    R = S.R
    w, b = c.fields["whiteness"], c.fields["blackness"]
    W, Bk = R.max(w, 0), R.max(b, 0)
    s = R.add(W, Bk)
    div = R.ite(R.gt(s, 1), s, 1)
    exp_fields = dict(c.fields)
    exp_fields["whiteness"] = R.div(W, div)
    exp_fields["blackness"] = R.div(Bk, div)
    check_value(rep, "BOUNDS-REF", "hwb-clamp:" + key, S, b_cl, V, Struct(V.path if isinstance(V, Struct) else "*", exp_fields),
                sample="clamp = renormalise the lower-clamped whiteness/blackness by their sum when it exceeds 1")
    expB = R.and_(R.ge(b, 0), R.le(b, 1), R.ge(w, 0), R.le(w, 1), R.le(R.add(w, b), 1))
    check_value(rep, "BOUNDS-REF", "hwb-within:" + key, S, b_wb, B, expB, sample="0<=w<=1, 0<=b<=1, w+b<=1")


def check_slice_bounds(F, rep):
    """BOUNDS-SLICE: a slice is within bounds iff every item is.  `<[T] as IsWithinBounds>::is_within_bounds` starts from `true`, ANDs in
    *every* item's answer, and may leave the loop early only when the accumulated mask `is_false()` (every lane already false: AND can
    change nothing any more); it returns the accumulator.  Any other exit skips items whose lanes are still undecided."""
    bs = [b for b in F.bodies if b["name"] == "is_within_bounds" and b["_impl"] is not None and b["_impl"]["self_s"] == "[T]"]
    if len(bs) != 1:
        rep.fail("ANCHOR", "slice:is_within_bounds", "impl IsWithinBounds for [T]: %d bodies" % len(bs))
        return
    b = bs[0]
    problems = []
    acc = None
    for n, parents in facts.walk(b["body"]):
        if n.get("k") == "assignop":
            tgt = n["a"][0].get("res", {}).get("n") if n["a"][0].get("k") == "path" else None
            rhs = n["a"][1]
            if n.get("op") != "&=" or tgt is None or not (rhs.get("k") == "mcall" and rhs.get("n") == "is_within_bounds"):
                problems.append("accumulation is not `acc &= item.is_within_bounds()`")
            acc = tgt
            if any(p.get("k") == "if" for p in parents):
                problems.append("the accumulation is conditional")
    if acc is None:
        problems.append("no `&=` accumulation of the items' answers")
    for n, parents in facts.walk(b["body"]):
        if n.get("k") in ("break", "ret") and not (parents and parents[-1].get("src") == "ForLoopDesugar") and not any(p.get("src") == "ForLoopDesugar" and p.get("k") == "match" and n in [a.get("b") for a in p.get("arms", [])] for p in parents):
            ifs = [p for p in parents if p.get("k") == "if"]
            ok = False
            if len(ifs) == 1:
                c = ifs[0]["c"]
                ok = c.get("k") == "mcall" and c.get("n") == "is_false" and c["r"].get("k") == "path" and c["r"].get("res", {}).get("n") == acc \
                    and any(n is x for x, _p in facts.walk(ifs[0].get("th")))
            if not ok:
                problems.append("early exit that is not `if %s.is_false() { break }`" % (acc or "acc"))
    tail = b["body"].get("e") or {}
    if not (tail.get("k") == "path" and tail.get("res", {}).get("n") == acc):
        problems.append("does not return the accumulator")
    inits = [n for n, _p in facts.walk(b["body"]) if n.get("k") == "let" and isinstance(n.get("pat"), dict) and n["pat"].get("n") == acc]
    if not (len(inits) == 1 and inits[0]["init"].get("k") == "call" and inits[0]["init"]["c"].get("n") == "from_bool"
            and inits[0]["init"]["a"][0].get("lit", {}).get("v") == "true"):
        problems.append("accumulator does not start from from_bool(true)")
    rep.ob("BOUNDS-SLICE", "<[T] as IsWithinBounds>::is_within_bounds", not problems,
           "; ".join(problems) if problems else "true, &= every item, early exit only when every lane is false, returns the accumulator", F.loc(b))


def check_slice_clamp(F, rep):
    """BOUNDS-SLICE (clamp): clamping a slice clamps *every* element in place with the element's own clamp_assign and nothing else (the
    symbolic evaluator models a loop over the whole slice as one element-wise update; a loop over part of it, or over a zip of two
    halves, is not of that form)."""
    from .c10 import _first_app_name
    from .c08 import _find_apps
    ims = [im for im in F.find_impls(trait="ClampAssign") if im["self_s"] == "[T]"]
    if len(ims) != 1:
        rep.fail("ANCHOR", "slice:clamp_assign", "impl ClampAssign for [T]: %d impls" % len(ims))
        return
    b = F.impl_method(ims[0], "clamp_assign")
    S = Session(F)
    try:
        args = S.args(b, ["s"])
        _, fr = S.ev.eval_body(b, args)
        v = S.final_self(fr)
        ok = isinstance(v, Struct) and v.path == "<elementwise>"
        detail = repr(v)[:240]
        if ok:
            el = v.fields["elem"]
            nm = _first_app_name(el) or ""
            at = _find_apps(el, lambda n_: n_ == nm)
            ok = nm.startswith("mut0:ClampAssign::clamp_assign<") and len(at) == 1 and len(at[0].args) == 1 and sym.val_eq(at[0].args[0], S.ctx.sym("s[i]"))
        rep.ob("BOUNDS-SLICE", "<[T] as ClampAssign>::clamp_assign", ok, detail, F.loc(b))
    except (Opaque, poly.TooBig) as ex:
        rep.fail("BOUNDS-SLICE", "<[T] as ClampAssign>::clamp_assign", "not an element-wise update of the whole slice: %s" % ex, F.loc(b))


def check_blankets(F, rep):
    S = Session(F)
    # FromColor::from_color = clamp(from_color_unclamped(t)) and nothing else
    ims = [im for im in F.find_impls(trait="convert::from_into_color::FromColor") if im["self_s"] == "U"]
    if len(ims) != 1:
        rep.fail("ANCHOR", "blanket:FromColor", "blanket impl count %d" % len(ims))
    else:
        b = F.impl_method(ims[0], "from_color")
        try:
            v, _ = S.eval(b, names=["t"])
            ok = isinstance(v, RatFunc) and re.match(r"^Clamp::clamp<U>\(convert::from_into_color_unclamped::FromColorUnclamped::from_color_unclamped<U,T>\(t\)\)$", repr(v)) is not None
            rep.ob("BOUNDS-COMP", "from_color=clamp∘unclamped", ok, repr(v), F.loc(b))
        except Opaque as ex:
            rep.fail("BOUNDS-COMP", "from_color=clamp∘unclamped", str(ex), F.loc(b))
    # TryFromColor
    ims = [im for im in F.find_impls(trait="convert::try_from_into_color::TryFromColor") if im["self_s"] == "U"]
    if len(ims) != 1:
        rep.fail("ANCHOR", "blanket:TryFromColor", "blanket impl count %d" % len(ims))
    else:
        b = F.impl_method(ims[0], "try_from_color")
        try:
            v, _ = S.eval(b, names=["t"])
            unc = "convert::from_into_color_unclamped::FromColorUnclamped::from_color_unclamped<U,T>(t)"
            ok = False
            detail = repr(v)
            if isinstance(v, Ite) and v.c[0] == "pred" and v.c[1] == "bool":
                cond_s = v.c[3][0]
                okv, errv = v.t, v.f
                ok = ("IsWithinBounds::is_within_bounds" in cond_s and unc in cond_s
                      and isinstance(okv, Struct) and okv.path.endswith("Ok") and repr(okv.fields["0"]) == unc
                      and isinstance(errv, Struct) and errv.path.endswith("Err") and unc in repr(errv.fields["0"]))
                if ok:
                    e0 = errv.fields["0"]
                    ok = isinstance(e0, Struct) and set(e0.fields) == {"color"} and repr(e0.fields["color"]) == unc
            rep.ob("BOUNDS-COMP", "try_from_color", ok, "in bounds ⇒ Ok(unclamped), else Err(OutOfBounds{color: unclamped}): " + detail[:300], F.loc(b))
        except Opaque as ex:
            rep.fail("BOUNDS-COMP", "try_from_color", str(ex), F.loc(b))
    # containers: Vec<U> / Box<[U]> : FromColor maps every element with the CLAMPING conversion (the unclamped twin lives in the other module)
    from .c13 import callees
    n_cont = 0
    for tr, fn, other in (("convert::from_into_color::FromColor", "from_color", "from_color_unclamped"),):
        for im, ms in impl_methods(F, tr):
            sname = im["self_s"]
            if not sname.startswith(("std::vec::Vec<", "std::boxed::Box<[")):
                continue
            b = ms.get(fn)
            if b is None:
                continue
            n_cont += 1
            convs = [p_.split("::")[-1] for p_, a, nn, pp in callees(F, b) if re.search(r"::(from|into)_color(_unclamped)?$", p_)]
            rep.ob("BOUNDS-COMP", "container:%s[%s]" % (fn, sname), convs == [fn],
                   "elements are converted with %s (expected exactly the clamping %s; %s would leave out-of-range components in a FromColor result)" % (convs, fn, other), F.loc(b))
    rep.floor("container FromColor impls", n_cont, 2)
    # OutOfBounds::color is a projection
    for b in F.find_bodies(name="color", path_contains="OutOfBounds"):
        try:
            v, _ = S.eval(b, names=["e"])
            rep.ob("BOUNDS-COMP", "OutOfBounds::color", repr(v) == "e.color", repr(v), F.loc(b))
        except Opaque as ex:
            rep.fail("BOUNDS-COMP", "OutOfBounds::color", str(ex), F.loc(b))
    # Alpha: colour and alpha clamped separately, with the stimulus bounds; twins agree
    S2 = Session(F, app_canon=app_canon)
    for tr, m in (("Clamp", "clamp"), ("ClampAssign", "clamp_assign"), ("IsWithinBounds", "is_within_bounds")):
        ims = [im for im in F.find_impls(trait=tr, self_adt="alpha::alpha::Alpha")]
        if len(ims) != 1:
            rep.fail("ANCHOR", "alpha:" + tr, "impl count %d" % len(ims))
            continue
        b = F.impl_method(ims[0], m)
        try:
            args = S2.args(b, ["c"])
            v, fr = S2.ev.eval_body(b, args)
            if m == "clamp_assign":
                v = S2.final_self(fr)
            c = args[0]
            R = S2.R
            if m in ("clamp", "clamp_assign"):
                colour = v.fields["color"] if isinstance(v, Struct) else None
                ok = isinstance(v, Struct) and {x for x in atoms_of(colour) if not x.startswith("@")} == {"c.color"} \
                    and any(a.startswith("Clamp") or ":Clamp" in a for a in apps_of(colour))
                exp_alpha = R.clamp(c.fields["alpha"], 0, 1)
                mm = alg.compare(v.fields["alpha"], exp_alpha, S2.ctx) if ok else ["shape"]
                rep.ob("BOUNDS-ALPHA", "alpha:" + m, ok and not mm, "colour part clamps c.color only; alpha = clamp(alpha, 0, max_intensity): %s" % repr(v)[:300], F.loc(b))
            else:
                ats = atoms_of(v)
                ok = "c.color" in {x for x in ats} and "c.alpha" in ats
                rep.ob("BOUNDS-ALPHA", "alpha:" + m, ok, repr(v)[:300], F.loc(b))
        except (Opaque, KeyError, AttributeError) as ex:
            rep.fail("BOUNDS-ALPHA", "alpha:" + m, "uninterpretable: %s" % ex, F.loc(b))
        # the alpha type is any Stimulus, integers included: its upper bound is `max_intensity()` (255 for u8), which equals `one()` only for
        # floats.  Re-evaluate with max_intensity as a free positive symbol M and require clamp(alpha, 0, M) / a test against M.
        try:
            S3 = Session(F, app_canon=lambda path, targs: "M" if path.endswith("stimulus::Stimulus::max_intensity") else None, positive=("M",))
            S3.ctx.expand_minmax = True
            args = S3.args(b, ["c"])
            v, fr = S3.ev.eval_body(b, args)
            if m == "clamp_assign":
                v = S3.final_self(fr)
            M = S3.ev.uninterpreted("M", [])
            al = args[0].fields["alpha"]
            if m != "is_within_bounds":
                mm = alg.compare(v.fields["alpha"], S3.R.clamp(al, 0, M), S3.ctx)
                rep.ob("BOUNDS-ALPHA", "alpha-max:" + m, not mm, "alpha = clamp(alpha, 0, Stimulus::max_intensity()) for every Stimulus, integer alpha included"
                       + ((": " + "; ".join(str(x) for x in mm[:2])) if mm else ""), F.loc(b))
            else:
                rep.ob("BOUNDS-ALPHA", "alpha-max:" + m, "M" in atoms_of(v), "the upper alpha test is against Stimulus::max_intensity(): %s" % alg._short(v, 160), F.loc(b))
        except (Opaque, KeyError, AttributeError) as ex:
            rep.fail("BOUNDS-ALPHA", "alpha-max:" + m, "uninterpretable: %s" % ex, F.loc(b))


# ------------------------------------------------------------------------------------ BOUNDS-APPLY (compiler-decided witness)
def check_contract_applies(F, rep, types):
    """The laws above are about impl BODIES; they say nothing if the impl's where-clause excludes the types users have.  A generated witness
    crate lets rustc's trait solver decide, for every bounded colour type X and f32 / f64 components, that X, Alpha<X, T> and [X] implement
    the contract traits, and that the Alpha form is an admissible target of the checked conversion (`IsWithinBounds<Mask = bool>`).  (Without `Alpha<X, T>: IsWithinBounds`, method
    resolution silently falls through Deref to the colour's impl and the alpha is never tested.)"""
    from .c04 import META, public_path
    wdir = os.path.join(os.path.dirname(os.path.dirname(os.path.abspath(__file__))), "witness_c03") if not facts.LANE else os.path.join(facts.CACHE, "lane" + facts.LANE, "witness_c03")
    os.makedirs(os.path.join(wdir, "src"), exist_ok=True)
    lines = ["// generated by rules/c03.py from the facts of /repo's current tree - do not edit", "#![allow(unused_imports, dead_code)]",
             "use palette::{Alpha, Clamp, ClampAssign, IsWithinBounds};", "use palette::convert::TryFromColor;",
             "fn within<T: IsWithinBounds + ?Sized>() {}", "fn clamp<T: Clamp>() {}", "fn clamp_assign<T: ClampAssign + ?Sized>() {}",
             "fn within_bool<T: IsWithinBounds<Mask = bool>>() {}", ""]
    rows = {}   # line number -> (key, what)
    n_types = 0
    for adt_path in types:
        adt = F.adt_by_path.get(adt_path)
        if adt is None or not adt["pub"]:
            continue
        n_types += 1
        for comp in ("f32", "f64"):
            targs, ok = [], True
            for g in adt["generics"]:
                if g == "T":
                    targs.append(comp)
                elif g in META:
                    targs.append(META[g])
                else:
                    ok = False
            if not ok:
                rep.fail("BOUNDS-APPLY", "instantiate:" + adt_path, "unknown generic parameter in %s" % adt["generics"])
                break
            x = "%s<%s>" % (public_path(adt_path), ", ".join(targs)) if targs else public_path(adt_path)
            name = adt_path.split("::")[-1]
            for form, ty in (("plain", x), ("Alpha", "Alpha<%s, %s>" % (x, comp)), ("slice", "[%s]" % x), ("slice of Alpha", "[Alpha<%s, %s>]" % (x, comp))):
                for fn, tr in (("within", "IsWithinBounds"), ("clamp", "Clamp"), ("clamp_assign", "ClampAssign")):
                    if form.startswith("slice") and tr == "Clamp":
                        continue
                    lines.append("const _: fn() = || %s::<%s>();" % (fn, ty))
                    rows[len(lines)] = ("%s:%s<%s,%s>" % (tr, form, name, comp), "%s: %s" % (ty, tr))
            # what the blanket TryFromColor impl needs of its target besides the unclamped conversion
            lines.append("const _: fn() = || within_bool::<Alpha<%s, %s>>();" % (x, comp))
            rows[len(lines)] = ("TryFromColor-target:Alpha<%s,%s>" % (name, comp), "Alpha<%s, %s>: IsWithinBounds<Mask = bool>" % (x, comp))
    with open(os.path.join(wdir, "src", "lib.rs"), "w") as fh:
        fh.write("\n".join(lines) + "\n")
    with open(os.path.join(wdir, "Cargo.toml"), "w") as fh:
        fh.write('[package]\nname = "witness_c03"\nversion = "0.0.0"\nedition = "2021"\n\n[workspace]\n\n[dependencies]\npalette = { path = "%s/palette", default-features = false, features = ["std"] }\n' % facts.REPO)
    lock = os.path.join(facts.REPO, "Cargo.lock")
    if os.path.exists(lock):
        shutil.copy(lock, os.path.join(wdir, "Cargo.lock"))
    env = dict(os.environ, CARGO_TARGET_DIR=os.path.join(facts.CACHE, "tgt", "witness_c03" + facts.LANE), CARGO_NET_OFFLINE="true", RUSTFLAGS="-Awarnings")
    with facts.Lock("witness_c03" + facts.LANE):
        r = subprocess.run(["cargo", "+nightly", "check", "--offline", "-q", "--message-format=short"], cwd=wdir, env=env,
                           stdout=subprocess.PIPE, stderr=subprocess.STDOUT, text=True)
    failed = {}
    other = []
    for l in r.stdout.splitlines():
        m = re.match(r"^src/lib\.rs:(\d+):\d+: error(\[E\d+\])?: (.*)$", l)
        if m and int(m.group(1)) in rows:
            failed.setdefault(int(m.group(1)), m.group(3))
        elif l.startswith("error") and "could not compile" not in l and "aborting" not in l:
            other.append(l)
    if r.returncode != 0 and not failed:
        rep.fail("BOUNDS-APPLY", "witness-crate", "witness does not compile: " + " | ".join((other or r.stdout.splitlines())[:6]), "witness_c03/src/lib.rs")
        return
    for ln, (key, what) in sorted(rows.items()):
        rep.ob("BOUNDS-APPLY", key, ln not in failed, ("rustc: " + failed[ln]) if ln in failed else what + " (decided by rustc's trait solver)",
               "witness_c03/src/lib.rs:%d" % ln)
    rep.floor("bounded colour types in the contract witness", n_types, 26)
