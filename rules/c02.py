"""C02 — conversions match the published colorimetric definitions (ALG-REF + CONST)."""
from fractions import Fraction as Fr

from . import convrefs as CR
from . import alg, sym, consts
from .common import Session, check_ref, check_value, one
from .sym import Struct, Opaque

EXPLANATION = (
    "Static, all-inputs over the reals: each directly implemented FromColorUnclamped body (resolved HIR of /repo's current tree) is "
    "normalised into a case tree of exact rational functions over uninterpreted transcendental atoms and compared with the published "
    "definition transcribed in rules/convrefs.py (CIE 15 xyY / L*a*b* / L*u*v* and polar forms, hexcone HSV/HSL/HWB, Oklab matrices, "
    "transfer functions); Rgb->Hsv/Hsl (scalar and mask-generic arms) are compared with the hexcone model on each of the 26 sign/ordering regions of (r,g,b); literal tables (matrices, white points, knee constants) are checked by exact/decimal arithmetic against the "
    "standards' values. Not decided: accuracy of powf/cbrt/atan2 and tolerance over the gamut."
    " OK-REF: the Oklab <-> Okhsl / Okhsv bodies against Ottosson's algorithm (helpers uninterpreted, end-point shortcuts included). ALIAS: the named-standard aliases resolve to the standard their name says."
)


def app_canon(path, targs):
    if path.endswith("WhitePoint::get_xyz"):
        return "wp"
    return None


# (target adt, source adt) -> reference
DIRECT = {
    ("yxy::Yxy", "xyz::Xyz"): CR.yxy_from_xyz,
    ("xyz::Xyz", "yxy::Yxy"): CR.xyz_from_yxy,
    ("lab::Lab", "xyz::Xyz"): CR.lab_from_xyz,
    ("xyz::Xyz", "lab::Lab"): CR.xyz_from_lab,
    ("luv::Luv", "xyz::Xyz"): CR.luv_from_xyz,
    ("xyz::Xyz", "luv::Luv"): CR.xyz_from_luv,
    ("rgb::rgb::Rgb", "hsv::Hsv"): CR.rgb_from_hsv,
    ("rgb::rgb::Rgb", "hsl::Hsl"): CR.rgb_from_hsl,
    ("hsv::Hsv", "hsl::Hsl"): CR.hsv_from_hsl,
    ("hsl::Hsl", "hsv::Hsv"): CR.hsl_from_hsv,
    ("hwb::Hwb", "hsv::Hsv"): CR.hwb_from_hsv,
    ("hsv::Hsv", "hwb::Hwb"): CR.hsv_from_hwb,
    ("okhwb::Okhwb", "okhsv::Okhsv"): lambda R, c: CR.hwb_from_hsv(R, c, "okhwb::Okhwb", extra=False),
    ("okhsv::Okhsv", "okhwb::Okhwb"): lambda R, c: CR.hsv_from_hwb(R, c, "okhsv::Okhsv", extra=False),
}

# polar <-> rectangular pairs: (polar adt, rect adt, hue type, rect a, rect b, passthrough fields, chroma field)
POLAR = [
    ("lch::Lch", "lab::Lab", "hues::LabHue", "a", "b", ["l"], "chroma", True),
    ("lchuv::Lchuv", "luv::Luv", "hues::LuvHue", "u", "v", ["l"], "chroma", True),
    ("oklch::Oklch", "oklab::Oklab", "hues::OklabHue", "a", "b", ["l"], "chroma", False),
    ("cam16::ucs_jmh::Cam16UcsJmh", "cam16::ucs_jab::Cam16UcsJab", "hues::Cam16Hue", "a", "b", ["lightness"], "colorfulness", False),
]


def conv_impls(F):
    out = {}
    for im in F.find_impls(trait="convert::from_into_color_unclamped::FromColorUnclamped"):
        if im["derived"]:
            continue
        b = F.impl_method(im, "from_color_unclamped")
        if b is None:
            continue
        src = sym._adt_of_type(im["trait_args_s"][0])
        out.setdefault((im.get("self_adt"), src), []).append((im, b))
    return out


def check_luma_edges(F, rep, S, impls):
    """ALG-REF for the four hand-written Luma edges.  The transfer function stays uninterpreted (C05 decides it); what is decided is WHICH
    function is applied (the luma standard's own, decode on the way out of Luma, encode on the way in), to WHICH component, and that the
    chromaticity of a gray is the white point's: Xyz = wp * Y, Yxy = (wp.x / sum(wp), wp.y / sum(wp), Y).  Together with conv:Yxy<-Xyz this makes
    Luma -> Yxy equal to Luma -> Xyz -> Yxy whenever wp.y = 1 (CONST-WP)."""
    LUMA = "luma::luma::Luma"
    n = 0
    for tgt, src in ((LUMA, "xyz::Xyz"), (LUMA, "yxy::Yxy"), ("xyz::Xyz", LUMA), ("yxy::Yxy", LUMA)):
        lst = impls.get((tgt, src), [])
        key = "%s<-%s" % (tgt.split("::")[-1], src.split("::")[-1])
        if len(lst) != 1:
            rep.fail("ANCHOR", "conv:" + key, "expected exactly one hand-written impl, found %d" % len(lst))
            continue
        im, b = lst[0]
        n += 1
        luma_ty = im["self_s"] if tgt == LUMA else im["trait_args_s"][0]
        targs = alg.split_type(luma_ty)[1]
        st, t = targs[0], targs[1]

        def ref(R, c, tgt=tgt, src=src, st=st, t=t):
            tf = "<%s as luma::LumaStandard>::TransferFn,%s,%s" % (st, t, t)
            if tgt == LUMA:
                y = c.fields["y"] if src == "xyz::Xyz" else c.fields["luma"]
                return Struct(LUMA, {"luma": S.ev.uninterpreted("encoding::FromLinear::from_linear<%s>" % tf, [y]), "standard": CR.PH})
            lin = S.ev.uninterpreted("encoding::IntoLinear::into_linear<%s>" % tf, [c.fields["luma"]])
            xn, yn, zn = CR.wp(R)
            if tgt == "xyz::Xyz":
                return Struct(tgt, {"x": R.mul(xn, lin), "y": R.mul(yn, lin), "z": R.mul(zn, lin), "white_point": CR.PH})
            sm = R.add(xn, yn, zn)
            ok = R.valid(sm)   # the guard of Yxy<-Xyz, through which the code derives the chromaticity; always true for a real white point
            return Struct(tgt, {"x": R.ite(ok, R.div(xn, sm), 0), "y": R.ite(ok, R.div(yn, sm), 0), "luma": lin, "white_point": CR.PH})
        check_ref(rep, "ALG-REF", "conv:" + key, S, b, ref, names=["c"])
    rep.floor("luma edges", n, 4)


def run(F, rep, tier="quick", extra=None, only=None):
    rep.trusted += ["rustc name resolution / type check", "operator table of rules/sym.py", "published definitions transcribed in rules/convrefs.py and rules/consts.py",
                    "axioms: cbrt(x)^3=x, sqrt(x)^2=x, powf(x,1/3)=cbrt(x)"]
    S = Session(F, app_canon=app_canon, positive=("wp.x", "wp.y", "wp.z"))
    rep.assumptions.append("white point tristimulus values wp.x, wp.y, wp.z are positive (CONST-WP checks the literals)")
    impls = conv_impls(F)
    # ------------------------------------------------------------ direct conversions
    for (tgt, src), ref in DIRECT.items():
        lst = impls.get((tgt, src), [])
        key = "%s<-%s" % (tgt.split("::")[-1], src.split("::")[-1])
        if len(lst) != 1:
            rep.fail("ANCHOR", "conv:" + key, "expected exactly one hand-written impl, found %d" % len(lst))
            continue
        im, b = lst[0]
        check_ref(rep, "ALG-REF", "conv:" + key, S, b, lambda R, c, ref=ref: ref(R, c), names=["c"])
    # ------------------------------------------------------------ luma edges: Y is the linear luma; a gray sits at the white point's chromaticity
    check_luma_edges(F, rep, S, impls)
    # ------------------------------------------------------------ polar forms
    for polar, rect, huety, fa, fb, keep, chroma, phantom in POLAR:
        pk, rk = polar.split("::")[-1], rect.split("::")[-1]
        lst = impls.get((polar, rect), [])
        if len(lst) != 1:
            rep.fail("ANCHOR", "conv:%s<-%s" % (pk, rk), "impl not found (%d)" % len(lst))
        else:
            im, b = lst[0]

            def exp_polar(R, c, polar=polar, huety=huety, fa=fa, fb=fb, keep=keep, chroma=chroma, phantom=phantom):
                f = CR.polar_from_rect(R, polar, huety, c.fields[fa], c.fields[fb])
                out = {k: c.fields[k] for k in keep}
                out[chroma] = f["chroma_value"]
                out["hue"] = f["hue_value"]
                if phantom:
                    out["white_point"] = CR.PH
                return Struct(polar, out)
            check_ref(rep, "ALG-REF", "conv:%s<-%s" % (pk, rk), S, b, exp_polar, names=["c"])
        lst = impls.get((rect, polar), [])
        if len(lst) != 1:
            rep.fail("ANCHOR", "conv:%s<-%s" % (rk, pk), "impl not found (%d)" % len(lst))
        else:
            im, b = lst[0]

            def exp_rect(R, c, rect=rect, fa=fa, fb=fb, keep=keep, chroma=chroma, phantom=phantom):
                a, b_ = CR.rect_from_polar(R, c.fields[chroma], c.fields["hue"].fields["0"])
                out = {k: c.fields[k] for k in keep}
                out[fa], out[fb] = a, b_
                if phantom:
                    out["white_point"] = CR.PH
                return Struct(rect, out)
            check_ref(rep, "ALG-REF", "conv:%s<-%s" % (rk, pk), S, b, exp_rect, names=["c"])

    # ------------------------------------------------------------ Rgb -> Hsv / Hsl: both arms against the hexcone model, per ordering region
    from .c17 import check_arms
    check_arms(F, rep, tier)
    # ------------------------------------------------------------ same-space shortcuts (TypeId guards)
    from .c01 import check_guards
    check_guards(F, rep, S)
    # ------------------------------------------------------------ constant tables
    consts.check_rgb_spaces(F, rep, S)
    consts.check_white_points(F, rep, S)
    consts.check_transfer_functions(F, rep, S)
    consts.check_oklab_matrices(F, rep, S)
    from .c14 import check_matrix_direction
    check_matrix_direction(F, rep)   # which matrix flows into which direction (shared with C14)
    from .c15 import check_ok_conversions
    check_ok_conversions(F, rep)   # Ottosson's Okhsl / Okhsv algorithms (shared with C15)
    from . import aliasrule
    aliasrule.check(F, rep, "C02", 19)
    return {"level": "other"}
