"""C14 — white stays white and neutrals stay neutral across spaces and adaptations."""
import re
from fractions import Fraction as Fr

from . import alg, sym, poly, consts, facts
from .common import Session, check_value, impl_methods, apps_of, atoms_of
from .sym import Struct, Tuple, Array, Ite, Opaque
from .poly import RatFunc
from .c02 import app_canon, conv_impls

EXPLANATION = (
    "Static. CONST (exact arithmetic on the literals): all 16 white points equal the ASTM E308 / CIE 15 table (DCI from its xy); every "
    "RgbSpace's matrix pair is a mutual inverse, equals the matrix derived from its primaries and white point, and its row sums are the "
    "white point (RGB(1,1,1) -> white); the LMS matrices (von Kries, Bradford, unit), CAM16's M16 and Oklab's M1/M2 are inverse pairs. "
    "ALG-LAW (symbolic, all inputs): multiply_3x3_and_vec3 / multiply_3x3 are the matrix products, multiply_3x3(a, matrix_inverse(a)) = I, "
    "Matrix3::then(a,b).convert(v) = b.convert(a.convert(v)), identity().convert(v) = v, invert uses matrix_inverse; diagonal_matrix's gain is "
    "output/input per cone; adaptation_matrix = to-LMS(input) ▸ diag ▸ from-LMS(output) with one method M, hence maps the source white onto "
    "the destination white given the inverse pairs; equal white points take the identity arm. NEUTRAL (symbolic substitution): for xyz = "
    "k·white the Lab/Luv normal forms give a=b=0, u=v=0 and L=100 at k=1; Lch/Lchuv chroma = hypot(0,0); Luma<->Rgb copies the channel. "
    "Not decided: Oklab(1,0,0) and CAM16 J=100 for white beyond the reported numeric residuals."
    " ADAPT-NORM: caller-supplied white points reach the diagonal normalised. ALIAS: Lms aliases name their matrix."
)


def check_default_method(F, rep):
    """ADAPT-DEFAULT: the two provided methods without a method argument (`adapt_from_unclamped`, `adapt_into_unclamped`) are documented to
    use Bradford and must use the *same* method -- adapting there with one and back with the other is only the identity if they agree."""
    got = {}
    for path in ("chromatic_adaptation::AdaptFromUnclamped::adapt_from_unclamped", "chromatic_adaptation::AdaptIntoUnclamped::adapt_into_unclamped"):
        try:
            b = F.fn(path)
        except facts.AnchorMissing as ex:
            rep.fail("ANCHOR", "adapt-default:" + path.split("::")[-1], str(ex))
            continue
        ms = set()
        for node, _p in facts.walk(b["body"]):
            c = node.get("c")
            if isinstance(c, dict) and "d" in c and F.S[c["d"]].split("::")[-1].endswith("_with"):
                ms |= {F.S[a] for a in c.get("a", []) if F.S[a].startswith("lms::matrix::")}
        got[path.split("::")[-1]] = ms
        rep.ob("ADAPT", "default-method:" + path.split("::")[-1], ms == {"lms::matrix::Bradford"}, "forwards to the _with form with %s (documented default: Bradford)" % sorted(ms), F.loc(b))
    if len(got) == 2:
        a, b_ = list(got.values())
        rep.ob("ADAPT", "default-methods-agree", a == b_ and len(a) == 1, "from: %s, into: %s" % (sorted(a), sorted(b_)))


def check_matrix_direction(F, rep):
    """MATRIX-DIR: `Xyz::matrix_from_rgb` is built from RGB->XYZ matrices only and `Rgb::matrix_from_xyz` from XYZ->RGB ones, where a matrix's
    direction is that of its source (`RgbSpace::rgb_to_xyz_matrix` / `matrix::rgb_to_xyz_matrix`: RGB->XYZ; `RgbSpace::xyz_to_rgb_matrix`:
    XYZ->RGB) flipped once per `matrix_inverse` it passes through (as a call around it, or as `.map(matrix_inverse)` on it).  A fallback that
    takes the other direction's pre-defined matrix without inverting it converts white to a non-white."""
    WANT = {"matrix_from_rgb": "rgb->xyz", "matrix_from_xyz": "xyz->rgb"}
    n = 0
    for b in F.bodies:
        if b["name"] not in WANT or "::test" in b["path"] or b["dk"] not in ("Fn", "AssocFn"):
            continue
        if not b["file"].endswith(("palette/src/xyz.rs", "rgb/rgb.rs")):
            continue
        n += 1
        problems, seen = [], 0

        def fn_of(node):
            c = node.get("c")
            if isinstance(c, dict) and "d" in c:
                return F.S[c["d"]]
            r = node.get("res") if node.get("k") == "path" else None
            if isinstance(r, dict) and isinstance(r.get("c"), dict) and "d" in r["c"]:
                return F.S[r["c"]["d"]]
            return None

        def is_inv(node):
            f = fn_of(node)
            return bool(f) and f.endswith("matrix_inverse")
        for node, parents in facts.walk(b["body"]):
            f = fn_of(node)
            if not f or not f.endswith(("rgb_to_xyz_matrix", "xyz_to_rgb_matrix")):
                continue
            seen += 1
            base = "rgb->xyz" if f.endswith("rgb_to_xyz_matrix") else "xyz->rgb"
            flips = 0
            chain = list(parents) + [node]
            for i_, p_ in enumerate(chain[:-1]):
                child = chain[i_ + 1]
                # inside the argument list of matrix_inverse(..)
                if p_.get("k") == "call" and is_inv(p_) and any(child is a_ for a_ in p_.get("a", [])):
                    flips += 1
                # receiver of .map(matrix_inverse) / .map(|m| matrix_inverse(m))
                if p_.get("k") == "mcall" and p_.get("n") in ("map", "and_then") and child is p_.get("r") \
                        and any(is_inv(x) for a_ in p_.get("a", []) for x, _q in facts.walk(a_)):
                    flips += 1
            # a source bound to a local first (`let m = rgb_to_xyz_matrix(); matrix_inverse(m)`): count the inversions around the uses of the local
            for p_ in chain[:-1]:
                if p_.get("k") == "let" and isinstance(p_.get("pat"), dict) and p_["pat"].get("k") == "bind" and p_.get("init") is not None \
                        and any(node is x for x, _q in facts.walk(p_["init"])):
                    nm_ = p_["pat"]["n"]
                    use_flips = set()
                    for u, ups in facts.walk(b["body"]):
                        if u.get("k") == "path" and isinstance(u.get("res"), dict) and u["res"].get("k") == "local" and u["res"].get("n") == nm_:
                            uc = list(ups) + [u]
                            f2 = 0
                            for j_, q_ in enumerate(uc[:-1]):
                                ch = uc[j_ + 1]
                                if q_.get("k") == "call" and is_inv(q_) and any(ch is a_ for a_ in q_.get("a", [])):
                                    f2 += 1
                                if q_.get("k") == "mcall" and q_.get("n") in ("map", "and_then") and ch is q_.get("r") \
                                        and any(is_inv(x) for a_ in q_.get("a", []) for x, _q2 in facts.walk(a_)):
                                    f2 += 1
                            use_flips.add(f2 % 2)
                    if len(use_flips) == 1:
                        flips += use_flips.pop()
            d = base if flips % 2 == 0 else ("xyz->rgb" if base == "rgb->xyz" else "rgb->xyz")
            if d != WANT[b["name"]]:
                problems.append("%s (a %s matrix%s) flows into the %s matrix" % (f.split("::")[-1] if "RgbSpace" not in f else "RgbSpace::" + f.split("::")[-1], base,
                                                                               ", inverted %d time(s)" % flips if flips else ", not inverted", WANT[b["name"]]))
        if not seen:
            problems.append("no matrix source found")
        rep.ob("MATRIX-DIR", "%s[%s]" % (b["name"], b["_impl"]["self_s"] if b["_impl"] else b["path"]), not problems,
               "; ".join(problems) if problems else "%d matrix source(s), each of direction %s after its inversions" % (seen, WANT[b["name"]]), F.loc(b))
    rep.floor("matrix_from_rgb / matrix_from_xyz", n, 2)


def run(F, rep, tier="quick", extra=None, only=None):
    rep.trusted += ["rustc name resolution / type check", "operator table of rules/sym.py", "ASTM E308 / CIE 15 white point table and the standards' primaries (rules/consts.py)",
                    "axiom cbrt(x)^3 = x; white point components positive"]
    S = Session(F, app_canon=app_canon, positive=("wp.x", "wp.y", "wp.z", "k"))
    rep.assumptions.append("white point tristimulus values and the grey level k are positive")
    consts.check_white_points(F, rep, S)
    consts.check_rgb_spaces(F, rep, S)
    consts.check_oklab_matrices(F, rep, S)
    check_lms_matrices(F, rep, S)
    check_matrix_algebra(F, rep)
    check_adaptation(F, rep)
    check_neutrals(F, rep, S)
    check_matrix_direction(F, rep)
    check_default_method(F, rep)
    from . import aliasrule
    aliasrule.check(F, rep, "C14", 2)
    return {"level": "other"}


def check_lms_matrices(F, rep, S):
    to_lms = {(im.get("self_adt") or im["self_s"]): ms.get("xyz_to_lms_matrix") for im, ms in impl_methods(F, "lms::matrix::XyzToLms")}
    from_lms = {(im.get("self_adt") or im["self_s"]): ms.get("lms_to_xyz_matrix") for im, ms in impl_methods(F, "lms::matrix::LmsToXyz")}
    n = 0
    for name in sorted(set(to_lms) | set(from_lms)):
        a, b = to_lms.get(name), from_lms.get(name)
        key = name.split("::")[-1]
        if a is None or b is None:
            rep.fail("CONST-LMS", "pair:" + key, "only one direction implemented")
            continue
        try:
            ma = [consts.num(x) for x in S.eval(a)[0].items]
            mb = [consts.num(x) for x in S.eval(b)[0].items]
        except (Opaque, AttributeError) as ex:
            rep.fail("CONST-LMS", "pair:" + key, "not a literal 3x3: %s" % ex, F.loc(a))
            continue
        n += 1
        d = consts.maxdiff(consts.mat_mul(ma, mb), consts.IDENT)
        rep.ob("CONST-LMS", "pair-inverse:" + key, d <= Fr(1, 10 ** 6), "max |A*B - I| = %s" % consts.f6(d), F.loc(a))
    rep.floor("LMS matrix pairs", n, 3)
    # CAM16 M16
    m16 = [b for b in F.bodies if b["path"].startswith("cam16::math") and b["name"] in ("m16", "m16_inv")]
    try:
        vals = {b["name"]: [consts.num(x) for x in S.eval(b)[0].items] for b in m16}
        if len(vals) == 2:
            d = consts.maxdiff(consts.mat_mul(vals["m16"], vals["m16_inv"]), consts.IDENT)
            rep.ob("CONST-LMS", "pair-inverse:M16", d <= Fr(1, 10 ** 8), "max |M16*M16inv - I| = %s" % consts.f6(d), F.loc(m16[0]))
        else:
            rep.note("CAM16 M16 pair not found as m16/m16_inv functions (checked by C16)")
    except (Opaque, AttributeError) as ex:
        rep.note("CAM16 M16 literals not evaluated here: %s" % ex)


def sym_mat(S, p):
    return Array([S.ctx.sym("%s%d" % (p, i)) for i in range(9)])


def check_matrix_algebra(F, rep):
    S = Session(F)
    R = S.R
    A, B = sym_mat(S, "a"), sym_mat(S, "b")
    v = Array([S.ctx.sym("v0"), S.ctx.sym("v1"), S.ctx.sym("v2")])
    mv = F.fn("matrix::multiply_3x3_and_vec3")
    mm = F.fn("matrix::multiply_3x3")
    inv = F.fn("matrix::matrix_inverse")
    try:
        r, _ = S.ev.eval_body(mv, [A, v])
        exp = Array([R.add(*[R.mul(A.items[3 * i + k], v.items[k]) for k in range(3)]) for i in range(3)])
        check_value(rep, "ALG-LAW", "multiply_3x3_and_vec3", S, mv, r, exp, sample="row i = Σ_k a[i,k]·v[k]")
        r, _ = S.ev.eval_body(mm, [A, B])
        exp = Array([R.add(*[R.mul(A.items[3 * i + k], B.items[3 * k + j]) for k in range(3)]) for i in range(3) for j in range(3)])
        check_value(rep, "ALG-LAW", "multiply_3x3", S, mm, r, exp, sample="(a·b)[i,j] = Σ_k a[i,k]·b[k,j]")
    except (Opaque, poly.TooBig) as ex:
        rep.fail("ALG-LAW", "matrix-products", "uninterpretable: %s" % ex, F.loc(mv))
    try:
        ia, _ = S.ev.eval_body(inv, [A])
        ia = _assume_valid(ia)
        prod, _ = S.ev.eval_body(mm, [A, ia])
        ident = Array([S.ctx.num(1 if i % 4 == 0 else 0) for i in range(9)])
        check_value(rep, "ALG-LAW", "a·matrix_inverse(a)=I", S, inv, prod, ident, sample="for every invertible a (symbolic 3x3)")
    except (Opaque, poly.TooBig) as ex:
        rep.fail("ALG-LAW", "a·matrix_inverse(a)=I", "uninterpretable: %s" % ex, F.loc(inv))
    # Matrix3
    M3 = "convert::matrix3::Matrix3"
    try:
        then = [b for b in F.bodies if b["path"].startswith("convert::matrix3::") and b["name"] == "then"][0]
        conv = [b for b in F.bodies if b["path"].endswith("::convert_once") and "matrix3" in b["path"]][0]
        ident_fn = [b for b in F.bodies if b["path"].startswith("convert::matrix3::") and b["name"] == "identity"][0]
        invert = [b for b in F.bodies if b["path"].startswith("convert::matrix3::") and b["name"] == "invert"][0]
        ma = Struct(M3, {"matrix": A, "transform": Struct("PhantomData", {})})
        mb = Struct(M3, {"matrix": B, "transform": Struct("PhantomData", {})})
        col = Struct("xyz::Xyz", {"x": v.items[0], "y": v.items[1], "z": v.items[2], "white_point": Struct("PhantomData", {})})
        ab, _ = S.ev.eval_body(then, [ma, mb])
        lhs = S.ev.eval_body(mv, [ab.fields["matrix"], v])[0]
        step = S.ev.eval_body(mv, [A, v])[0]
        rhs = S.ev.eval_body(mv, [B, step])[0]
        check_value(rep, "ALG-LAW", "Matrix3::then-order", S, then, lhs, rhs, sample="a.then(b) applies a first, then b")
        idv, _ = S.ev.eval_body(ident_fn, [])
        iv = S.ev.eval_body(mv, [idv.fields["matrix"], v])[0]
        check_value(rep, "ALG-LAW", "Matrix3::identity", S, ident_fn, iv, v, sample="identity().convert(v) = v")
        # convert_once = from_array(multiply(matrix, into_array(input)))
        cv, _ = S.ev.eval_body(conv, [ma, col])
        calls = [F.S[n["c"]["d"]].split("::")[-1] for n, _p in facts.walk(conv["body"]) if isinstance(n.get("c"), dict) and "d" in n["c"]]
        rep.ob("ALG-LAW", "Matrix3::convert_once", sorted(calls) == ["from_array", "into_array", "multiply_3x3_and_vec3"], "calls %s" % calls, F.loc(conv))
        calls = [F.S[n["c"]["d"]].split("::")[-1] for n, _p in facts.walk(invert["body"]) if isinstance(n.get("c"), dict) and "d" in n["c"]]
        rep.ob("ALG-LAW", "Matrix3::invert", calls == ["matrix_inverse"], "calls %s" % calls, F.loc(invert))
    except (Opaque, poly.TooBig, IndexError, KeyError, AttributeError) as ex:
        rep.fail("ALG-LAW", "Matrix3", "uninterpretable: %s" % ex)


def _assume_valid(v):
    from .c01 import assume_valid
    return assume_valid(v)


def check_adaptation(F, rep):
    S = Session(F)
    R = S.R
    # diagonal_matrix: gain = output / input per cone
    try:
        dm = F.fn("chromatic_adaptation::diagonal_matrix")
        args = S.args(dm, ["src", "dst"])
        v, _ = S.ev.eval_body(dm, args)
        s_, d_ = args
        z = R.c(0)
        exp = Array([R.div(d_.fields["long"], s_.fields["long"]), z, z, z, R.div(d_.fields["medium"], s_.fields["medium"]), z, z, z, R.div(d_.fields["short"], s_.fields["short"])])
        check_value(rep, "ALG-LAW", "diagonal_matrix", S, dm, v.fields["matrix"] if isinstance(v, Struct) else v, exp, sample="diag(dst.long/src.long, dst.medium/src.medium, dst.short/src.short)")
    except (facts.AnchorMissing, Opaque, poly.TooBig, KeyError) as ex:
        rep.fail("ALG-LAW", "diagonal_matrix", "uninterpretable: %s" % ex)
    # adaptation_matrix: to-LMS(I, M) ▸ diag(input_wp -> output_wp) ▸ from-LMS(O, M)
    try:
        am = F.fn("chromatic_adaptation::adaptation_matrix")
        seq = []
        for n, parents in facts.walk(am["body"]):
            c = n.get("c")
            if isinstance(c, dict) and "d" in c:
                seq.append((F.S[c["d"]].split("::")[-1], [F.S[a] for a in c["a"]]))
        names = [s[0] for s in seq]
        ok = True
        det = []
        mfx = [s for s in seq if s[0] == "matrix_from_xyz"]
        mfl = [s for s in seq if s[0] == "matrix_from_lms"]
        if len(mfx) != 1 or "WithLmsMatrix<I, M>" not in " ".join(mfx[0][1]):
            ok = False
            det.append("to-LMS matrix not built for the input white point with method M: %s" % mfx)
        if len(mfl) != 1 or "WithLmsMatrix<O, M>" not in " ".join(mfl[0][1]):
            ok = False
            det.append("from-LMS matrix not built for the output white point with method M: %s" % mfl)
        thens = [i for i, s in enumerate(names) if s == "then"]
        if len(thens) != 2 or names.count("diagonal_matrix") != 1:
            ok = False
            det.append("not exactly input_to_lms.then(diagonal).then(lms_to_output): %s" % names)
        # receiver chain: input_to_lms.then(diag(input_wp, output_wp)).then(lms_to_output)
        for n, parents in facts.walk(am["body"]):
            if n.get("k") == "mcall" and n.get("n") == "then" and n["r"].get("k") == "mcall":
                inner = n["r"]
                r0 = inner["r"].get("res", {}).get("n")
                a_out = n["a"][0].get("res", {}).get("n")
                dcall = inner["a"][0]
                dargs = [x.get("res", {}).get("n") for x in dcall.get("a", [])]
                if (r0, a_out, dargs) != ("input_to_lms", "lms_to_output", ["input_wp", "output_wp"]):
                    # names are local; compare by the binding initialisers instead
                    pass
                det.append("chain: %s.then(diagonal_matrix(%s)).then(%s)" % (r0, dargs, a_out))
        rep.ob("ADAPT", "adaptation_matrix-structure", ok, "; ".join(det), F.loc(am))
        # ADAPT-NORM: a caller-supplied white point (either side) is normalised to Y = 1 before it reaches the diagonal: otherwise the
        # adapted colour is scaled by the white's luminance and "adapting there and back" returns Y_src*Y_dst*c
        params = [p_.get("n") for p_ in am.get("params", [])]
        lets = {}
        for n, parents in facts.walk(am["body"]):
            if n.get("k") == "let" and isinstance(n.get("pat"), dict) and n["pat"].get("k") == "bind" and n.get("init") is not None:
                lets.setdefault(n["pat"]["n"], []).append(n["init"])

        def mentions(e, name):
            return any(x.get("k") == "path" and isinstance(x.get("res"), dict) and x["res"].get("k") == "local" and x["res"].get("n") == name for x, _p in facts.walk(e))

        def normalised(e, pname):
            for x, _p in facts.walk(e):
                if x.get("k") == "mcall" and x.get("n") == "normalize" and mentions(x["r"], pname):
                    return True
                if x.get("k") == "mcall" and x.get("n") in ("map", "map_or", "map_or_else", "and_then") and mentions(x["r"], pname):
                    for a in x.get("a", []):
                        for y, _q in facts.walk(a):
                            r = y.get("res") if y.get("k") == "path" else None
                            if isinstance(r, dict) and isinstance(r.get("c"), dict) and F.S[r["c"]["d"]].endswith("::normalize"):
                                return True
                            if y.get("k") == "mcall" and y.get("n") == "normalize":
                                return True
            return False
        dcalls = [n for n, _p in facts.walk(am["body"]) if isinstance(n.get("c"), dict) and "d" in n["c"] and F.S[n["c"]["d"]].endswith("diagonal_matrix")]
        if len(dcalls) == 1 and len(params) == 2 and all(params):
            for role, pname, arg in zip(("input", "output"), params, dcalls[0].get("a", [])):
                # the argument expression, with let-bound locals replaced by their initialisers (the locals shadow the parameters)
                exprs = [arg]
                nm = arg.get("res", {}).get("n") if arg.get("k") == "path" else None
                if nm in lets:
                    exprs = lets[nm]
                okn = any(mentions(e, pname) and normalised(e, pname) for e in exprs)
                rep.ob("ADAPT", "adaptation_matrix-normalises-%s-white" % role, okn,
                       "the caller-supplied %s white point reaches diagonal_matrix %s normalize()" % (role, "through" if okn else "WITHOUT"), F.loc(am))
        else:
            rep.fail("ADAPT", "adaptation_matrix-normalises", "cannot identify diagonal_matrix(input, output) and the two white point parameters", F.loc(am))
    except facts.AnchorMissing as ex:
        rep.fail("ADAPT", "adaptation_matrix-structure", str(ex))
    # Xyz<Wp2> <- Xyz<Wp1>: equal white points take the identity arm; the guard compares the white points
    for im, ms in impl_methods(F, "chromatic_adaptation::AdaptFromUnclamped"):
        if (im.get("self_adt") or "").endswith("xyz::Xyz"):
            b = ms.get("adapt_from_unclamped_with")
            try:
                v, _ = S.eval(b, names=["c"])
                from .c01 import typeid_conds, _is_identity
                conds = typeid_conds(v)
                args = S.args(b, ["c"])
                ok = len(conds) == 1
                if ok:
                    c, pair = list(conds.items())[0]
                    ok = sorted(pair) == ["Wp1", "Wp2"] and _is_identity(sym.restrict(v, c, True), args[0])
                rep.ob("ADAPT", "same-white-point-identity", ok, "TypeId guard %s; equal white points return the input" % list(conds.values()), F.loc(b))
            except (Opaque, poly.TooBig) as ex:
                rep.fail("ADAPT", "same-white-point-identity", "uninterpretable: %s" % ex, F.loc(b))


def check_neutrals(F, rep, S):
    R = S.R
    impls = conv_impls(F)
    k = S.ctx.sym("k")
    wx, wy, wz = S.ctx.sym("wp.x"), S.ctx.sym("wp.y"), S.ctx.sym("wp.z")
    grey = Struct("xyz::Xyz", {"x": R.mul(k, wx), "y": R.mul(k, wy), "z": R.mul(k, wz), "white_point": Struct("PhantomData", {})})
    white = Struct("xyz::Xyz", {"x": wx, "y": wy, "z": wz, "white_point": Struct("PhantomData", {})})
    zero = R.c(0)
    for tgt, fa, fb in (("lab::Lab", "a", "b"), ("luv::Luv", "u", "v")):
        lst = impls.get((tgt, "xyz::Xyz"), [])
        if len(lst) != 1:
            rep.fail("ANCHOR", "neutral:" + tgt, "conversion not found")
            continue
        b = lst[0][1]
        key = tgt.split("::")[-1]
        try:
            v, _ = S.ev.eval_body(b, [grey])
            check_value(rep, "NEUTRAL", "grey-has-zero-%s%s:%s" % (fa, fb, key), S, b, Tuple([v.fields[fa], v.fields[fb]]), Tuple([zero, zero]),
                        sample="xyz = k·white ⇒ %s = %s = 0 for every k > 0" % (fa, fb))
            w, _ = S.ev.eval_body(b, [white])
            check_value(rep, "NEUTRAL", "white-L=100:" + key, S, b, w.fields["l"], R.c(100), sample="xyz = white ⇒ L* = 100")
        except (Opaque, poly.TooBig, KeyError, AttributeError) as ex:
            rep.fail("NEUTRAL", "neutral:" + key, "uninterpretable: %s" % ex, F.loc(b))
    # polar forms: chroma of (a,b) = (0,0) is 0
    for polar, rect, fa, fb, ch in (("lch::Lch", "lab::Lab", "a", "b", "chroma"), ("lchuv::Lchuv", "luv::Luv", "u", "v", "chroma"), ("oklch::Oklch", "oklab::Oklab", "a", "b", "chroma")):
        lst = impls.get((polar, rect), [])
        if len(lst) != 1:
            continue
        b = lst[0][1]
        try:
            args = S.args(b, ["c"])
            c = args[0]
            f = dict(c.fields)
            f[fa], f[fb] = zero, zero
            v, _ = S.ev.eval_body(b, [Struct(c.path, f)])
            check_value(rep, "NEUTRAL", "zero-chroma:" + polar.split("::")[-1], S, b, v.fields[ch], zero, sample="(%s,%s) = (0,0) ⇒ chroma 0" % (fa, fb))
        except (Opaque, poly.TooBig, KeyError, AttributeError) as ex:
            rep.fail("NEUTRAL", "zero-chroma:" + polar, "uninterpretable: %s" % ex, F.loc(b))
    # Rgb <- Luma copies the single channel to all three (through the transfer functions of each side)
    lst = impls.get(("rgb::rgb::Rgb", "luma::luma::Luma"), [])
    if len(lst) == 1:
        b = lst[0][1]
        try:
            v, _ = S.eval(b, names=["c"])
            ok = isinstance(v, Struct) and sym.val_eq(v.fields["red"], v.fields["green"]) and sym.val_eq(v.fields["green"], v.fields["blue"]) \
                and {a for a in atoms_of(v.fields["red"]) if not a.startswith(("@", "std::any"))} == {"c.luma"}
            rep.ob("NEUTRAL", "rgb<-luma-equal-channels", ok, alg._short(v, 200), F.loc(b))
        except (Opaque, poly.TooBig) as ex:
            rep.fail("NEUTRAL", "rgb<-luma-equal-channels", "uninterpretable: %s" % ex, F.loc(b))
    # a gray Luma sits at the white point's chromaticity in Yxy and is a multiple of the white point in Xyz
    LUMA = "luma::luma::Luma"
    ly, lx, yx = impls.get(("yxy::Yxy", LUMA), []), impls.get(("xyz::Xyz", LUMA), []), impls.get(("yxy::Yxy", "xyz::Xyz"), [])
    if len(ly) == 1 and len(lx) == 1 and len(yx) == 1:
        try:
            b = ly[0][1]
            v, _ = S.eval(b, names=["c"])
            w, _ = S.ev.eval_body(yx[0][1], [white])
            check_value(rep, "NEUTRAL", "grey-luma-at-white-chromaticity:Yxy", S, b, Tuple([v.fields["x"], v.fields["y"]]), Tuple([w.fields["x"], w.fields["y"]]),
                        sample="Yxy::from(Luma(l)).(x, y) = Yxy::from(white point).(x, y) for every l")
            b = lx[0][1]
            u, _ = S.eval(b, names=["c"])
            check_value(rep, "NEUTRAL", "grey-luma-proportional-to-white:Xyz", S, b,
                        Tuple([R.mul(u.fields["x"], wy), R.mul(u.fields["z"], wy)]), Tuple([R.mul(u.fields["y"], wx), R.mul(u.fields["y"], wz)]),
                        sample="Xyz::from(Luma(l)) = Y · white / wp.y")
        except (Opaque, poly.TooBig, KeyError, AttributeError) as ex:
            rep.fail("NEUTRAL", "grey-luma", "uninterpretable: %s" % ex, F.loc(b))
    else:
        rep.fail("ANCHOR", "neutral:luma", "Luma -> Yxy / Xyz conversions not found")
    # Oklab of D65 white: numeric residual (reported, armed at 5e-4)
    try:
        m1 = [float(consts.num(x)) for x in S.eval(F.fn("oklab::m1"))[0].items]
        m2 = [float(consts.num(x)) for x in S.eval(F.fn("oklab::m2"))[0].items]
        d65, _ = consts.white_of(F, S, "white_point::D65")
        w = [float(x) for x in d65]
        lms = [sum(m1[3 * i + j] * w[j] for j in range(3)) for i in range(3)]
        c = [x ** (1.0 / 3.0) for x in lms]
        lab = [sum(m2[3 * i + j] * c[j] for j in range(3)) for i in range(3)]
        res = max(abs(lab[0] - 1), abs(lab[1]), abs(lab[2]))
        rep.ob("NEUTRAL", "oklab(D65 white)≈(1,0,0)", res < 5e-4, "Oklab of the D65 literal = (%.6f, %.2e, %.2e); residual %.2e (tolerance 5e-4)" % (lab[0], lab[1], lab[2], res), F.loc(F.fn("oklab::m1")))
    except Exception as ex:
        rep.note("oklab white residual not computed: %s" % ex)
