"""Fact production and loading.

build_facts(tag) runs the pfacts driver (rustc_private) over /repo's *current working
tree* under `cargo +nightly check` and returns the path of the JSON fact file.  Facts are
cached by a hash of every source file that can influence the build plus the driver binary,
so a changed tree is always re-analysed and an unchanged one is not.
"""
import fcntl
import hashlib
import json
import os
import shutil
import subprocess
import sys
import time

VERIF = os.path.dirname(os.path.dirname(os.path.abspath(__file__)))
REPO = os.environ.get("PALETTE_REPO", "/repo")
# self-test lanes (tools/par_matrix.sh): several scratch worktrees analysed at once, each with its own cargo target dirs, witness crates,
# locks and evidence directory; unset for the registered commands
LANE = os.environ.get("PALETTE_LANE", "")
CACHE = os.path.join(VERIF, ".cache")
DRIVER_TARGET = os.path.join(CACHE, "pfacts-target")
DRIVER = os.path.join(DRIVER_TARGET, "release", "pfacts")

CONFIGS = {
    # tag: cargo feature arguments
    "all": ["--all-features"],
    "nostd": ["--no-default-features", "--features", "libm,alloc"],
    "default": [],
}


def _sysroot():
    return subprocess.check_output(["rustc", "+nightly", "--print", "sysroot"], text=True).strip()


def source_hash(repo=None):
    repo = repo or REPO
    h = hashlib.sha256()
    roots = ["palette", "palette_derive", "codegen", "Cargo.toml", "Cargo.lock"]
    files = []
    for r in roots:
        p = os.path.join(repo, r)
        if os.path.isfile(p):
            files.append(p)
            continue
        for dp, dn, fn in os.walk(p):
            dn[:] = [d for d in dn if d not in ("target", ".git")]
            for f in fn:
                if f.endswith((".rs", ".toml", ".txt", ".lock")):
                    files.append(os.path.join(dp, f))
    files.sort()
    for f in files:
        h.update(os.path.relpath(f, repo).encode())
        h.update(b"\0")
        with open(f, "rb") as fh:
            h.update(fh.read())
        h.update(b"\0")
    return h.hexdigest()[:20], len(files)


def build_driver(force=False):
    src = os.path.join(VERIF, "pfacts")
    newest = max(os.path.getmtime(os.path.join(src, "src", "main.rs")), os.path.getmtime(os.path.join(src, "Cargo.toml")))
    if not force and os.path.exists(DRIVER) and os.path.getmtime(DRIVER) >= newest:
        return
    env = dict(os.environ, CARGO_TARGET_DIR=DRIVER_TARGET, CARGO_NET_OFFLINE="true")
    r = subprocess.run(["cargo", "build", "--release", "--offline"], cwd=src, env=env, stdout=subprocess.PIPE, stderr=subprocess.STDOUT, text=True)
    if r.returncode != 0:
        sys.stderr.write(r.stdout)
        raise SystemExit("pfacts driver failed to build")


def _driver_hash():
    with open(DRIVER, "rb") as fh:
        return hashlib.sha256(fh.read()).hexdigest()[:12]


class Lock:
    def __init__(self, name):
        os.makedirs(CACHE, exist_ok=True)
        self.path = os.path.join(CACHE, name + ".lock")

    def __enter__(self):
        self.fh = open(self.path, "w")
        fcntl.flock(self.fh, fcntl.LOCK_EX)
        return self

    def __exit__(self, *a):
        fcntl.flock(self.fh, fcntl.LOCK_UN)
        self.fh.close()


def build_facts(tag="all", repo=None, crates="palette", package="palette", quiet=True):
    """Return (path, info) of the fact file for the current working tree of `repo`."""
    repo = repo or REPO
    with Lock("facts-" + tag + LANE):
        build_driver()
        sh, nfiles = source_hash(repo)
        key = "%s-%s" % (sh, _driver_hash())
        outdir = os.path.join(CACHE, "facts", key)
        out = os.path.join(outdir, "%s.%s.json" % (crates.split(",")[0], tag))
        info = {"source_hash": sh, "source_files": nfiles, "tag": tag, "cached": True}
        if os.path.exists(out):
            return out, info
        os.makedirs(outdir, exist_ok=True)
        tgt = os.path.join(CACHE, "tgt", (tag if repo == "/repo" else tag + "-alt") + LANE)
        # never trust cargo's freshness cache for the analysed crate
        fp = os.path.join(tgt, "debug", ".fingerprint")
        if os.path.isdir(fp):
            for d in os.listdir(fp):
                if d.startswith(package + "-"):
                    shutil.rmtree(os.path.join(fp, d), ignore_errors=True)
        env = dict(os.environ)
        env.update(
            LD_LIBRARY_PATH=_sysroot() + "/lib",
            RUSTFLAGS="-Awarnings",
            RUSTC_WORKSPACE_WRAPPER=DRIVER,
            PFACTS_OUT=outdir,
            PFACTS_TAG=tag,
            PFACTS_CRATES=crates,
            CARGO_TARGET_DIR=tgt,
            CARGO_NET_OFFLINE="true",
            CARGO_INCREMENTAL="0",
        )
        t0 = time.time()
        cmd = ["cargo", "+nightly", "check", "-p", package, "--offline"] + CONFIGS[tag]
        r = subprocess.run(cmd, cwd=repo, env=env, stdout=subprocess.PIPE, stderr=subprocess.STDOUT, text=True)
        if r.returncode != 0 or not os.path.exists(out):
            sys.stderr.write(r.stdout[-6000:])
            raise SystemExit("fact extraction failed for config %s (does /repo build?)" % tag)
        info["cached"] = False
        info["extract_s"] = round(time.time() - t0, 1)
        _prune(os.path.join(CACHE, "facts"), keep=key)
        return out, info


def _prune(d, keep, maxkeep=16):
    ents = [(os.path.getmtime(os.path.join(d, e)), e) for e in os.listdir(d) if e != keep]
    ents.sort(reverse=True)
    for _, e in ents[maxkeep - 1:]:
        shutil.rmtree(os.path.join(d, e), ignore_errors=True)


# ------------------------------------------------------------------ model ----

COVER = os.environ.get("VERIF_COVER")  # directory: which bodies did this check look at / evaluate (tools/coverage.py)
TOUCHED = {}


class _Body(dict):
    """dict that notes when its expression tree is read (only used under VERIF_COVER)."""

    def __getitem__(self, k):
        if k == "body":
            TOUCHED[dict.__getitem__(self, "i")] = max(TOUCHED.get(dict.__getitem__(self, "i"), 0), 1)
        return dict.__getitem__(self, k)

    def get(self, k, d=None):
        if k == "body":
            TOUCHED[dict.__getitem__(self, "i")] = max(TOUCHED.get(dict.__getitem__(self, "i"), 0), 1)
        return dict.get(self, k, d)


def note_eval(body):
    if COVER:
        TOUCHED[body["i"]] = 2


def dump_cover(prop):
    if COVER:
        os.makedirs(COVER, exist_ok=True)
        with open(os.path.join(COVER, prop + ".json"), "w") as fh:
            json.dump(TOUCHED, fh)


class Facts:
    def __init__(self, path):
        with open(path) as fh:
            d = json.load(fh)
        if COVER:
            d["bodies"] = [_Body(b) for b in d["bodies"]]
        self.raw = d
        self.S = d["strs"]
        self.crate = d["crate"]
        self.tag = d["tag"]
        self.bodies = d["bodies"]
        self.impls = d["impls"]
        self.adts = d["adts"]
        self.traits = d["traits"]
        self.aliases = d.get("aliases", [])
        self.body_by_id = {b["i"]: b for b in self.bodies}
        self.impl_by_id = {im["i"]: im for im in self.impls}
        self.adt_by_path = {a["path"]: a for a in self.adts}
        self.trait_by_path = {t["path"]: t for t in self.traits}
        self.n_nodes = d["n_nodes"]
        by_path = {}
        for b in self.bodies:
            by_path.setdefault(b["path"], []).append(b)
        self.bodies_by_path = by_path
        for im in self.impls:
            im["self_s"] = self.S[im["self"]]
            im["trait_args_s"] = [self.S[x] for x in im.get("trait_args", [])]
        for b in self.bodies:
            im = self.impl_by_id.get(b.get("impl"))
            b["_impl"] = im

    def s(self, i):
        return self.S[i] if isinstance(i, int) else i

    def ty(self, node):
        t = node.get("t")
        return self.S[t] if t is not None else None

    # --- lookup helpers -------------------------------------------------
    def find_impls(self, trait=None, self_adt=None, self_contains=None, trait_args_contains=None, derived=None):
        out = []
        for im in self.impls:
            if trait is not None and not _tail_eq(im.get("trait"), trait):
                continue
            if self_adt is not None and not _tail_eq(im.get("self_adt"), self_adt):
                continue
            if self_contains is not None and self_contains not in im["self_s"]:
                continue
            if trait_args_contains is not None and not any(trait_args_contains in a for a in im["trait_args_s"]):
                continue
            if derived is not None and im.get("derived") != derived:
                continue
            out.append(im)
        return out

    def impl_method(self, im, name):
        for it in im["items"]:
            if it["n"] == name and it["kind"] == "Fn":
                return self.body_by_id.get(it["i"])
        return None

    def find_bodies(self, name=None, path_contains=None, file=None, trait=None, self_adt=None):
        out = []
        for b in self.bodies:
            if name is not None and b["name"] != name:
                continue
            if path_contains is not None and path_contains not in b["path"]:
                continue
            if file is not None and not b["file"].endswith(file):
                continue
            im = b["_impl"]
            if trait is not None and not (im and _tail_eq(im.get("trait"), trait)):
                continue
            if self_adt is not None and not (im and _tail_eq(im.get("self_adt"), self_adt)):
                continue
            out.append(b)
        return out

    def fn(self, path):
        """Unique body by exact def path; fail closed."""
        bs = self.bodies_by_path.get(path, [])
        if len(bs) != 1:
            raise AnchorMissing("anchor %r: %d bodies" % (path, len(bs)))
        return bs[0]

    def loc(self, b, node=None):
        if node is None:
            return "%s:%s" % (b["file"], b["line"])
        f = self.S[node["f"]] if isinstance(node.get("f"), int) else b["file"]
        return "%s:%s" % (f, node.get("l"))

    def callee(self, node):
        """(static path, name, resolved path or None) of a call-like node."""
        c = node.get("c")
        if not isinstance(c, dict):
            return None
        return c

    def cpath(self, node):
        c = node.get("c")
        if not isinstance(c, dict):
            return None
        return self.S[c["d"]]

    def rpath(self, node):
        c = node.get("c")
        if not isinstance(c, dict):
            return None
        if "r" in c:
            return self.S[c["r"]]
        return self.S[c["d"]]


class AnchorMissing(Exception):
    pass


def _tail_eq(full, want):
    if full is None:
        return False
    return full == want or full.endswith("::" + want)


def walk(node, parents=()):
    """Yield (node, parents) for every expression/statement dict in a body tree (pre-order)."""
    if isinstance(node, dict):
        yield node, parents
        p2 = parents + (node,)
        for k, v in node.items():
            if k in ("res", "lit", "pat", "params"):
                continue
            if k == "c" and isinstance(v, dict) and "k" not in v:
                continue  # callee record (an `if` keeps its condition under "c" too)
            if isinstance(v, (dict, list)):
                yield from walk(v, p2)
    elif isinstance(node, list):
        for v in node:
            yield from walk(v, parents)


def walk_all(node):
    """Every dict with a 'k' key, including patterns."""
    if isinstance(node, dict):
        if "k" in node:
            yield node
        for k, v in node.items():
            if k in ("res", "lit"):
                continue
            if k == "c" and isinstance(v, dict) and "k" not in v:
                continue
            if isinstance(v, (dict, list)):
                yield from walk_all(v)
    elif isinstance(node, list):
        for v in node:
            yield from walk_all(v)
