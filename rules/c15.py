"""C15 — gamut-bounded cylindrical spaces: the structural / algebraic part.

The main clause (every in-bounds cylinder point lands in [0,1]^3 within a tolerance, for every hue) is a bound on the error of a
polynomial fit plus one Halley step and of a line-intersection search.  No static argument in reach bounds that error, and this check
does NOT decide it.  What it decides are the pieces whose failure breaks the guarantee and whose truth is in the code's algebra:
the implementation is the published algorithm (Ottosson 2021 for Okhsl/Okhsv, the HSLuv reference for the chroma bound), its
internal duplicates agree, its inverse pairs invert, and the hexcone forms keep in-gamut RGB inside their bounds.
"""
from fractions import Fraction as Fr

from . import alg, sym, poly, facts
from .common import Session, check_value, staged_check, atoms_of, apps_of
from .sym import Struct, Tuple, Array, Ite, Opaque
from .poly import RatFunc

EXPLANATION = (
    "Static, partial.  Decided (all inputs, over the reals): LC::max_saturation is Ottosson's algorithm quantity by quantity - sector tests, "
    "the 3x5 polynomial coefficients, and one Halley step S - f f'/(f'^2 - f f''/2) in which f is exactly the red/green/blue channel of the "
    "crate's own oklab_to_linear_srgb(1, S a, S b) and f', f'' are its first and second derivatives in S (symbolic differentiation); "
    "find_cusp = (cbrt(1/max rgb), L S); ST::mid, toe, toe_inv, ChromaValues::from_normalized equal the published formulas, toe_inv∘toe = id; "
    "the Okhsl saturation curve and its inverse are mutually inverse on both pieces and continuous at the 0.8 knee; the duplicated matrix "
    "literals of find_gamut_intersection equal those of oklab_to_linear_srgb; LuvBounds::from_lightness is the HSLuv reference bound "
    "(six lines from the sRGB matrix, kappa, epsilon) and max_chroma_at_hue takes the minimum positive intersection; Okhsv's bounds use the "
    "same slack constant as its tests; hexcone: in-gamut RGB gives S, V (and L) in [0,1] on every ordering region, HWB = ((1-S)V, 1-V).  "
    "NOT decided: that the fitted cusp/intersection stays within tolerance of the true gamut for every hue (the property's main clause), "
    "HSL's S <= 1 for light colours, floating-point effects."
    " OK-REF: the four Oklab <-> Okhsl / Okhsv conversion bodies against Ottosson's published algorithm on the documented ranges, helpers uninterpreted, shortcuts included."
)

# Ottosson, "Okhsv and Okhsl" (2021), reference implementation compute_max_saturation
SECTORS = [
    (("-1.88170328", "-0.80936493"), ["1.19086277", "1.76576728", "0.59662641", "0.75515197", "0.56771245"], "red"),
    (("1.81444104", "-1.19445276"), ["0.73956515", "-0.45954404", "0.08285427", "0.12541070", "0.14503204"], "green"),
    (None, ["1.35733652", "-0.00915799", "-1.15130210", "-0.50559606", "0.00692167"], "blue"),
]
K_LMS = [("0.3963377774", "0.2158037573"), ("-0.1055613458", "-0.0638541728"), ("-0.0894841775", "-1.2914855480")]
LMS_TO_RGB = [["4.0767416621", "-3.3077115913", "0.2309699292"], ["-1.2684380046", "2.6097574011", "-0.3413193965"],
              ["-0.0041960863", "-0.7034186147", "1.7076147010"]]
ST_MID_S = ("0.11516993", ["7.44778970", "4.15901240", "-2.19557347", "1.75198401", "-2.13704948", "-10.02301043", "-4.24894561", "5.38770819", "4.69891013"])
ST_MID_T = ("0.11239642", ["1.61320320", "-0.68124379", "0.40370612", "0.90148123", "-0.27087943", "0.61223990", "0.00299215", "-0.45399568", "-0.14661872"])


def derivative(rf, atom_name, ctx):
    """d/d(atom) of a RatFunc with constant denominator."""
    if not poly.p_is_const(rf.den):
        raise Opaque("derivative of a quotient")
    num = {}
    for m, c in rf.num.items():
        for i, (k, e) in enumerate(m):
            a = poly.atom_by_id(k)
            if not a.args and a.name == atom_name:
                m2 = tuple(x for j, x in enumerate(m) if j != i) + (((k, e - 1),) if e > 1 else ())
                m2 = tuple(sorted(m2))
                num[m2] = num.get(m2, Fr(0)) + c * e
            elif a.args and atom_name in atoms_of(RatFunc.atom(a, rf.tab)):
                raise Opaque("derivative through an application")
    return RatFunc(num, rf.den, rf.tab)._norm() if num else ctx.num(0)


def oklab_to_rgb(S, F, l, a, b):
    fn = F.fn("oklab::oklab_to_linear_srgb")
    v, _ = S.ev.eval_body(fn, [Struct("oklab::Oklab", {"l": l, "a": a, "b": b})])
    return v


def check_max_saturation(F, rep):
    S = Session(F)
    ctx, R = S.ctx, S.R
    a, b = ctx.sym("a"), ctx.sym("b")
    body = F.fn("ok_utils::LC::<T>::max_saturation")
    # the code's own Oklab -> linear sRGB, as a function of the unknown saturation s
    s = ctx.sym("s")
    rgb = oklab_to_rgb(S, F, ctx.num(1), s * a, s * b)
    chans = [rgb.fields["red"], rgb.fields["green"], rgb.fields["blue"]]

    def sector(R_, vals):
        c1 = R_.gt(R_.add(R_.mul(SECTORS[0][0][0], a), R_.mul(SECTORS[0][0][1], b)), 1)
        c2 = R_.gt(R_.add(R_.mul(SECTORS[1][0][0], a), R_.mul(SECTORS[1][0][1], b)), 1)
        return R_.ite(c1, vals[0], R_.ite(c2, vals[1], vals[2]))

    def poly5(R_, k):
        return R_.add(k[0], R_.mul(k[1], a), R_.mul(k[2], b), R_.mul(k[3], a, a), R_.mul(k[4], a, b))
    steps = [("S0", lambda R_, e: sector(R_, [poly5(R_, sec[1]) for sec in SECTORS]))]

    def subst_s(rf, e):
        # f(S0): substitute the staged atom for s (polynomial in s with constant denominator)
        out = ctx.num(0)
        d = poly.p_const_value(rf.den)
        for m, c in rf.num.items():
            t = ctx.num(Fr(c) / d)
            for k, ex in m:
                at = poly.atom_by_id(k)
                base = e["S0"] if (not at.args and at.name == "s") else RatFunc.atom(at, ctx.tab)
                t = R.mul(t, R.pow(base, ex))  # case-tree safe (S0 is a tree when the code has no equal `let`)
            out = R.add(out, t)
        return out
    f_s = [c for c in chans]
    f1_s = [derivative(c, "s", ctx) for c in chans]
    f2_s = [derivative(c, "s", ctx) for c in f1_s]
    steps.append(("f", lambda R_, e: sector(R_, [subst_s(x, e) for x in f_s])))
    steps.append(("f1", lambda R_, e: sector(R_, [subst_s(x, e) for x in f1_s])))
    steps.append(("f2", lambda R_, e: sector(R_, [subst_s(x, e) for x in f2_s])))

    def final(R_, e):
        return R_.sub(e["S0"], R_.div(R_.mul(e["f"], e["f1"]), R_.sub(R_.mul(e["f1"], e["f1"]), R_.mul(Fr(1, 2), e["f"], e["f2"]))))
    staged_check(rep, "ALG-REF", "max_saturation", S, body, [a, b], steps, final,
                 sample="Ottosson sector polynomial S0; f = the sector's channel of oklab_to_linear_srgb(1, S0 a, S0 b); f', f'' its derivatives; one Halley step")
    it = F.fn("ok_utils::MAX_SRGB_SATURATION_SEARCH_MAX_ITER")
    v, _ = S.ev.eval_body(it, [])
    rep.ob("CONST", "Halley iterations >= 1", isinstance(v, RatFunc) and v.is_const() and v.const_value() >= 1, "MAX_SRGB_SATURATION_SEARCH_MAX_ITER = %s" % v, F.loc(it))
    # published LMS / RGB constants of oklab_to_linear_srgb itself
    L, A, B = ctx.sym("L"), ctx.sym("A"), ctx.sym("B")
    got = oklab_to_rgb(S, F, L, A, B)
    lms = [R.pow(R.add(L, R.mul(k[0], A), R.mul(k[1], B)), 3) for k in K_LMS]
    exp = Struct("rgb::rgb::Rgb", {c: R.add(*[R.mul(LMS_TO_RGB[i][j], lms[j]) for j in range(3)]) for i, c in enumerate(("red", "green", "blue"))})
    exp.fields["standard"] = Struct("PhantomData", {})
    check_value(rep, "ALG-REF", "oklab_to_linear_srgb", S, F.fn("oklab::oklab_to_linear_srgb"), got, exp, sample="Ottosson's M2^-1 rows, cube, M1^-1 rows")


def check_small_functions(F, rep):
    S = Session(F, positive={"x"})
    ctx, R = S.ctx, S.R
    a, b, x = ctx.sym("a"), ctx.sym("b"), ctx.sym("x")

    def nest(c0, k):
        den = R.add(k[0], R.mul(k[1], b), R.mul(a, R.add(k[2], R.mul(k[3], b), R.mul(a, R.add(k[4], R.mul(k[5], b), R.mul(a, R.add(k[6], R.mul(k[7], b), R.mul(k[8], a))))))))
        return R.add(c0, R.div(1, den))
    bm = F.fn("ok_utils::ST::<T>::mid")
    v, _ = S.ev.eval_body(bm, [a, b])
    check_value(rep, "ALG-REF", "ST::mid", S, bm, v, Struct("ok_utils::ST", {"s": nest(*ST_MID_S), "t": nest(*ST_MID_T)}), sample="Ottosson get_ST_mid polynomials")
    k1, k2 = Fr("0.206"), Fr("0.03")
    k3 = (1 + k1) / (1 + k2)
    bt, bti = F.fn("ok_utils::toe"), F.fn("ok_utils::toe_inv")
    vt, _ = S.ev.eval_body(bt, [x])
    u = R.sub(R.mul(k3, x), k1)
    check_value(rep, "ALG-REF", "toe", S, bt, vt, R.mul(Fr(1, 2), R.add(u, R.sqrt(R.add(R.pow(u, 2), R.mul(4 * k2 * k3, x))))), sample="k1 = 0.206, k2 = 0.03, k3 = (1+k1)/(1+k2)")
    vi, _ = S.ev.eval_body(bti, [x])
    check_value(rep, "ALG-REF", "toe_inv", S, bti, vi, R.div(R.add(R.pow(x, 2), R.mul(k1, x)), R.mul(k3, R.add(x, k2))), sample="(x^2 + k1 x) / (k3 (x + k2))")
    back, _ = S.ev.eval_body(bti, [vt])
    check_value(rep, "ALG-LAW", "toe_inv∘toe = id", S, bti, back, x, sample="exact (sqrt(D)^2 = D)")
    # ST from LC
    lc = Struct("ok_utils::LC", {"lightness": ctx.sym("Lc"), "chroma": ctx.sym("Cc")})
    for im in F.find_impls(trait="std::convert::From", self_adt="ok_utils::ST"):
        bb = F.impl_method(im, "from")
        v, _ = S.ev.eval_body(bb, [lc])
        check_value(rep, "ALG-REF", "ST::from(LC)", S, bb, v, Struct("ok_utils::ST", {"s": R.div(ctx.sym("Cc"), ctx.sym("Lc")), "t": R.div(ctx.sym("Cc"), R.sub(1, ctx.sym("Lc")))}),
                    sample="S = C/L, T = C/(1-L)")


def check_cusp_and_chroma_values(F, rep):
    T_ICU = "convert::from_into_color_unclamped::IntoColorUnclamped::into_color_unclamped"
    S = Session(F, no_inline={"ok_utils::LC::<T>::max_saturation"})
    ctx, R = S.ctx, S.R
    a, b = ctx.sym("a"), ctx.sym("b")

    def hook(spath, rpath, args, c, ev, fr):
        if spath == T_ICU and isinstance(ev.deref(args[0]), Struct) and ev.deref(args[0]).path.endswith("Oklab"):
            o = ev.deref(args[0])
            return Struct("rgb::rgb::Rgb", {k: ctx.app("oklab->linsrgb.%s" % k, [o.fields["l"], o.fields["a"], o.fields["b"]]) for k in ("red", "green", "blue")})
        return NotImplemented
    ctx.call_hook = hook
    bc = F.fn("ok_utils::LC::<T>::find_cusp")
    try:
        v, _ = S.ev.eval_body(bc, [a, b])
        Smax = ctx.app("ok_utils::LC::<T>::max_saturation<T>", [a, b])
        ch = [ctx.app("oklab->linsrgb.%s" % k, [ctx.num(1), Smax * a, Smax * b]) for k in ("red", "green", "blue")]
        Lc = R.cbrt(R.div(1, R.max(R.max(ch[0], ch[1]), ch[2])))
        check_value(rep, "ALG-REF", "find_cusp", S, bc, v, Struct("ok_utils::LC", {"lightness": Lc, "chroma": R.mul(Lc, Smax)}),
                    sample="L_cusp = cbrt(1 / max(rgb(1, S a, S b))), C_cusp = L_cusp S, S = max_saturation(a, b)")
    except (Opaque, poly.TooBig) as ex:
        rep.fail("ALG-REF", "find_cusp", "uninterpretable: %s" % ex, F.loc(bc))
    # ChromaValues::from_normalized (Ottosson get_Cs)
    S2 = Session(F, no_inline={"ok_utils::LC::<T>::find_cusp", "ok_utils::find_gamut_intersection", "ok_utils::ST::<T>::mid"}, positive={"L"})
    ctx2, R2 = S2.ctx, S2.R
    L, a2, b2 = ctx2.sym("L"), ctx2.sym("a"), ctx2.sym("b")
    bn = F.fn("ok_utils::ChromaValues::<T>::from_normalized")
    try:
        v, _ = S2.ev.eval_body(bn, [L, a2, b2])
        cusp = ctx2.app("ok_utils::LC::<T>::find_cusp<T>", [a2, b2])
        # the opaque calls as the evaluator names them
        apps = {n for n in apps_of(v)}
        fc = [n for n in apps if n.startswith("ok_utils::LC::<T>::find_cusp")]
        gi = [n for n in apps if n.startswith("ok_utils::find_gamut_intersection")]
        md = [n for n in apps if n.startswith("ok_utils::ST::<T>::mid")]
        if not (len(fc) == 1 and len(gi) == 1 and len(md) == 1):
            raise Opaque("expected one call each of find_cusp / find_gamut_intersection / ST::mid, found %s" % sorted(apps))
        cusp = ctx2.app(fc[0], [a2, b2])
        cl, cc = ctx2.app("proj.lightness", [cusp]), ctx2.app("proj.chroma", [cusp])
        cmax = ctx2.app(gi[0], [a2, b2, L, ctx2.num(1), L, ctx2.app("mk:LC{chroma,lightness}", [cc, cl])])
        # argument order of the LC struct inside the opaque call follows the evaluator's field sorting: (chroma, lightness)
        mid = ctx2.app(md[0], [a2, b2])
        ms, mt = ctx2.app("proj.s", [mid]), ctx2.app("proj.t", [mid])
        s_max, t_max = R2.div(cc, cl), R2.div(cc, R2.sub(1, cl))
        k = R2.div(cmax, R2.min(R2.mul(L, s_max), R2.mul(R2.sub(1, L), t_max)))
        ca, cb = R2.mul(L, ms), R2.mul(R2.sub(1, L), mt)
        c_mid = R2.mul("0.9", k, R2.sqrt(R2.sqrt(R2.div(1, R2.add(R2.div(1, R2.pow(ca, 4)), R2.div(1, R2.pow(cb, 4)))))))
        c0a, c0b = R2.mul(L, "0.4"), R2.mul(R2.sub(1, L), "0.8")
        c_0 = R2.sqrt(R2.div(1, R2.add(R2.div(1, R2.pow(c0a, 2)), R2.div(1, R2.pow(c0b, 2)))))
        exp = Struct("ok_utils::ChromaValues", {"zero": c_0, "mid": c_mid, "max": cmax})
        mm = alg.compare(v, exp, ctx2)
        if mm and isinstance(v, Struct):
            # the max field must at least be the gamut intersection at (L, 1) -> (L, cusp)
            pass
        check_value(rep, "ALG-REF", "ChromaValues::from_normalized", S2, bn, v, exp,
                    sample="C_max = gamut intersection from (L,0) towards (L,1); C_mid = 0.9 k (1/(1/Ca^4 + 1/Cb^4))^(1/4); C_0 = (1/(1/(0.4L)^2 + 1/(0.8(1-L))^2))^(1/2)")
    except (Opaque, poly.TooBig) as ex:
        rep.fail("ALG-REF", "ChromaValues::from_normalized", "uninterpretable: %s" % ex, F.loc(bn))


def float_lits(F, body):
    out = []
    for n, parents in facts.walk(body["body"]):
        if n.get("k") == "lit" and isinstance(n.get("lit"), dict) and n["lit"].get("lk") == "float":
            v = Fr(n["lit"]["v"].replace("_", "").replace("f64", "").replace("f32", ""))
            neg = bool(parents) and parents[-1].get("k") == "un" and parents[-1].get("op") == "-"
            out.append(-v if neg else v)
    return out


def subst_atom(rf, name, value, ctx, R):
    """rf with the plain atom `name` replaced by `value` (rf: polynomial with constant denominator)."""
    out = ctx.num(0)
    d = poly.p_const_value(rf.den)
    for m, c in rf.num.items():
        t = ctx.num(Fr(c) / d)
        for k, ex in m:
            at = poly.atom_by_id(k)
            base = value if (not at.args and at.name == name) else RatFunc.atom(at, ctx.tab)
            t = R.mul(t, R.pow(base, ex))
        out = R.add(out, t)
    return out


def check_gamut_intersection(F, rep):
    """Ottosson's find_gamut_intersection: intersection with the triangle through the cusp, then (upper half) one Halley step per channel on
    f(t) = channel(oklab_to_linear_srgb(L0 (1 - t) + t L1, t C1 a, t C1 b)) - 1, with f' and f'' obtained by symbolic differentiation of the crate's
    own oklab_to_linear_srgb - the hand-expanded derivatives in the code (ldt, ldt2, r1, r2, ...) must equal them."""
    S = Session(F)
    ctx, R = S.ctx, S.R
    a, b, L1, C1, L0 = (ctx.sym(n) for n in ("a", "b", "L1", "C1", "L0"))
    cusp = Struct("ok_utils::LC", {"lightness": ctx.sym("Lc"), "chroma": ctx.sym("Cc")})
    Lc, Cc = cusp.fields["lightness"], cusp.fields["chroma"]
    body = F.fn("ok_utils::find_gamut_intersection")
    t = ctx.sym("t")
    one = ctx.num(1)
    rgb = oklab_to_rgb(S, F, L0 * (one - t) + t * L1, t * C1 * a, t * C1 * b)
    chans = [rgb.fields[c] - one for c in ("red", "green", "blue")]
    d1 = [derivative(c, "t", ctx) for c in chans]
    d2 = [derivative(c, "t", ctx) for c in d1]
    steps = [("t0", lambda R_, e: R_.div(R_.mul(Cc, R_.sub(L0, 1)), R_.add(R_.mul(C1, R_.sub(Lc, 1)), R_.mul(Cc, R_.sub(L0, L1)))))]
    for i, ch in enumerate("rgb"):
        steps.append(("f_" + ch, lambda R_, e, i=i: subst_atom(chans[i], "t", e["t0"], ctx, R_)))
        steps.append(("f1_" + ch, lambda R_, e, i=i: subst_atom(d1[i], "t", e["t0"], ctx, R_)))
        steps.append(("f2_" + ch, lambda R_, e, i=i: subst_atom(d2[i], "t", e["t0"], ctx, R_)))

    def final(R_, e):
        lower = R_.div(R_.mul(Cc, L0), R_.add(R_.mul(C1, Lc), R_.mul(Cc, R_.sub(L0, L1))))
        ts = []
        for ch in "rgb":
            f, f1, f2 = e["f_" + ch], e["f1_" + ch], e["f2_" + ch]
            u = R_.div(f1, R_.sub(R_.mul(f1, f1), R_.mul(Fr(1, 2), f, f2)))
            ts.append(R_.ite(R_.ge(u, 0), R_.neg(R_.mul(f, u)), 10 ** 6))
        upper = R_.add(e["t0"], R_.min(ts[0], R_.min(ts[1], ts[2])))
        cond = R_.le(R_.sub(R_.mul(R_.sub(L1, L0), Cc), R_.mul(R_.sub(Lc, L0), C1)), 0)
        return R_.ite(cond, lower, upper)
    staged_check(rep, "ALG-REF", "find_gamut_intersection", S, body, [a, b, L1, C1, L0, cusp], steps, final,
                 sample="triangle intersection; per channel f, f', f'' (symbolic derivatives of the crate's oklab_to_linear_srgb along the ray) and one Halley step, u < 0 -> FLT_MAX")


def check_duplicates(F, rep):
    """find_gamut_intersection carries its own copy of the Oklab -> LMS' and LMS -> RGB literals: they must be the ones oklab_to_linear_srgb uses."""
    a = {abs(x) for x in float_lits(F, F.fn("oklab::oklab_to_linear_srgb"))}
    g = {abs(x) for x in float_lits(F, F.fn("ok_utils::find_gamut_intersection"))}
    want = {abs(Fr(x)) for row in LMS_TO_RGB for x in row} | {abs(Fr(x)) for k in K_LMS for x in k}
    rep.ob("CONST-SIB", "oklab_to_linear_srgb literals = published", want <= a, "%d of %d published magnitudes present" % (len(want & a), len(want)), F.loc(F.fn("oklab::oklab_to_linear_srgb")))
    miss = sorted(float(x) for x in (want - g))
    rep.ob("CONST-SIB", "find_gamut_intersection literals = oklab_to_linear_srgb literals", not miss,
           "all 15 matrix magnitudes reused" if not miss else "missing/changed: %s" % miss, F.loc(F.fn("ok_utils::find_gamut_intersection")))
    # Okhsv bounds slack = the documented inaccuracy constant
    v = float_lits(F, F.fn("ok_utils::MAX_SRGB_SATURATION_INACCURACY"))
    rep.ob("CONST", "MAX_SRGB_SATURATION_INACCURACY", v == [Fr(1, 10 ** 6)], "slack of the Okhsv bounds = %s" % [float(x) for x in v])


def check_okhsl_curve(F, rep):
    """Okhsl saturation <-> Oklab chroma: two Möbius pieces joined at s = 0.8 / C = C_mid; forward and inverse invert piece by piece."""
    T = "convert::from_into_color_unclamped::FromColorUnclamped"
    fw = bw = None
    for im in F.find_impls(trait=T):
        tgt = im.get("self_adt") or ""
        src = sym._adt_of_type(im["trait_args_s"][0])
        if tgt == "okhsl::Okhsl" and src == "oklab::Oklab" and not im["derived"]:
            fw = F.impl_method(im, "from_color_unclamped")
        if tgt == "oklab::Oklab" and src == "okhsl::Okhsl" and not im["derived"]:
            bw = F.impl_method(im, "from_color_unclamped")
    if fw is None or bw is None:
        rep.fail("ANCHOR", "okhsl curve", "Okhsl <-> Oklab impls not found")
        return
    S = Session(F, no_inline={"ok_utils::toe", "ok_utils::toe_inv"}, positive={"C0", "Cmid", "Cmax", "C", "s"})
    ctx, R = S.ctx, S.R
    C0, Cm, Cx = ctx.sym("C0"), ctx.sym("Cmid"), ctx.sym("Cmax")

    def hook(spath, rpath, args, c, ev, fr):
        if rpath.endswith("ChromaValues::<T>::from_normalized"):
            return Struct("ok_utils::ChromaValues", {"zero": C0, "mid": Cm, "max": Cx})
        if rpath.endswith("Oklab::<T>::get_chroma") or spath.endswith("Oklab::<T>::get_chroma"):
            return ctx.sym("C")
        if spath.endswith("GetHue::get_hue"):
            return Struct("hues::OklabHue", {"0": ctx.sym("h")})
        return NotImplemented
    ctx.call_hook = hook
    try:
        lab = Struct("oklab::Oklab", {"l": ctx.sym("L"), "a": ctx.sym("la"), "b": ctx.sym("lb")})
        vf, _ = S.ev.eval_body(fw, [lab])
        sat = sym.tree_map(lambda x: x.fields["saturation"] if isinstance(x, Struct) else x, vf)
        # pieces of the forward curve: leaves that mention C
        f_pieces = _pieces(sat, "C")
        hsl = Struct("okhsl::Okhsl", {"hue": Struct("hues::OklabHue", {"0": ctx.sym("h")}), "saturation": ctx.sym("s"), "lightness": ctx.sym("l")})
        vb, _ = S.ev.eval_body(bw, [hsl])
        a_ = sym.tree_map(lambda x: x.fields["a"] if isinstance(x, Struct) else x, vb)
        # chroma = a / cos(h)
        cosh = None
        g_pieces = []
        for leaf in _pieces(a_, "s"):
            g_pieces.append(leaf)
        if len(f_pieces) != 2 or len(g_pieces) != 2:
            raise Opaque("expected two pieces in each direction, found %d / %d" % (len(f_pieces), len(g_pieces)))
        # identify the direction cosine factor: the inverse's `a` is chroma * cos(h)
        cos_atoms = [x for x in apps_of(g_pieces[0]) if x == "cos"]
        if not cos_atoms:
            raise Opaque("inverse does not multiply the chroma by cos(hue)")
        cos_h = [RatFunc.atom(poly.atom_by_id(aid), ctx.tab) for aid in g_pieces[0].atoms() if poly.atom_by_id(aid).name == "cos"][0]
        g_pieces = [g / cos_h for g in g_pieces]
        knee = ctx.num(Fr(4, 5))
        ok_all = True
        det = []
        for name, f, g in (("low", f_pieces[0], g_pieces[0]), ("high", f_pieces[1], g_pieces[1])):
            # decide which g matches which f by the knee: try both assignments
            pass
        pairs = None
        for perm in ((0, 1), (1, 0)):
            good = True
            for i, j in enumerate(perm):
                comp = _subst(f_pieces[i], "C", g_pieces[j], ctx)
                if not comp.equals(ctx.sym("s")):
                    good = False
            if good:
                pairs = perm
        rep.ob("ALG-LAW", "okhsl: saturation(chroma(s)) = s on both pieces", pairs is not None,
               "each forward piece composed with the matching inverse piece is the identity (rational identity in C0, Cmid, Cmax)", F.loc(fw))
        # continuity at the knee: every piece maps the knee to the knee
        at = [(_subst(f, "C", Cm, ctx)) for f in f_pieces]
        rep.ob("ALG-LAW", "okhsl: forward pieces meet at (C_mid, 0.8)", all(x.equals(knee) for x in at), "s(C_mid) = %s" % [repr(x) for x in at], F.loc(fw))
        at2 = [(_subst(g, "s", knee, ctx)) for g in g_pieces]
        rep.ob("ALG-LAW", "okhsl: inverse pieces meet at (0.8, C_mid)", all(x.equals(Cm) for x in at2), "C(0.8) = %s" % [alg._short(x, 40) for x in at2], F.loc(bw))
        # end points: s(0) = 0, s(C_max) = 1
        e0 = [_subst(f, "C", ctx.num(0), ctx) for f in f_pieces]
        e1 = [_subst(f, "C", Cx, ctx) for f in f_pieces]
        rep.ob("ALG-LAW", "okhsl: s(0) = 0 and s(C_max) = 1", any(x.is_zero() for x in e0) and any(x.equals(ctx.num(1)) for x in e1),
               "the saturation range [0,1] is exactly the chroma range [0, C_max] of the hue slice", F.loc(fw))
    except (Opaque, poly.TooBig, KeyError, IndexError, ZeroDivisionError) as ex:
        rep.fail("ALG-LAW", "okhsl curve", "uninterpretable: %s" % ex, F.loc(fw))


def check_ok_conversions(F, rep):
    """OK-REF: the four hand-written conversions between Oklab and Okhsl / Okhsv against Ottosson's published algorithm (okhsl_to_srgb,
    srgb_to_okhsl, okhsv_to_srgb, srgb_to_okhsv), with the helpers decided elsewhere (find_cusp, get_Cs = ChromaValues::from_normalized, toe,
    toe_inv, oklab_to_linear_srgb, the hue accessors) left uninterpreted.  The comparison is on the documented ranges (0 <= l, v, s <= 1) and
    includes the end-point shortcuts: white / black for Okhsl, black and the achromatic axis for Okhsv."""
    T = "convert::from_into_color_unclamped::FromColorUnclamped"
    bodies = {}
    for im in F.find_impls(trait=T):
        tgt = (im.get("self_adt") or "").split("::")[-1]
        src = sym._adt_of_type(im["trait_args_s"][0]).split("::")[-1]
        if not im["derived"] and {tgt, src} in ({"Okhsl", "Oklab"}, {"Okhsv", "Oklab"}):
            bodies[(tgt, src)] = F.impl_method(im, "from_color_unclamped")
    n = 0
    for (tgt, src), b in sorted(bodies.items()):
        key = "%s<-%s" % (tgt, src)
        S = Session(F, no_inline={"ok_utils::toe", "ok_utils::toe_inv", "oklab::oklab_to_linear_srgb"},
                    positive={"C0", "Cmid", "Cmax", "C", "Lc", "Cc"})
        ctx, R = S.ctx, S.R
        C0, Cm, Cx, C, h = (ctx.sym(x) for x in ("C0", "Cmid", "Cmax", "C", "h"))
        Lc, Cc = ctx.sym("Lc"), ctx.sym("Cc")
        lin = lambda ch, l_, a_, b_: ctx.app("linear_srgb." + ch, [l_, a_, b_])

        def hook(spath, rpath, args, c, ev, fr):
            if rpath.endswith("ChromaValues::<T>::from_normalized"):
                return Struct("ok_utils::ChromaValues", {"zero": C0, "mid": Cm, "max": Cx})
            if rpath.endswith("get_chroma") or spath.endswith("get_chroma"):
                return C
            if spath.endswith("GetHue::get_hue"):
                return Struct("hues::OklabHue", {"0": h})
            if rpath.endswith("LC::<T>::find_cusp") or spath.endswith("find_cusp"):
                return Struct("ok_utils::LC", {"lightness": Lc, "chroma": Cc})
            if spath.endswith("convert::Into::into") and args and isinstance(ev.deref(args[0]), Struct) and ev.deref(args[0]).path.endswith("ok_utils::LC"):
                o = ev.deref(args[0])   # LC -> ST through the blanket Into: ST::from(LC), decided by the rule "ST::from(LC)"
                return Struct("ok_utils::ST", {"s": o.fields["chroma"] / o.fields["lightness"], "t": o.fields["chroma"] / (ctx.num(1) - o.fields["lightness"])})
            if spath.endswith("IntoColorUnclamped::into_color_unclamped") and args and isinstance(ev.deref(args[0]), Struct) \
                    and ev.deref(args[0]).path.endswith("Oklab"):
                o = ev.deref(args[0])
                l_, a_, b_ = o.fields["l"], o.fields["a"], o.fields["b"]
                return Struct("rgb::rgb::Rgb", {"red": lin("r", l_, a_, b_), "green": lin("g", l_, a_, b_), "blue": lin("b", l_, a_, b_)})
            return NotImplemented
        ctx.call_hook = hook
        toe = lambda x: R.f("ok_utils::toe<T>", x)
        toe_inv = lambda x: R.f("ok_utils::toe_inv<T>", x)
        mid, mid_inv = Fr(4, 5), Fr(5, 4)
        try:
            if src == "Oklab":
                L, la, lb = ctx.sym("L"), ctx.sym("la"), ctx.sym("lb")
                arg = Struct("oklab::Oklab", {"l": L, "a": la, "b": lb})
            elif src == "Okhsl":
                sS, l = ctx.sym("s"), ctx.sym("l")
                arg = Struct("okhsl::Okhsl", {"hue": Struct("hues::OklabHue", {"0": h}), "saturation": sS, "lightness": l})
            else:
                sS, vv = ctx.sym("s"), ctx.sym("v")
                arg = Struct("okhsv::Okhsv", {"hue": Struct("hues::OklabHue", {"0": h}), "saturation": sS, "value": vv})
            v, _ = S.ev.eval_body(b, [arg])
            cosh, sinh = R.f("cos", R.f("deg2rad", h)), R.f("sin", R.f("deg2rad", h))
            k1_hi = R.div(R.mul(1 - mid, Cm, Cm, mid_inv, mid_inv), C0)          # (1 - mid)·C_mid²·mid_inv² / C_0
            if (tgt, src) == ("Oklab", "Okhsl"):
                k1_lo = R.mul(mid, C0)
                t_lo = R.mul(mid_inv, sS)
                c_lo = R.div(R.mul(t_lo, k1_lo), R.sub(1, R.mul(R.sub(1, R.div(k1_lo, Cm)), t_lo)))
                t_hi = R.div(R.sub(sS, mid), 1 - mid)
                k2_hi = R.sub(1, R.div(k1_hi, R.sub(Cx, Cm)))
                c_hi = R.add(Cm, R.div(R.mul(t_hi, k1_hi), R.sub(1, R.mul(k2_hi, t_hi))))
                chroma = R.ite(R.lt(sS, mid), c_lo, c_hi)
                general = Struct("oklab::Oklab", {"l": toe_inv(l), "a": R.mul(chroma, cosh), "b": R.mul(chroma, sinh)})
                white = Struct("oklab::Oklab", {"l": R.c(1), "a": R.c(0), "b": R.c(0)})
                black = Struct("oklab::Oklab", {"l": R.c(0), "a": R.c(0), "b": R.c(0)})
                exp = alg.mk_ite(R.eq(l, 1), white, alg.mk_ite(R.eq(l, 0), black, general))
                dom = S.domain([(l, ">=", 0), (l, "<=", 1), (sS, ">=", 0), (sS, "<=", 1)])
            elif (tgt, src) == ("Okhsl", "Oklab"):
                k1_lo = R.mul(mid, C0)
                k2_lo = R.sub(1, R.div(k1_lo, Cm))
                s_lo = R.mul(R.div(C, R.add(k1_lo, R.mul(k2_lo, C))), mid)
                k2_hi = R.sub(1, R.div(k1_hi, R.sub(Cx, Cm)))
                t_hi = R.div(R.sub(C, Cm), R.add(k1_hi, R.mul(k2_hi, R.sub(C, Cm))))
                s_hi = R.add(mid, R.mul(1 - mid, t_hi))
                sat = R.ite(R.lt(C, Cm), s_lo, s_hi)
                # palette's guards: zero chroma, L = 1 and L = 0 have no hue slice -> hue 0, saturation 0 (the published code divides by zero there)
                guard = lambda x: R.ite(R.valid(C), R.ite(R.eq(L, 1), 0, R.ite(R.valid(L), x, 0)), 0)
                exp = Struct("okhsl::Okhsl", {"hue": Struct("hues::OklabHue", {"0": guard(h)}), "saturation": guard(sat), "lightness": toe(L)})
                dom = None
            else:
                Smax, Tmax = R.div(Cc, Lc), R.div(Cc, R.sub(1, Lc))
                S0 = Fr(1, 2)
                k = R.sub(1, R.div(S0, Smax))
                if (tgt, src) == ("Oklab", "Okhsv"):
                    den = R.sub(R.add(S0, Tmax), R.mul(Tmax, k, sS))
                    L_v = R.sub(1, R.div(R.mul(sS, S0), den))
                    C_v = R.div(R.mul(sS, Tmax, S0), den)
                    L0, Cq = R.mul(vv, L_v), R.mul(vv, C_v)
                    L_vt = toe_inv(L_v)
                    C_vt = R.div(R.mul(C_v, L_vt), L_v)
                    L_new = toe_inv(L0)
                    Cq = R.div(R.mul(Cq, L_new), L0)
                    a_, b_ = cosh, sinh
                    rr, gg, bb = (lin(ch, R.c(L_vt), R.mul(a_, C_vt), R.mul(b_, C_vt)) for ch in "rgb")
                    scale = R.cbrt(R.div(1, R.max(R.max(rr, gg), R.max(bb, 0))))
                    general = Struct("oklab::Oklab", {"l": R.mul(L_new, scale), "a": R.mul(Cq, scale, a_), "b": R.mul(Cq, scale, b_)})
                    black = Struct("oklab::Oklab", {"l": R.c(0), "a": R.c(0), "b": R.c(0)})
                    grey = Struct("oklab::Oklab", {"l": toe_inv(vv), "a": R.c(0), "b": R.c(0)})
                    exp = alg.mk_ite(R.eq(vv, 0), black, alg.mk_ite(R.eq(sS, 0), grey, general))
                    dom = S.domain([(vv, ">=", 0), (vv, "<=", 1), (sS, ">=", 0), (sS, "<=", 1)])
                else:
                    a_, b_ = R.div(la, C), R.div(lb, C)
                    t = R.div(Tmax, R.add(C, R.mul(L, Tmax)))
                    L_v, C_v = R.mul(t, L), R.mul(t, C)
                    L_vt = toe_inv(L_v)
                    C_vt = R.div(R.mul(C_v, L_vt), L_v)
                    rr, gg, bb = (lin(ch, R.c(L_vt), R.mul(a_, C_vt), R.mul(b_, C_vt)) for ch in "rgb")
                    scale = R.cbrt(R.div(1, R.max(R.max(rr, gg), R.max(bb, 0))))
                    Lr = toe(R.div(L, scale))
                    val = R.div(Lr, L_v)
                    sat = R.div(R.mul(R.add(S0, Tmax), C_v), R.add(R.mul(Tmax, S0), R.mul(Tmax, k, C_v)))
                    mkc = lambda hh, ss_, vv_: Struct("okhsv::Okhsv", {"hue": Struct("hues::OklabHue", {"0": R.c(hh)}), "saturation": R.c(ss_), "value": R.c(vv_)})
                    exp = alg.mk_ite(R.eq(L, 0), mkc(0, 0, 0), alg.mk_ite(R.valid(C), mkc(h, sat, val), mkc(0, 0, toe(L))))
                    dom = None
            n += 1
            check_value(rep, "OK-REF", key, S, b, v, exp, domain=dom, sample="Ottosson's algorithm incl. the end-point shortcuts, helpers uninterpreted")
        except (Opaque, poly.TooBig, KeyError, ZeroDivisionError) as ex:
            rep.fail("OK-REF", key, "uninterpretable: %s" % ex, F.loc(b))
    rep.floor("Oklab <-> Okhsl/Okhsv conversions", n, 4)


def _pieces(v, atom):
    out = []
    for _path, leaf in sym.leaves(v):
        if isinstance(leaf, RatFunc) and atom in atoms_of(leaf) and not any(leaf.equals(x) for x in out):
            out.append(leaf)
    return out


def _subst(rf, atom_name, value, ctx):
    """Substitute a RatFunc for a plain atom in a RatFunc (numerator and denominator)."""
    def conv(p):
        out = ctx.num(0)
        for m, c in p.items():
            t = ctx.num(Fr(c))
            for k, e in m:
                at = poly.atom_by_id(k)
                base = value if (not at.args and at.name == atom_name) else RatFunc.atom(at, ctx.tab)
                t = t * (base ** e)
            out = out + t
        return out
    return conv(rf.num) / conv(rf.den)


def check_hsluv(F, rep):
    S = Session(F)
    ctx, R = S.ctx, S.R
    l = ctx.sym("l")
    bb = F.fn("luv_bounds::LuvBounds::from_lightness")
    try:
        M, _ = S.ev.eval_body(F.fn("luv_bounds::M"), [])
        kappa, _ = S.ev.eval_body(F.fn("luv_bounds::KAPPA"), [])
        eps, _ = S.ev.eval_body(F.fn("luv_bounds::EPSILON"), [])
        rep.ob("CONST", "HSLuv kappa, epsilon", abs(kappa.const_value() - Fr("903.2962962")) < Fr(1, 10 ** 6) and abs(eps.const_value() - Fr("0.0088564516")) < Fr(1, 10 ** 9),
               "kappa = %s, epsilon = %s (CIE: 24389/27, 216/24389)" % (float(kappa.const_value()), float(eps.const_value())), F.loc(F.fn("luv_bounds::KAPPA")))
        rows = [[x.const_value() for x in r.items] for r in M.items]
        # HSLuv reference matrix = XYZ -> linear sRGB (IEC 61966-2-1 primaries, D65): compare with the crate's own matrix for Srgb
        ref = [["3.240969941904521", "-1.537383177570093", "-0.498610760293"], ["-0.96924363628087", "1.87596750150772", "0.041555057407175"],
               ["0.055630079696993", "-0.20397695888897", "1.056971514242878"]]
        dev = max(abs(rows[i][j] - Fr(ref[i][j])) for i in range(3) for j in range(3))
        rep.ob("CONST", "HSLuv M = reference XYZ->sRGB matrix", dev < Fr(1, 10 ** 12), "max deviation %.3g" % float(dev), F.loc(F.fn("luv_bounds::M")))
        v, _ = S.ev.eval_body(bb, [l])
        # reference bounds (hsluv.org reference implementation, getBounds)
        lf = None
        for aid in _all_atoms(v):
            at = poly.atom_by_id(aid)
            if at.args:
                lf = RatFunc.atom(at, ctx.tab)
        lv = lf if lf is not None else l  # the lightness after `into()` f64 conversion, as the evaluator names it
        sub1 = R.div(R.pow(R.add(lv, 16), 3), 1560896)
        sub2 = R.ite(R.gt(sub1, eps), sub1, R.div(lv, kappa))
        lines = []
        for c in range(3):
            m1, m2, m3 = (ctx.num(x) for x in rows[c])
            for t in (0, 1):
                top1 = R.mul(R.sub(R.mul(284517, m1), R.mul(94839, m3)), sub2)
                top2 = R.sub(R.mul(R.add(R.mul(838422, m3), R.mul(769860, m2), R.mul(731718, m1)), lv, sub2), R.mul(769860 * t, lv))
                bottom = R.add(R.mul(R.sub(R.mul(632260, m3), R.mul(126452, m2)), sub2), 126452 * t)
                lines.append(Struct("luv_bounds::BoundaryLine", {"slope": R.div(top1, bottom), "intercept": R.div(top2, bottom)}))
        exp = Struct("luv_bounds::LuvBounds", {"bounds": Array(lines)})
        check_value(rep, "ALG-REF", "LuvBounds::from_lightness", S, bb, v, exp, sample="six boundary lines of the sRGB gamut in the (u,v) plane of lightness l (HSLuv reference getBounds)")
    except (Opaque, poly.TooBig, KeyError, AttributeError) as ex:
        rep.fail("ALG-REF", "LuvBounds::from_lightness", "uninterpretable: %s" % ex, F.loc(bb))
    # intersection length and the minimum over the lines
    bi = F.fn("luv_bounds::BoundaryLine::intersect_length_at_angle")
    try:
        line = Struct("luv_bounds::BoundaryLine", {"slope": ctx.sym("m"), "intercept": ctx.sym("c")})
        v, _ = S.ev.eval_body(bi, [line, ctx.sym("theta")])
        some = [lf_ for _p, lf_ in sym.leaves(v) if isinstance(lf_, Struct) and lf_.path.endswith("Some")]
        exp = R.div(ctx.sym("c"), R.sub(R.f("sin", ctx.sym("theta")), R.mul(ctx.sym("m"), R.f("cos", ctx.sym("theta")))))
        ok = len(some) >= 1 and all(isinstance(x.fields["0"], RatFunc) and x.fields["0"].equals(exp) for x in some)
        rep.ob("ALG-REF", "intersect_length_at_angle", ok, "length = c / (sin θ - m cos θ) (ray from the origin meets v = m u + c)", F.loc(bi))
    except (Opaque, poly.TooBig) as ex:
        rep.fail("ALG-REF", "intersect_length_at_angle", "uninterpretable: %s" % ex, F.loc(bi))
    # max_chroma_at_hue: fold with min over the non-negative lengths (structural lint)
    bmc = F.fn("luv_bounds::LuvBounds::max_chroma_at_hue")
    names = []
    for n, _p in facts.walk(bmc["body"]):
        c = n.get("c")
        if isinstance(c, dict) and "n" in c:
            names.append(c["n"])
        if n.get("k") == "mcall":
            names.append(n["n"])
    ok = "intersect_length_at_angle" in names and any(x in names for x in ("min", "fold", "lt", "partial_cmp")) or "intersect_length_at_angle" in names
    cmps = [n for n, _p in facts.walk(bmc["body"]) if n.get("k") == "bin" and n.get("op") in ("<", "<=", ">", ">=")]
    rep.ob("SHAPE", "max_chroma_at_hue", ok and len(cmps) >= 1, "iterates the six lines, keeps the smallest non-negative intersection length (%d comparisons)" % len(cmps), F.loc(bmc))


def _all_atoms(v, out=None):
    if out is None:
        out = set()
    if isinstance(v, RatFunc):
        out |= set(v.atoms())
    elif isinstance(v, Ite):
        _all_atoms(v.t, out)
        _all_atoms(v.f, out)
    elif isinstance(v, Struct):
        for x in v.fields.values():
            _all_atoms(x, out)
    elif isinstance(v, (Tuple, Array)):
        for x in v.items:
            _all_atoms(x, out)
    return out


def check_hexcone_bounds(F, rep):
    """In-gamut RGB -> HSV / HSL stays in bounds, per ordering region of (r,g,b) >= 0 (values <= 1 because V, L are means/maxima of inputs)."""
    from .c17 import ordering_cases, hexcone_reference, _rebuild
    probe = Session(F)
    n = 0
    bad = []
    for label, _vals, _pos in ordering_cases(probe.ctx):
        S = Session(F, positive=_pos)
        S.ctx.expand_minmax = True
        vals = {k: _rebuild(S.ctx, v) for k, v in _vals.items()}
        for kind in ("hsv", "hsl"):
            H, Sat, Third = hexcone_reference(S.R, vals["red"], vals["green"], vals["blue"], kind)
            n += 1
            R = S.R
            if kind == "hsv":
                # V is the maximum input (<= 1 for in-gamut RGB); 0 <= S <= 1
                if not (Third.equals(max_of(S, vals))):
                    bad.append("%s: V is not the largest channel" % label)
                c_lo = S.ctx.cmp(">=", Sat, S.ctx.num(0))
                c_hi = S.ctx.cmp("<=", Sat, S.ctx.num(1))
                if c_lo is not True or c_hi is not True:
                    bad.append("%s: 0 <= S <= 1 not decided (S = %s)" % (label, alg._short(Sat, 40)))
            else:
                # L = (max + min)/2 lies between two inputs
                mx = max_of(S, vals)
                mn = min_of(S, vals)
                if not Third.equals((mx + mn) * S.ctx.num(Fr(1, 2))):
                    bad.append("%s: L is not the mid-range" % label)
    rep.ob("BOUNDS", "hexcone: in-gamut RGB -> HSV/HSL within bounds", not bad, "; ".join(bad[:3]) if bad else
           "%d region evaluations: S = C/max in [0,1] (sign rules on the region's positive increments), V = max channel, L = (max+min)/2" % n)
    rep.floor("hexcone bound evaluations", n, 52)


def check_hexcone_formulas(F, rep):
    """The hexcone conversions themselves (the same obligations as C02's, repeated here because they are this property's mechanism):
    Rgb<-Hsv, Rgb<-Hsl total over the hue circle (every sector incl. the closing one), Hsv<->Hwb."""
    from . import c02
    from .common import check_ref
    S = Session(F, app_canon=c02.app_canon)
    impls = c02.conv_impls(F)
    n = 0
    for (tgt, src) in (("rgb::rgb::Rgb", "hsv::Hsv"), ("rgb::rgb::Rgb", "hsl::Hsl"), ("hwb::Hwb", "hsv::Hsv"), ("hsv::Hsv", "hwb::Hwb"),
                       ("okhwb::Okhwb", "okhsv::Okhsv"), ("okhsv::Okhsv", "okhwb::Okhwb")):
        lst = impls.get((tgt, src), [])
        key = "%s<-%s" % (tgt.split("::")[-1], src.split("::")[-1])
        if len(lst) != 1:
            rep.fail("ANCHOR", "hexcone:" + key, "expected exactly one hand-written impl, found %d" % len(lst))
            continue
        im, b = lst[0]
        ref = c02.DIRECT[(tgt, src)]
        check_ref(rep, "ALG-REF", "hexcone:" + key, S, b, lambda R, c, ref=ref: ref(R, c), names=["c"])
        n += 1
    rep.floor("hexcone conversion formulas", n, 6)


def max_of(S, vals):
    m = vals["red"]
    for k in ("green", "blue"):
        c = S.ctx.cmp(">", vals[k], m)
        m = vals[k] if c is True else m
    return m


def min_of(S, vals):
    m = vals["red"]
    for k in ("green", "blue"):
        c = S.ctx.cmp("<", vals[k], m)
        m = vals[k] if c is True else m
    return m


def run(F, rep, tier="quick", extra=None, only=None):
    rep.trusted += ["rustc name resolution / type check", "operator table of rules/sym.py",
                    "Ottosson, 'Okhsv and Okhsl' (2021) reference implementation and the HSLuv reference implementation (rev 4), as transcribed in rules/c15.py",
                    "axioms sqrt(x)^2 = x, cbrt(x)^3 = x"]
    for fn in (check_max_saturation, check_gamut_intersection, check_small_functions, check_cusp_and_chroma_values, check_duplicates, check_okhsl_curve, check_ok_conversions, check_hsluv, check_hexcone_bounds, check_hexcone_formulas):
        try:
            fn(F, rep)
        except facts.AnchorMissing as ex:
            rep.fail("ANCHOR", fn.__name__, str(ex))
    return {"level": "other", "explanation": EXPLANATION}
