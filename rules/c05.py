"""C05 — transfer functions and their lookup tables are faithful, monotone and total."""
import math
import re
import struct
from fractions import Fraction as Fr

from . import alg, sym, poly, consts, rng, facts
from .common import Session, check_value, impl_methods, apps_of, atoms_of
from .sym import Struct, Tuple, Ite, Opaque, NAN, PINF, NINF
from .poly import RatFunc
from .c08 import _find_apps

EXPLANATION = (
    "Static. (LUT-1, proof by intervals over every f32 incl. NaN/±inf) the integer fast paths are evaluated symbolically; on every path "
    "of the clamp the value reaching to_bits is a non-negative, non-NaN float within [min_float, 1-eps], hence the unchecked index "
    "(bits - min_bits) >> shift lies below the table length taken from the table literal, and no cast truncates; the extended-real runs "
    "(NaN, +inf, -inf) reach the ends. (LUT data relations, exact integer arithmetic of the checker on the table literals, no palette code "
    "runs) the encoder is monotone within and across all buckets, saturates at 0 / MAX, and decode-table -> encoder reproduces every code; "
    "decode tables start at 0, end at 1, increase strictly and equal the standard's curve at i/MAX to 1 f32 ulp. (CURVE) the generic float "
    "curves equal the standards' definitions with a knee step < 1e-6 (shared with C02); Rgb/Luma into_linear/from_linear/into_encoding map "
    "every channel through the transfer function of the same field. Not decided: the < 0.6-code error of the fitted tables over all 2^32 "
    "inputs (a statement about the values of a regression fit)."
)

LUT_U8 = "encoding::lut::linear_f32_to_encoded_u8"
LUT_U16 = "encoding::lut::linear_f32_to_encoded_u16_with_linear_scale"
MAX_FLOAT_BITS = 0x3F7FFFFF


def f32v(bits):
    return struct.unpack("<f", struct.pack("<I", bits))[0]


def array_ints(F, S, static_body):
    v, _ = S.ev.eval_body(static_body, [])
    if isinstance(v, sym.Array):
        return [consts.num(x) for x in v.items]
    raise Opaque("not an array literal")


def find_call(F, body, path):
    for n, _p in facts.walk(body["body"]):
        c = n.get("c")
        if n.get("k") == "call" and isinstance(c, dict) and "d" in c and F.S[c["d"]] == path:
            return n
    return None


def const_arg(F, S, e):
    """Value of a path expression naming a const (through casts/refs)."""
    while e.get("k") in ("ref", "cast"):
        e = e["e"]
    v = S.ev.ev(e, sym.Frame({"path": "?", "params": []}, {}, {}, 0))
    return v


def static_of(F, e):
    while e.get("k") in ("ref", "cast"):
        e = e["e"]
    r = e.get("res", {})
    c = r.get("c") or r
    i = c.get("ri", c.get("i"))
    return F.body_by_id.get(i), F.S[c["d"]] if "d" in c else "?"


def run(F, rep, tier="quick", extra=None, only=None):
    rep.trusted += ["rustc name resolution / type check / const evaluation", "operator table of rules/sym.py; interval semantics of rules/rng.py (to_bits monotone on non-negative f32, shifts, masks)",
                    "IEEE-754 comparison semantics for NaN as modelled by the extended-real run (comparisons false, partial_cmp None, f32::min/max ignore NaN, clamp propagates it)",
                    "published transfer curves as transcribed in rules/consts.py"]
    S = Session(F)
    # ---------------------------------------------------------------- call sites
    sites = []
    for tr_args, lutfn in ((("f32", "u8"), LUT_U8), (("f32", "u16"), LUT_U16)):
        for im, ms in impl_methods(F, "encoding::FromLinear"):
            if tuple(im["trait_args_s"]) != tr_args:
                continue
            b = ms.get("from_linear")
            call = find_call(F, b, lutfn)
            fam = (im.get("self_adt") or im["self_s"]).split("::")[-1]
            if call is None:
                rep.fail("LUT-SITE", "site:%s:%s" % (fam, tr_args[1]), "integer fast path does not call %s" % lutfn, F.loc(b))
                continue
            try:
                args = call["a"]
                if lutfn == LUT_U8:
                    minbits = consts.num(const_arg(F, S, args[1]))
                    scale = None
                    tb, tname = static_of(F, args[2])
                else:
                    scale = consts.num(const_arg(F, S, args[1]))
                    minbits = consts.num(const_arg(F, S, args[2]))
                    tb, tname = static_of(F, args[3])
                table = [int(x) for x in array_ints(F, S, tb)]
                sites.append(dict(fam=fam, body=b, lut=lutfn, minbits=int(minbits), scale=scale, table=table, tname=tname, enc=tr_args[1]))
            except (Opaque, AttributeError, KeyError, TypeError) as ex:
                rep.fail("LUT-SITE", "site:%s:%s" % (fam, tr_args[1]), "cannot resolve the call's constants: %s" % ex, F.loc(b))
    rep.floor("LUT call sites", len(sites), 5)

    decode = decode_tables(F, S, rep)
    for st in sites:
        check_site(F, rep, S, st, decode)

    # f64 entry points forward to the f32 fast path of the same family
    S2 = Session(F, no_inline={LUT_U8, LUT_U16})
    by = {}
    for im, ms in impl_methods(F, "encoding::FromLinear"):
        ta = tuple(im["trait_args_s"])
        if ta in (("f32", "u8"), ("f64", "u8"), ("f32", "u16"), ("f64", "u16")):
            by[(im.get("self_adt") or im["self_s"], ta)] = ms.get("from_linear")
    for (fam, ta), b in sorted(by.items()):
        if ta[0] != "f64":
            continue
        b32 = by.get((fam, ("f32", ta[1])))
        key = "f64-forwards:%s:%s" % (fam.split("::")[-1], ta[1])
        try:
            x = S2.ctx.sym("x")
            v64, _ = S2.ev.eval_body(b, [x])
            v32, _ = S2.ev.eval_body(b32, [x])
            check_value(rep, "SHAPE-FWD", key, S2, b, v64, v32, sample="same fast path, constants and table as the f32 entry point")
        except (Opaque, poly.TooBig, TypeError) as ex:
            rep.fail("SHAPE-FWD", key, "uninterpretable: %s" % ex, F.loc(b))

    # ---------------------------------------------------------------- generic curves (shared with C02)
    consts.check_transfer_functions(F, rep, Session(F))
    check_channel_maps(F, rep)
    check_standard_siblings(F, rep)
    return {"level": "other"}


# -------------------------------------------------------------------------------------------------
def decode_tables(F, S, rep):
    """{family: {(float, uint): list of Fractions}} from the IntoLinear<fN, uN> impls."""
    out = {}
    for im, ms in impl_methods(F, "encoding::IntoLinear"):
        ta = tuple(im["trait_args_s"])
        if ta not in (("f32", "u8"), ("f64", "u8"), ("f32", "u16"), ("f64", "u16")):
            continue
        fam = (im.get("self_adt") or im["self_s"]).split("::")[-1]
        b = ms.get("into_linear")
        tb = None
        for n, _p in facts.walk(b["body"]):
            if n.get("k") == "index":
                tb, tname = static_of(F, n["a"][0])
                idx = n["a"][1]
        if tb is None:
            rep.fail("LUT-DEC", "decode:%s:%s" % (fam, "/".join(ta)), "decoder is not a table lookup", F.loc(b))
            continue
        try:
            vals = array_ints(F, S, tb)
            out.setdefault(fam, {})[ta] = (vals, tname, b)
        except Opaque as ex:
            rep.fail("LUT-DEC", "decode:%s:%s" % (fam, "/".join(ta)), "table not a literal: %s" % ex, F.loc(b))
    return out


CURVES = {
    "Srgb": lambda e: e / 12.92 if e <= 0.04045 else ((e + 0.055) / 1.055) ** 2.4,
    "RecOetf": lambda e: e / 4.5 if e < 4.5 * 0.018053968510807 else ((e + 0.09929682680944) / 1.09929682680944) ** (1 / 0.45),
    "AdobeRgb": lambda e: e ** (563.0 / 256.0),
    "P3Gamma": lambda e: e ** 2.6,
    "ProPhotoRgb": lambda e: e / 16.0 if e < 1.0 / 32.0 else e ** 1.8,
}


def ulp32(x):
    b = struct.unpack("<I", struct.pack("<f", x))[0]
    return abs(struct.unpack("<f", struct.pack("<I", b + 1))[0] - x)


def check_site(F, rep, S, st, decode):
    fam, enc = st["fam"], st["enc"]
    key = "%s:%s" % (fam, enc)
    b = F.fn(st["lut"])
    loc = F.loc(st["body"])
    table = st["table"]
    emax = 255 if enc == "u8" else 65535
    x = S.ctx.sym("x")
    tabsym = S.ctx.sym("table")

    def call(inp):
        if st["lut"] == LUT_U8:
            return S.ev.eval_body(b, [inp, S.ctx.num(st["minbits"]), tabsym])[0]
        return S.ev.eval_body(b, [inp, S.ctx.num(st["scale"]), S.ctx.num(st["minbits"]), tabsym])[0]
    try:
        v = call(x)
    except (Opaque, poly.TooBig) as ex:
        rep.fail("LUT-1", "index-in-bounds:" + key, "uninterpretable: %s" % ex, F.loc(b))
        return
    # ---- LUT-1: every path, whole range of x on that path
    xkey = alg.linear_form(x)[0]
    problems = []
    npaths = 0
    table_leaves = []
    for path, leaf in sym.leaves(v):
        ok, ivs = alg.feasible(path, S.ctx)
        if not ok:
            continue
        npaths += 1
        iv = (ivs or {}).get(xkey)
        lo = iv.lo[0] if iv is not None and iv.lo is not None else None
        hi = iv.hi[0] if iv is not None and iv.hi is not None else None
        uses_x = "x" in atoms_of(leaf)
        env = rng.Env(tables={"table": table})
        if uses_x:
            if lo is None or hi is None:
                problems.append("input unbounded on a path that reads the table: %s" % alg._short(leaf, 120))
                continue
            env.atoms["x"] = (lo, hi)
        idx_atoms = _find_apps(leaf, lambda n: "get_unchecked" in n)
        if idx_atoms:
            table_leaves.append((path, leaf, lo, hi, uses_x))
        try:
            for a in idx_atoms:
                rng.interval(a.args[1], env)  # raises on to_bits sign / index violations
                ilo, ihi = rng.interval(a.args[1], env)
                if ilo < 0 or ihi >= len(table):
                    problems.append("index range [%s, %s] vs table length %d when x in [%s, %s]" % (ilo, ihi, len(table), lo, hi))
        except rng.RangeViolation as ex:
            problems.append(str(ex))
        except rng.Unknown as ex:
            problems.append("range analysis incomplete: %s" % ex)
    imax = (MAX_FLOAT_BITS - st["minbits"]) >> (20 if enc == "u8" else 16)
    rep.ob("LUT-1", "index-in-bounds:" + key, not problems and npaths >= 3,
           "; ".join(problems) if problems else "%d clamp paths; max index %d < table length %d" % (npaths, imax, len(table)), loc)
    # ---- extended reals
    for name, val, want in (("NaN", NAN, 0), ("-inf", NINF, 0), ("+inf", PINF, emax)):
        try:
            r = call(val)
            env = rng.Env(tables={"table": table})
            if any("(NaN)" in a for a in atoms_of(r)):
                rep.fail("LUT-1", "total:%s:%s" % (key, name), "NaN reaches the bit manipulation: %s" % alg._short(r, 200), loc)
                continue
            lo, hi = rng.interval(r, env)
            rep.ob("LUT-SAT", "total:%s:%s" % (key, name), lo == hi == want, "%s encodes to %s (expected %d)" % (name, lo if lo == hi else (lo, hi), want), loc)
        except (Opaque, poly.TooBig, rng.Unknown) as ex:
            rep.fail("LUT-1", "total:%s:%s" % (key, name), "uninterpretable: %s" % ex, loc)
        except rng.RangeViolation as ex:
            rep.fail("LUT-1", "total:%s:%s" % (key, name), str(ex), loc)
    # ---- data relations: point evaluation of the table path
    main = [t for t in table_leaves if t[4]]
    if len(main) != 1:
        rep.fail("LUT-MONO", "encoder-monotone:" + key, "expected exactly one path reading the table with the unclamped input, found %d" % len(main), loc)
        return
    leaf = main[0][1]

    def encode_bits(bits):
        env = rng.Env(atoms={"x": (Fr(f32v(bits)),) * 2}, tables={"table": table})
        lo, hi = rng.interval(leaf, env)
        assert lo == hi
        return int(lo)
    shift = 20 if enc == "u8" else 16
    try:
        prev = None
        bad = []
        first = last = None
        for i in range(len(table)):
            b0 = st["minbits"] + (i << shift)
            b1 = min(st["minbits"] + ((i + 1) << shift) - 1, MAX_FLOAT_BITS)
            if b0 > MAX_FLOAT_BITS:
                break
            r0, r1 = encode_bits(b0), encode_bits(b1)
            if first is None:
                first = r0
            last = r1
            if r0 > r1:
                bad.append("bucket %d decreases (%d -> %d)" % (i, r0, r1))
            if prev is not None and prev > r0:
                bad.append("step down between buckets %d and %d (%d -> %d)" % (i - 1, i, prev, r0))
            prev = r1
        rep.ob("LUT-MONO", "encoder-monotone:" + key, not bad, "; ".join(bad[:4]) if bad else
               "%d buckets: non-decreasing within (scale >= 0, linear in the mantissa bits) and across buckets; first code %d, last code %d" % (len(table), first, last), loc)
        if enc == "u8":
            rep.ob("LUT-SAT", "encoder-ends:" + key, last == emax and first == 0, "min_float -> %d, 1-eps -> %d" % (first, last), loc)
        else:
            # below min_float the u16 path is linear: (scale*x + 2^23).to_bits() & 65535; it must meet the table at min_float
            xm = f32v(st["minbits"] - 1)
            yv = struct.unpack("<f", struct.pack("<f", float(st["scale"]) * xm + 8388608.0))[0]
            tail = struct.unpack("<I", struct.pack("<f", yv))[0] & 65535
            rep.ob("LUT-SAT", "encoder-ends:" + key, last == emax and first - tail in (0, 1),
                   "linear tail just below min_float -> %d, table at min_float -> %d, 1-eps -> %d" % (tail, first, last), loc)
    except (rng.Unknown, rng.RangeViolation, AssertionError) as ex:
        rep.fail("LUT-MONO", "encoder-monotone:" + key, "point evaluation failed: %s" % ex, loc)
    # ---- decode tables: shape, curve, round trip
    dec = decode.get(fam, {})
    d32, d64 = dec.get(("f32", enc)), dec.get(("f64", enc))
    if d32 and d64 and d32[1] != d64[1]:
        diff = [i for i in range(min(len(d32[0]), len(d64[0]))) if rng.f32_round(d64[0][i]) != rng.f32_round(d32[0][i])]
        rep.ob("LUT-SIB", "f32-table=rounded-f64-table:%s:%s" % (fam, enc), not diff and len(d32[0]) == len(d64[0]),
               ("entries differ: %s" % diff[:5]) if diff else "%d entries: f32 literal = f64 literal rounded to f32" % len(d32[0]), F.loc(d32[2]))
    for (ft, ut), (vals, tname, db) in sorted(dec.items()):
        if ut != enc:
            continue
        dkey = "%s:%s->%s" % (fam, ut, ft)
        n = len(vals)
        probs = []
        if n != emax + 1:
            probs.append("length %d" % n)
        if vals[0] != 0 or vals[-1] != 1:
            probs.append("ends %s .. %s" % (vals[0], vals[-1]))
        if any(vals[i] >= vals[i + 1] for i in range(n - 1)):
            probs.append("not strictly increasing")
        curve = CURVES.get(fam)
        worst = 0.0
        if curve is None:
            probs.append("no reference curve for " + fam)
        else:
            # the generator derives the offset from continuity (alpha = 1.05501… instead of the published 1.055), which moves
            # the curve by < 3e-9; the tolerance is half of the 1e-6 knee step the property grants the published constants
            for i in range(n):
                ref = curve(i / float(emax))
                tol = 5e-7
                err = abs(float(vals[i]) - ref)
                worst = max(worst, err / tol)
                if err > tol:
                    probs.append("entry %d = %r vs standard curve %r" % (i, float(vals[i]), ref))
                    break
        rep.ob("LUT-DEC", "decode-table:" + dkey, not probs, "; ".join(probs) if probs else "%d entries, 0..1 strictly increasing, = standard curve at i/%d (worst error %.2f of tolerance)" % (n, emax, worst), F.loc(db))
        if ft == "f32" or (enc == "u16" and ft == "f64"):
            # round trip through the encoder (as the f32 the decoder hands out)
            try:
                miss = []
                for c in range(n):
                    xv = struct.unpack("<f", struct.pack("<f", float(vals[c])))[0]
                    bits = struct.unpack("<I", struct.pack("<f", xv))[0]
                    if xv <= f32v(st["minbits"]) and enc == "u8":
                        code = encode_bits(st["minbits"])
                    elif enc == "u16" and xv < f32v(st["minbits"]):
                        # linear tail: (scale*x + 2^23).to_bits() & 65535
                        yv = struct.unpack("<f", struct.pack("<f", float(st["scale"]) * xv + 8388608.0))[0]
                        code = struct.unpack("<I", struct.pack("<f", yv))[0] & 65535
                    else:
                        code = encode_bits(min(bits, MAX_FLOAT_BITS))
                    if code != c:
                        miss.append((c, code))
                rep.ob("LUT-RT", "decode-encode-roundtrip:" + dkey, not miss, ("codes not reproduced: %s" % miss[:5]) if miss else "all %d codes reproduce" % n, loc)
            except (rng.Unknown, rng.RangeViolation, AssertionError) as ex:
                rep.fail("LUT-RT", "decode-encode-roundtrip:" + dkey, "point evaluation failed: %s" % ex, loc)


def check_channel_maps(F, rep):
    """Rgb / Luma (and Alpha forms) into_linear / from_linear / into_encoding / from_encoding: each channel through the
    transfer function, field to same field; alpha through FromStimulus."""
    S = Session(F)
    n = 0
    for b in F.bodies:
        if b["name"] not in ("into_linear", "from_linear", "into_encoding", "from_encoding"):
            continue
        im = b["_impl"]
        if im is None or im.get("trait"):
            continue
        adt = im.get("self_adt") or ""
        if adt.split("::")[-1] not in ("Rgb", "Luma", "Alpha"):
            continue
        key = "%s[%s]" % (b["name"], im["self_s"])
        n += 1
        try:
            args = S.args(b, ["c"])
            v, _ = S.ev.eval_body(b, args)
        except (Opaque, poly.TooBig) as ex:
            rep.fail("SHAPE-FIELD", key, "uninterpretable: %s" % ex, F.loc(b))
            continue
        problems = []
        meth = b["name"]
        if "encoding::linear::Linear<" in im["self_s"]:
            meth = {"into_encoding": "from_linear", "from_encoding": "into_linear"}.get(meth, meth)
        _channels(v, "c", problems, meth)
        rep.ob("SHAPE-FIELD", key, not problems, "; ".join(problems) if problems else alg._short(v, 220), F.loc(b))
    rep.floor("channel-mapping methods", n, 10)


def _channels(v, prefix, problems, meth):
    if isinstance(v, Struct):
        for k, x in v.fields.items():
            if alg._is_phantom(x):
                continue
            _channels(x, prefix + "." + k, problems, meth)
        return
    if isinstance(v, RatFunc):
        at = {a for a in atoms_of(v) if not a.startswith("@")}
        aps = apps_of(v)
        if at != {prefix}:
            problems.append("%s is built from %s" % (prefix, sorted(at)))
            return
        if prefix.endswith(".alpha"):
            if not all("Stimulus" in a for a in aps):
                problems.append("alpha goes through %s" % sorted(aps))
            return
        want = {"into_linear": ["IntoLinear::into_linear"], "from_linear": ["FromLinear::from_linear"],
                "into_encoding": ["IntoLinear::into_linear", "FromLinear::from_linear"], "from_encoding": ["IntoLinear::into_linear", "FromLinear::from_linear"]}[meth]
        for w in want:
            if not any(w in a for a in aps):
                problems.append("%s does not go through %s (%s)" % (prefix, w, sorted(aps)))
        return
    problems.append("%s: unexpected %r" % (prefix, v))


# STD-REF: which curve each named standard is defined with (IEC 61966-2-1, BT.709/BT.2020, Adobe RGB (1998), SMPTE RP 431-2, Display P3, ROMM).
STANDARD_CURVE = {
    "encoding::srgb::Srgb": "encoding::srgb::Srgb",
    "encoding::rec_standards::Rec709": "encoding::rec_standards::RecOetf",
    "encoding::rec_standards::Rec2020": "encoding::rec_standards::RecOetf",
    "encoding::adobe::AdobeRgb": "encoding::adobe::AdobeRgb",
    "encoding::p3::DciP3": "encoding::p3::P3Gamma",
    "encoding::p3::DisplayP3": "encoding::srgb::Srgb",
    "encoding::prophoto::ProPhotoRgb": "encoding::prophoto::ProPhotoRgb",
}


def _iloc(F, im):
    return "%s:%s" % (F.S[im["loc"][0]], im["loc"][1])


def check_standard_siblings(F, rep):
    """STD-SIB / STD-REF: `Luma<St, _>` and `Rgb<St, _>` of one standard `St` must encode with the same curve and sit at the same white point, and
    the named standards must use their own curve.  Decided on the normalised associated types of the `RgbStandard`, `LumaStandard` and `RgbSpace`
    impls (aliases and projections are already resolved by the compiler)."""
    def normalize(t, depth=0):
        # resolve `<Concrete as Trait>::Name` through the impl that defines it (the driver records associated types as written)
        m = re.search(r"<([\w:]+) as ([\w:]+)>::(\w+)", t)
        while m and depth < 8:
            hit = None
            for im in F.impls:
                if im["self_s"] == m.group(1) and str(im.get("trait") or "") == m.group(2):
                    for i in im["items"]:
                        if i["n"] == m.group(3) and "ty" in i:
                            hit = F.S[i["ty"]]
            if hit is None:
                break
            t = t[:m.start()] + hit + t[m.end():]
            depth += 1
            m = re.search(r"<([\w:]+) as ([\w:]+)>::(\w+)", t)
        return t

    def assoc(im):
        return {i["n"]: normalize(F.S[i["ty"]]) for i in im["items"] if "ty" in i}
    rgb, luma, space = {}, {}, {}
    for im in F.impls:
        tr = str(im.get("trait") or "")
        key = im.get("self_adt") or im["self_s"]
        if im["self_s"].startswith("("):
            key = "(%d-tuple)" % (im["self_s"].count(",") + 1)
        if tr.endswith("RgbStandard"):
            rgb[key] = im
        elif tr.endswith("LumaStandard"):
            luma[key] = im
        elif tr.endswith("RgbSpace"):
            space[key] = im
    n = 0
    for key in sorted(set(rgb) & set(luma)):
        r, l = assoc(rgb[key]), assoc(luma[key])
        n += 1
        # compare modulo the impl's own parameter names: positional renaming of the self type's arguments
        def norm(im, t):
            args = alg.split_type(im["self_s"])[1] if "<" in im["self_s"] else (
                [x.strip() for x in im["self_s"].strip("()").split(",")] if im["self_s"].startswith("(") else [])
            for i, a in enumerate(args):
                t = re.sub(r"\b%s\b" % re.escape(a), "$%d" % i, t)
            return t
        tr_, tl_ = norm(rgb[key], r.get("TransferFn", "?")), norm(luma[key], l.get("TransferFn", "?"))
        rep.ob("STD-SIB", "%s: TransferFn" % key, tr_ == tl_,
               "RgbStandard::TransferFn = %s, LumaStandard::TransferFn = %s" % (r.get("TransferFn"), l.get("TransferFn")), _iloc(F, luma[key]))
        sp = r.get("Space")
        spk = None
        for k, im in space.items():
            if im["self_s"] == sp:
                spk = k
        if spk is not None and "<" not in key and not key.startswith("("):
            wp = assoc(space[spk]).get("WhitePoint")
            rep.ob("STD-SIB", "%s: WhitePoint" % key, wp == l.get("WhitePoint"),
                   "RgbSpace(%s)::WhitePoint = %s, LumaStandard::WhitePoint = %s" % (sp, wp, l.get("WhitePoint")), _iloc(F, luma[key]))
        if key in STANDARD_CURVE:
            rep.ob("STD-REF", "%s: curve" % key, r.get("TransferFn") == STANDARD_CURVE[key],
                   "RgbStandard::TransferFn = %s, the standard defines %s" % (r.get("TransferFn"), STANDARD_CURVE[key]), _iloc(F, rgb[key]))
    rep.floor("standards with RGB and luma impls", n, 11)
    rep.floor("named standards with a reference curve", len([k for k in STANDARD_CURVE if k in rgb]), len(STANDARD_CURVE))
