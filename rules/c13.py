"""C13 — in-place conversion equals out-of-place conversion and guards restore on drop."""
import re

from . import facts
from .common import impl_methods

EXPLANATION = (
    "Static FLOW/typestate rules over the resolved HIR of convert/from_into_color(_unclamped)_mut.rs and the Vec/Box impls: "
    "(GUARD-1) every guard method that consumes `self`, and Drop::drop, reads `self.current` only through `.take()`, and the conversion "
    "mapped over the taken reference has exactly the type arguments the method promises (target = the new guard's colour type, source = the "
    "type the buffer currently holds; restore/drop: target = the original type); (GUARD-2) every guard created inside these modules is the "
    "direct argument of mem::forget or has its `current` taken; (GUARD-3) the single-value impl clones, reinterprets through "
    "from_array_mut(into_array_mut(_)) and stores the clone's into_color()/into_color_unclamped(); the slice impl converts each element, "
    "forgets its guard, then casts the slice once; the clamped and unclamped files are equal modulo the rename table; (GUARD-4) Vec / "
    "Box<[T]> impls map in place with the conversion function of the same trait (address/length/capacity: C04 CAST-3/ALLOC). "
    "Not decided: value equality beyond 'the stored value is the out-of-place conversion of the original'."
    " GUARD-SIG: chaining methods return the guard kind they are named after with the original type U kept (compiler's type of the body)."
)

FILES = {"clamped": "convert/from_into_color_mut.rs", "unclamped": "convert/from_into_color_unclamped_mut.rs"}
RENAME = [("from_color_unclamped_mut", "from_color_mut"), ("FromColorUnclampedMut", "FromColorMut"), ("into_color_unclamped_mut", "into_color_mut"),
          ("IntoColorUnclampedMut", "IntoColorMut"), ("into_color_unclamped", "into_color"), ("IntoColorUnclamped", "IntoColor"),
          ("from_color_unclamped", "from_color"), ("FromColorUnclamped", "FromColor"), ("into_clamped_guard", "into_unclamped_guard"),
          ("then_into_color_unclamped_mut", "then_into_color_mut"), ("from_into_color_unclamped_mut", "from_into_color_mut"),
          ("from_into_color_unclamped", "from_into_color")]


SWAP = [("from_color_unclamped_mut", "from_color_mut"), ("FromColorUnclampedMutGuard", "FromColorMutGuard"), ("FromColorUnclampedMut", "FromColorMut"),
        ("into_color_unclamped_mut", "into_color_mut"), ("IntoColorUnclampedMut", "IntoColorMut"), ("into_color_unclamped", "into_color"),
        ("then_into_color_unclamped_mut", "then_into_color_mut"), ("into_clamped_guard", "into_unclamped_guard"),
        ("from_into_color_unclamped_mut", "from_into_color_mut")]


def canon(s, swap=False):
    """Identity for the clamped module; for the unclamped module every clamped<->unclamped token is swapped, so that
    a same-kind chain compares with a same-kind chain and a cross-kind step with a cross-kind step."""
    s = re.sub(r"\{closure@[^}]*\}", "{closure}", s)
    if not swap:
        return s
    toks = sorted({t for pair in SWAP for t in pair}, key=len, reverse=True)
    mapping = {}
    for a, b in SWAP:
        mapping[a] = b
        mapping[b] = a
    pat = re.compile("|".join(re.escape(t) for t in toks))
    return pat.sub(lambda m: mapping[m.group(0)], s)


def callees(F, body):
    """Ordered list of (callee path, generic args, node, parents) of a body."""
    out = []
    for node, parents in facts.walk(body["body"]):
        c = node.get("c")
        if isinstance(c, dict) and "d" in c:
            out.append((F.S[c["d"]], [F.S[a] for a in c["a"]], node, parents))
        r = node.get("res")
        if node.get("k") == "path" and isinstance(r, dict) and r.get("k") == "def" and r.get("dk") in ("Fn", "AssocFn") and "c" in r:
            out.append((F.S[r["c"]["d"]], [F.S[a] for a in r["c"]["a"]], node, parents))
    return out


def is_self_current(node):
    return node.get("k") == "field" and node.get("n") == "current" and node["e"].get("k") == "path" and node["e"]["res"].get("n") == "self"


def current_uses(body):
    """(takes, other uses) of `self.current` in a body."""
    takes, others = 0, 0
    for node, parents in facts.walk(body["body"]):
        if is_self_current(node):
            par = parents[-1] if parents else {}
            if par.get("k") == "mcall" and par.get("n") == "take" and par.get("r") is node:
                takes += 1
            else:
                others += 1
    return takes, others


# method -> (conversion trait method mapped over the taken reference, (target, source) in terms of the guard's type parameters)
GUARD_METHODS = {
    "then_into_color_mut": ("from_color_mut", ("C", "T")),
    "then_into_color_unclamped_mut": ("from_color_unclamped_mut", ("C", "T")),
    "into_unclamped_guard": (None, None),
    "into_clamped_guard": (None, None),
    "restore": ("ORIGINAL", ("U", "T")),
    "drop": ("ORIGINAL", ("U", "T")),
}


def check_guard_types(F, rep):
    """The borrow checker enforces exclusivity and linearity only if the guard really holds the unique borrow and its finishing methods
    consume it: `current: Option<&'a mut T>` (private), `original: PhantomData<&'a mut U>`, no other field, no Clone/Copy impl,
    restore / then_into_* / into_*_guard take `self` by value."""
    n = 0
    for a in F.adts:
        if not a["path"].endswith("MutGuard"):
            continue
        n += 1
        fields = [(f["n"], F.S[f["t"]], bool(f.get("pub"))) for f in a["variants"][0]["f"]]
        ok = fields == [("current", "std::option::Option<&'a mut T>", False), ("original", "std::marker::PhantomData<&'a mut U>", False)]
        cloneable = [im["self_s"] for im in F.impls if (im.get("self_adt") or "") == a["path"] and str(im.get("trait") or "").split("::")[-1] in ("Clone", "Copy")]
        byval = []
        for b in F.bodies:
            im = b.get("_impl")
            if im is None or (im.get("self_adt") or "") != a["path"] or b["name"] not in GUARD_METHODS or b["name"] == "drop":
                continue
            t0 = F.S[b["ins"][0]] if b.get("ins") else ""
            if t0.startswith("&"):
                byval.append(b["name"])
        rep.ob("GUARD-TYPE", a["path"].split("::")[-1], ok and not cloneable and not byval,
               "fields %s; Clone/Copy impls %s; finishing methods taking a reference %s" % (fields, cloneable, byval), "%s" % a["path"])
    rep.floor("guard types", n, 2)
    # GUARD-SIG: what a chaining method hands back.  The guard's second type parameter is the type the buffer is *owned* as (what restore
    # converts back to); a chain step changes the current type and the kind of guard, never the original: Guard<'a, T, U>::then_into_*::<C>()
    # -> Guard'<'a, C, U>, into_*_guard -> Guard'<'a, T, U>, with Guard' the guard kind the method is named after.
    KIND = {"then_into_color_mut": ("FromColorMutGuard", "C"), "then_into_color_unclamped_mut": ("FromColorUnclampedMutGuard", "C"),
            "into_clamped_guard": ("FromColorMutGuard", "T"), "into_unclamped_guard": ("FromColorUnclampedMutGuard", "T")}
    m = 0
    for b in F.bodies:
        im = b.get("_impl")
        if im is None or not (im.get("self_adt") or "").endswith("MutGuard") or b["name"] not in KIND or im.get("trait"):
            continue
        m += 1
        out = F.ty(b["body"]) or ""
        gk, cur = KIND[b["name"]]
        mt = re.match(r"^convert::\w+::(\w+)<'\w+, (.+), (\w+)>$", out)
        ok = bool(mt) and mt.group(1) == gk and mt.group(2) == cur and mt.group(3) == "U"
        rep.ob("GUARD-SIG", "%s::%s" % (im["self_s"].split("::")[-1], b["name"]), ok,
               "returns %s (expected %s<'a, %s, U>: the original type U is what the buffer is owned as)" % (out, gk, cur), F.loc(b))
    rep.floor("guard chaining methods", m, 6)


def run(F, rep, tier="quick", extra=None, only=None):
    rep.trusted += ["rustc name resolution / type check (callee identity and generic arguments)", "the rename table between the clamped and unclamped modules (rules/c13.py)"]
    check_guard_types(F, rep)
    shapes = {}
    for kind, fsuffix in FILES.items():
        bodies = [b for b in F.bodies if b["file"].endswith(fsuffix) and b["dk"] in ("Fn", "AssocFn") and "::test" not in b["path"]]
        rep.floor("bodies in " + fsuffix, len(bodies), 10)
        conv = "from_color_mut" if kind == "clamped" else "from_color_unclamped_mut"
        outofplace = "into_color" if kind == "clamped" else "into_color_unclamped"
        n_guard = 0
        for b in bodies:
            name = b["name"]
            im = b["_impl"]
            key = "%s:%s[%s]" % (kind, name, (im or {}).get("self_s", ""))
            cs = callees(F, b)
            sw = kind == "unclamped"
            shapes.setdefault(canon(key.split(":", 1)[1], sw), {})[kind] = [canon(p.split("::")[-1] + "<" + ",".join(a) + ">", sw) for p, a, _n, _pp in cs
                                                                             if not p.startswith(("core::panicking", "std::rt"))]
            # ---------------- GUARD-1
            if name in GUARD_METHODS and im is not None and "Guard" in (im.get("self_adt") or ""):
                n_guard += 1
                takes, others = current_uses(b)
                problems = []
                if takes < 1:
                    problems.append("`self.current` is not taken")
                if others:
                    problems.append("`self.current` is also used without take() (%d times)" % others)
                want, targs = GUARD_METHODS[name]
                convs = [(p, a) for p, a, _n, _pp in cs if re.search(r"FromColor(Unclamped)?Mut::from_color(_unclamped)?_mut$", p)]
                if want is None:
                    if convs:
                        problems.append("converts although it only changes the guard kind: %s" % convs)
                else:
                    w = conv if want == "ORIGINAL" else want
                    if len(convs) != 1:
                        problems.append("expected exactly one mapped conversion, found %s" % [c[0].split("::")[-1] for c in convs])
                    else:
                        p, a = convs[0]
                        if not p.endswith("::" + w):
                            problems.append("maps %s, expected %s" % (p.split("::")[-1], w))
                        # generic args of Trait::method are [Self(target), Source]
                        if a[:2] != list(targs):
                            problems.append("conversion instantiated as %s <- %s, expected %s <- %s" % (a[0], a[1] if len(a) > 1 else "?", targs[0], targs[1]))
                # path sensitivity: the take (and with it the restore) happens on EVERY path through the method: no early exit, and the
                # `take()` is not inside a branch arm (the scrutinee/condition position of `if let Some(c) = self.current.take()` is fine)
                exits = [nd for nd, _p in facts.walk(b["body"]) if nd.get("k") in ("ret", "try")]
                if exits:
                    problems.append("early exit at line %s: on that path the buffer is left in the converted type" % exits[0].get("l"))
                for p, a, nd, pp in cs:
                    if p.endswith("::take") and is_self_current(nd.get("r") or {}):
                        chain = list(pp) + [nd]
                        for par, ch in zip(chain, chain[1:]):
                            if (par.get("k") == "if" and (ch is par.get("th") or ch is par.get("el"))) or \
                               (par.get("k") == "match" and any(ch is arm.get("b") or ch is arm.get("g") for arm in par.get("arms", []))):
                                problems.append("`self.current.take()` at line %s is conditional (inside a branch arm at line %s)" % (nd.get("l"), par.get("l")))
                                break
                if name == "drop":
                    fg = [n for p, a, n, pp in cs if p.endswith("mem::forget")]
                    if len(fg) != 1:
                        problems.append("the guard made while restoring is not forgotten")
                rep.ob("GUARD-1", key, not problems, "; ".join(problems) if problems else "takes `current` before building its result; conversion %s" % (targs,), F.loc(b))
            # ---------------- GUARD-2 / GUARD-3
            if name == conv and im is not None and im.get("trait", "").endswith("Mut"):
                if im["self_s"] == "T":
                    seq = [p.split("::")[-1] for p, a, n, pp in cs]
                    want_seq = ["clone", "into_array_mut", "from_array_mut", outofplace]
                    pos = [seq.index(w) if w in seq else -1 for w in want_seq]
                    ok = all(x >= 0 for x in pos) and pos[0] < pos[3]
                    # from_array_mut(into_array_mut(param)) nesting and `*result = clone.into_color()`
                    nest = any(p.endswith("from_array_mut") and n["a"] and n["a"][0].get("k") == "call" and F.S[n["a"][0].get("c", {}).get("d", 0)].endswith("into_array_mut")
                               for p, a, n, pp in cs if n.get("k") == "call")
                    assign_ok = False
                    for node, parents in facts.walk(b["body"]):
                        if node.get("k") == "assign":
                            lhs, rhs = node["a"]
                            if lhs.get("k") == "un" and lhs.get("op") == "*" and rhs.get("k") == "mcall" and rhs.get("n") == outofplace:
                                assign_ok = True
                    other_conv = [s for s in seq if s in ("into_color", "into_color_unclamped", "from_color", "from_color_unclamped") and s != outofplace]
                    rep.ob("GUARD-3", key, ok and nest and assign_ok and not other_conv,
                           "callees %s; reinterpret nesting %s; stores clone.%s(): %s; other conversions: %s" % (seq, nest, outofplace, assign_ok, other_conv), F.loc(b))
                elif im["self_s"] == "[T]":
                    inloop = [(p.split("::")[-1], any(q.get("k") == "loop" for q in pp)) for p, a, n, pp in cs]
                    # per-element conversion directly inside mem::forget, inside the loop; one slice cast after it
                    forget_ok = False
                    for p, a, n, pp in cs:
                        if p.endswith("mem::forget") and any(q.get("k") == "loop" for q in pp) and n.get("a"):
                            arg = n["a"][0]
                            cc = arg.get("c") if isinstance(arg.get("c"), dict) else None
                            if arg.get("k") == "call" and cc and F.S[cc["d"]].endswith("::" + conv):
                                forget_ok = True
                    elem_calls = [x for x in inloop if x[0] == conv]
                    casts = [x for x in inloop if x[0] in ("from_array_slice_mut", "into_array_slice_mut")]
                    ok = forget_ok and len(elem_calls) == 1 and elem_calls[0][1] and len(casts) == 2 and not any(c[1] for c in casts)
                    rep.ob("GUARD-2", key, ok, "element guards forgotten in the loop: %s; calls %s" % (forget_ok, inloop), F.loc(b))
        rep.floor("guard methods in " + fsuffix, n_guard, 5)
    # ---------------- sibling agreement of the two files
    n = 0
    for item, d in sorted(shapes.items()):
        if "clamped" in d and "unclamped" in d:
            n += 1
            rep.ob("ALG-SIB", "twin:" + item, d["clamped"] == d["unclamped"],
                   "clamped %s vs unclamped %s" % (d["clamped"][:8], d["unclamped"][:8]) if d["clamped"] != d["unclamped"] else "same callee sequence modulo the rename table (%d calls)" % len(d["clamped"]),
                   nontrivial=len(d["clamped"]) > 1)
        else:
            rep.fail("ALG-SIB", "twin:" + item, "item exists only in the %s module" % list(d))
    rep.floor("twin items", n, 10)
    # ---------------- GUARD-4: Vec / Box impls
    n = 0
    for tr, fn in (("convert::from_into_color::FromColor", "from_color"), ("convert::from_into_color_unclamped::FromColorUnclamped", "from_color_unclamped")):
        for im, ms in impl_methods(F, tr):
            s = im["self_s"]
            if not s.startswith(("std::vec::Vec<", "std::boxed::Box<[")):
                continue
            b = ms.get(fn)
            cs = callees(F, b)
            want_map = "map_vec_in_place" if s.startswith("std::vec::Vec<") else "map_slice_box_in_place"
            maps = [p.split("::")[-1] for p, a, nn, pp in cs if "in_place" in p]
            fns = [(p.split("::")[-1], a) for p, a, nn, pp in cs if re.search(r"::(from|into)_color(_unclamped)?$", p)]
            n += 1
            ok = maps == [want_map] and len(fns) == 1 and fns[0][0] == fn
            rep.ob("GUARD-4", "%s[%s]" % (fn, s), ok, "maps with %s through %s (expected %s through %s)" % (fns, maps, fn, want_map), F.loc(b))
            # GUARD-4/PATH: on EVERY path the result is that map applied to the argument: no early return, no other producer of the
            # result type (a fresh `Vec::new()` for the empty case gives up the allocation: same address/capacity is part of the property)
            tail = b["body"]
            while isinstance(tail, dict) and tail.get("k") == "block" and tail.get("e"):
                tail = tail["e"]
            problems = []
            rets = [nd for nd, _p in facts.walk(b["body"]) if nd.get("k") == "ret"]
            if rets:
                problems.append("early `return` at line %s bypasses the in-place map" % rets[0].get("l"))
            tc = tail.get("c") if isinstance(tail, dict) else None
            if not (isinstance(tail, dict) and tail.get("k") == "call" and isinstance(tc, dict) and tc.get("n") == want_map):
                problems.append("the value of the body is not the call %s(arg, %s)" % (want_map, fn))
            else:
                a0 = tail["a"][0] if tail.get("a") else {}
                if not (a0.get("k") == "path" and (a0.get("res") or {}).get("k") == "local"):
                    problems.append("the mapped buffer is not the argument itself")
            rep.ob("GUARD-4/PATH", "%s[%s]" % (fn, s), not problems, "; ".join(problems) if problems else
                   "single path: %s(<argument>, %s)" % (want_map, fn), F.loc(b))
    rep.floor("Vec/Box in-place impls", n, 4)
    # ---------------- same memory: the in-place maps (shared with C04)
    from .c04 import check_in_place_maps, ALLOC_DENY
    check_in_place_maps(F, rep)
    for name in ("cast::array::map_vec_in_place", "cast::array::map_slice_box_in_place"):
        b = F.fn(name)
        hits = []
        for node, _p in facts.walk(b["body"]):
            c = node.get("c")
            if isinstance(c, dict) and "d" in c:
                for q in (F.S[c["d"]], F.S[c["r"]] if "r" in c else ""):
                    if q and ALLOC_DENY.search(q):
                        hits.append(q)
        rep.ob("CAST-ALLOC", "no-allocation:" + name.split("::")[-1], not hits, "; ".join(hits[:3]) if hits else "no allocating / reallocating API: address, length and capacity are the input's", F.loc(b))
    return {"level": "other"}
