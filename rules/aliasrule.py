"""ALIAS — the public type aliases are what their names say.

A type alias is a construct no body-level rule sees (it has no body); a copy-pasted alias (`PackedBgra = Packed<Abgr, P>`) silently gives
every user of that name another type.  Each alias name is decomposed (Packed<Order>, <Colour>a, Lin<Standard>, Gamma<Standard>,
<Standard>, <Method>Lms) and the type rustc resolved it to must be the composition of exactly those parts.
"""
import re

PACKED_ORDER = {"Lumaa": "luma::channels::La", "Aluma": "luma::channels::Al"}   # luma orders have short names (confirmed by reading)
SKIP = {"matrix::Mat3": "plain array alias", "matrix::Vec3": "plain array alias"}


def _std_by_name(F):
    out = {}
    for a in F.adts:
        if a["path"].startswith("encoding::"):
            out.setdefault(a["path"].split("::")[-1], a)
    return out


def expected(F, al, by_name, stds):
    """(property, expected type string) or (None, reason)"""
    name = al["path"].split("::")[-1]
    gens = al["generics"]
    if name.startswith("Packed"):
        order = name[6:]
        return "C12", "cast::packed::Packed<%s, P>" % PACKED_ORDER.get(order, "rgb::channels::" + order)
    if name.endswith("a") and name[:-1] in by_name:
        base = by_name[name[:-1]]
        if base["generics"] != gens:
            return "C01", "<the generics of %s: %s>" % (name[:-1], base["generics"])
        return "C01", "alpha::alpha::Alpha<%s, T>" % base["ty_s"]
    m = re.match(r"^(VonKries|Bradford)Lms$", name)
    if m:
        return "C14", "lms::lms::Lms<lms::matrix::WithLmsMatrix<M, lms::matrix::%s>, T>" % m.group(1)
    kind = "luma::luma::Luma" if name.endswith("Luma") else "rgb::rgb::Rgb"
    core = name[:-4] if name.endswith("Luma") else name
    wrap = None
    for w in ("Lin", "Gamma"):
        if core.startswith(w) and (core[len(w):] in stds or core == w):
            wrap, core = w, core[len(w):]
            break
    if core == "":
        # LinLuma<Wp, T> / GammaLuma<T>: no named standard
        inner = {"Lin": "encoding::linear::Linear<Wp>", "Gamma": "encoding::gamma::Gamma<white_point::D65>"}[wrap]
        return "C02", "%s<%s, T>" % (kind, inner)
    if core not in stds:
        return None, "no naming rule for %s" % name
    sa = stds[core]
    sp = sa["path"] + ("<%s>" % ", ".join(sa["generics"]) if sa["generics"] else "")
    if wrap == "Lin":
        sp = "encoding::linear::Linear<%s>" % sp
    elif wrap == "Gamma":
        sp = "encoding::gamma::Gamma<%s>" % sp
    return "C02", "%s<%s, T>" % (kind, sp)


def _loc(F, al):
    l = al.get("loc")
    if isinstance(l, list) and len(l) >= 2:
        return "%s:%s" % (F.S[l[0]] if isinstance(l[0], int) else l[0], l[1])
    return str(l)


def check(F, rep, prop, floor):
    by_name = {}
    for a in F.adts:
        if a.get("pub") and not a["path"].startswith(("encoding::", "rgb::channels", "luma::channels")):
            by_name.setdefault(a["path"].split("::")[-1], {"generics": a["generics"], "ty_s": a["path"] + "<%s>" % ", ".join(a["generics"])})
    for al in F.aliases:
        by_name[al["path"].split("::")[-1]] = {"generics": al["generics"], "ty_s": F.S[al["ty"]]}
    stds = _std_by_name(F)
    n = 0
    for al in F.aliases:
        if al["path"] in SKIP or not al.get("pub"):
            continue
        p, want = expected(F, al, by_name, stds)
        if p is None:
            # a name without a naming rule (a new convenience alias) is not a behaviour change: noted, not reported; the floors keep
            # the aliases that exist today under the rule
            if prop == "C02":
                rep.note("alias without a naming rule (not checked): %s = %s" % (al["path"], F.S[al["ty"]]))
            continue
        if p != prop:
            continue
        n += 1
        have = F.S[al["ty"]]
        loc = _loc(F, al)
        rep.ob("ALIAS", al["path"], have == want, "%s = %s%s" % (al["path"].split("::")[-1], have, "" if have == want else "; its name says " + want), loc, nontrivial=False)
    rep.floor("type aliases (%s share)" % prop, n, floor)
