"""C04 — zero-copy casts are lossless, length-exact and layout-sound."""
import os
import re
import subprocess
import shutil
from fractions import Fraction as Fr

from . import alg, sym, poly, facts
from .common import Session, impl_methods, apps_of, atoms_of
from .sym import Struct, Tuple, Ite, Opaque, Bottom
from .poly import RatFunc
from .c08 import _find_apps

EXPLANATION = (
    "Static. CAST-1/2 (path rules on the symbolically evaluated bodies of cast::array, cast::uint and the in-place maps): on every "
    "non-diverging path, each type-changing pointer cast / transmute_copy between a colour and its array (or components / uint) is "
    "dominated by the size_of equality of exactly those two types and, for reference/pointer casts, the align_of equality; lengths and "
    "capacities passed to from_raw_parts / Vec::from_raw_parts scale by exactly ×LENGTH, ÷LENGTH (under the dominating `% LENGTH == 0` "
    "checks, length before capacity) or 1 as the element types dictate; the error paths hand back the input itself. CAST-ALLOC "
    "(who-may-call): no cast function reaches an allocating / reallocating API, so Vec and Box casts keep address, length and capacity. "
    "LAYOUT (compiler-decided): a generated witness crate asserts at compile time, for every ArrayCast/UintCast impl x component type, "
    "size, alignment and offset_of of every field in declaration order with alpha last. CAST-FWD: the *As/*From/*Into trait impls forward "
    "to the cast function of the same direction and ownership. Not decided: absence of UB under every input (Miri's family)."
    " CAST-STD: the 552 std conversion impls of macros/casting.rs are thin forwarders to the cast function of their direction and ownership. CAST-OWN: a by-value transmute_copy moves out of a ManuallyDrop (or forgotten) source."
)

VERIF = os.path.dirname(os.path.dirname(os.path.abspath(__file__)))

ALLOC_DENY = re.compile(
    r"(::Vec::<[^>]*>::(new|with_capacity|into_boxed_slice|shrink_to_fit|shrink_to|reserve|reserve_exact|push|extend|truncate|clone|to_vec|from_iter|split_off|append)\b"
    r"|::Box::<[^>]*>::(new|into_vec|from_iter|clone)\b|slice::<impl \[T\]>::(to_vec|into_vec|to_owned)\b|::iter::Iterator::collect\b|::iter::FromIterator::from_iter\b"
    r"|::clone::Clone::clone\b|::borrow::ToOwned::to_owned\b|::convert::From::from\b|::convert::Into::into\b|alloc::alloc::(alloc|realloc|dealloc)\b)")


def split_targs(name):
    """Type arguments of the last top-level <...> group of an application name."""
    if not name.endswith(">"):
        return []
    depth = 0
    for i in range(len(name) - 1, -1, -1):
        ch = name[i]
        if ch == ">":
            depth += 1
        elif ch == "<":
            depth -= 1
            if depth == 0:
                inner = name[i + 1:-1]
                return alg.split_type("X<" + inner + ">")[1]
    return []


def base_ty(t):
    t = t.strip()
    changed = True
    while changed:
        changed = False
        for pre in ("std::mem::ManuallyDrop<", "core::mem::ManuallyDrop<"):
            if t.startswith(pre) and t.endswith(">"):
                t = t[len(pre):-1].strip()
                changed = True
        if t.startswith("[") and t.endswith("]"):
            inner = t[1:-1]
            # [X; N] or [X]
            depth = 0
            cut = None
            for i, ch in enumerate(inner):
                if ch in "<([":
                    depth += 1
                elif ch in ">)]":
                    depth -= 1
                elif ch == ";" and depth == 0:
                    cut = i
            t = (inner[:cut] if cut is not None else inner).strip()
            changed = True
        m = re.match(r"^<(.*) as (?:cast::array::)?ArrayExt>::Item$", t)
        if m:
            t = m.group(1).strip()
            changed = True
    return t


def related(a, b):
    """(colour type P, its cast-associated type) or None."""
    for x, y in ((a, b), (b, a)):
        m = re.match(r"^<(.*) as cast::(?:array::ArrayCast>::Array|uint::UintCast>::Uint)$", y)
        if m and m.group(1).strip() == x:
            return x, y
    return None


def asserted(path):
    out = set()
    for c, pol in path:
        if c[0] != "cmp" or c[2] != "==" or not pol:
            continue
        d = sym.Ctx._cond_rf.get(c)
        if not isinstance(d, RatFunc):
            continue
        names = [poly.atom_by_id(a).name for a in d.atoms()]
        if len(names) == 2 and all(re.match(r"^(std|core)::mem::(size_of|align_of)<", n) for n in names):
            kinds = {n.split("::mem::")[1].split("<")[0] for n in names}
            if len(kinds) == 1:
                tys = frozenset(split_targs(n)[0] for n in names)
                out.add((kinds.pop(), tys))
    return out


def run(F, rep, tier="quick", extra=None, only=None):
    rep.trusted += ["rustc name resolution / type check / layout computation (witness crate)", "operator table of rules/sym.py",
                    "path conditions of the symbolic evaluator (asserts and early returns become dominating facts)"]
    S = Session(F)
    bodies = [b for b in F.bodies if b["dk"] in ("Fn", "AssocFn") and b["path"].startswith(("cast::array::", "cast::uint::")) and "::test" not in b["path"]]
    n_cast = n_len = 0
    n_fn = 0
    for b in bodies:
        name = b["path"]
        key = name.replace("cast::", "")
        try:
            v, fr = S.eval(b, names=["values", "f"])
        except (Opaque, poly.TooBig) as ex:
            if name.endswith(("map_vec_in_place", "map_slice_box_in_place")):
                continue  # handled by CAST-3 below
            rep.fail("CAST-1", "cast:" + key, "uninterpretable: %s" % ex, F.loc(b))
            continue
        n_fn += 1
        problems = []
        v = sym.hoist(v)
        for path, leaf in sym.leaves(v):
            ok, _ = alg.feasible(path, S.ctx)
            if not ok or isinstance(leaf, Bottom):
                continue
            have = asserted(path)
            # ---- CAST-1
            for a in _find_apps(leaf, lambda n: re.search(r"::cast<|mem::transmute_copy<|mem::transmute<", n) is not None):
                ta = split_targs(a.name)
                if len(ta) < 2:
                    continue
                s_, d_ = base_ty(ta[0]), base_ty(ta[1])
                n_cast += 1
                # CAST-OWN: transmute_copy reads a bitwise copy out of its argument; a by-value cast must wrap the argument in ManuallyDrop,
                # otherwise the original is still dropped when the function returns and every component has two owners
                if "transmute_copy" in a.name and "ManuallyDrop<" not in ta[0] and not _calls(F, b, "mem::forget"):
                    problems.append("transmute_copy out of `%s`, which is not wrapped in ManuallyDrop: the source is dropped as well (double drop "
                                    "for components with drop glue); the cast must move, not copy" % ta[0])
                # whole-array reinterpretation with different element counts: the counts must be tied together on the path
                cs, cd = array_count(ta[0]), array_count(ta[1])
                if cs is not None and cd is not None and cs != cd:
                    problems += check_counts(ta, cs, cd, path, have, S)
                if s_ == d_:
                    continue
                rel = related(s_, d_)
                if rel is None:
                    problems.append("cast between unrelated types %s -> %s" % (ta[0], ta[1]))
                    continue
                pair = frozenset(rel)
                if ("size_of", pair) not in have:
                    problems.append("%s -> %s is not dominated by `size_of::<%s>() == size_of::<%s>()`" % (ta[0], ta[1], rel[1], rel[0]))
                if "transmute" not in a.name and ("align_of", pair) not in have:
                    problems.append("pointer cast %s -> %s is not dominated by the align_of equality of %s and %s" % (ta[0], ta[1], rel[1], rel[0]))
            # ---- CAST-2
            for a in _find_apps(leaf, lambda n: re.search(r"slice::from_raw_parts(_mut)?<|Vec::<T>::from_raw_parts<", n) is not None):
                n_len += 1
                problems += check_lengths(a, path, S)
            # ---- error paths hand the input back
            if isinstance(leaf, Struct) and leaf.path.split("::")[-1] == "Err":
                at = {x for x in atoms_of(leaf) if not x.startswith(("@", "unit:"))}
                aps = {x for x in apps_of(leaf) if not x.startswith("mk:")}
                if not at <= {"values"} or aps or ("Box" in b["path"] + str(b.get("ins")) and at != {"values"} and ("box" in name or "vec" in name)):
                    problems.append("error value is not built from the unchanged input: atoms %s apps %s" % (sorted(at), sorted(aps)))
        rep.ob("CAST-1/2", "cast:" + key, not problems, "; ".join(problems[:4]) if problems else "every cast dominated by its size/align asserts; lengths scale as typed", F.loc(b))
        # kinds of the two Vec errors are reported in the documented order
        if name.endswith("try_from_component_vec"):
            order = []
            for path, leaf in sym.leaves(v):
                if isinstance(leaf, Struct) and leaf.path.split("::")[-1] == "Err":
                    rems = [(sym.show_cond(c), pol) for c, pol in path if "rem(" in sym.show_cond(c)]
                    order.append((repr(leaf), rems))
            ok = len(order) == 2 and any("LengthMismatch" in o[0] and len(o[1]) == 1 for o in order) and any("CapacityMismatch" in o[0] and len(o[1]) == 2 for o in order)
            rep.ob("CAST-2", "vec-error-kinds", ok, "; ".join("%s when %s" % (o[0][-60:], o[1]) for o in order), F.loc(b))
    rep.floor("cast functions", n_fn, 46)
    rep.floor("type-changing casts on paths", n_cast, 48)
    rep.floor("length computations", n_len, 14)

    check_unsafe_impls(F, rep)
    check_by_value_moves(F, rep)
    check_alloc(F, rep)
    check_in_place_maps(F, rep)
    check_forwarders(F, rep)
    check_std_casts(F, rep)
    check_luma_scalar_casts(F, rep)
    check_layout(F, rep, tier)
    return {"level": "other"}


def _calls(F, b, tail):
    """does the body call a function whose path ends with `tail` (the forget-after-copy idiom is the other way to move out)"""
    return any(isinstance(n.get("c"), dict) and "d" in n["c"] and F.S[n["c"]["d"]].endswith(tail) for n, _p in facts.walk(b["body"]))


def check_by_value_moves(F, rep):
    """CAST-OWN (HIR form): a cast function that takes an owned colour / array *by value* and reads a bitwise copy out of it (ptr::read,
    transmute_copy) must neutralise the original (ManuallyDrop::new or mem::forget) -- otherwise the argument is dropped on return and
    every component has two owners.  Vec / Box arguments are moved through into_raw / from_raw_parts (CAST-2) and are not concerned."""
    n = 0
    for b in F.bodies:
        if b["dk"] not in ("Fn", "AssocFn") or not b["path"].startswith(("cast::array::", "cast::uint::")) or "::test" in b["path"]:
            continue
        ins = [F.S[i] for i in b.get("ins", [])]
        owned = [t for t in ins if not t.startswith(("&", "*")) and not re.match(r"^(std|alloc)::(vec::Vec|boxed::Box)<", t) and not t.startswith(("F", "impl ")) and t not in ("usize",)]
        reads = [d for d in (F.S[x["c"]["d"]] for x, _p in facts.walk(b["body"]) if isinstance(x.get("c"), dict) and "d" in x["c"])
                 if d.endswith(("ptr::read", "mem::transmute_copy", "ptr::read_unaligned")) or re.search(r"ptr::.*::read$", d)]
        if not owned or not reads:
            continue
        n += 1
        ok = _calls(F, b, "ManuallyDrop::<T>::new") or _calls(F, b, "mem::forget")
        rep.ob("CAST-OWN", b["path"].replace("cast::", ""), ok,
               "reads a bitwise copy (%s) out of an argument taken by value (%s) %s ManuallyDrop / forget" % (sorted(set(x.split("::")[-1] for x in reads)), owned[0], "under" if ok else "WITHOUT"), F.loc(b))
    rep.floor("by-value casts that read a bitwise copy", n, 10)


def check_unsafe_impls(F, rep):
    """CAST-HOMOG: a hand-written `unsafe impl ArrayCast` is sound only if every non-zero-sized field of the type has the array's item type
    (or is itself ArrayCast with that item type): each field's type must be (a) a type parameter bounded by ArrayCast, (b) the projection
    `<<C as ArrayCast>::Array as ArrayExt>::Item` itself (through the impl's self type or an `Item == T` where-clause), or (c) the array type."""
    n = 0
    for im in F.impls:
        tr = str(im.get("trait") or "")
        if not tr.endswith("ArrayCast") or im.get("derived"):
            continue
        adt = im.get("self_adt")
        if not adt or adt not in F.adt_by_path:
            continue
        n += 1
        a = F.adt_by_path[adt]
        gens = a.get("generics", [])
        self_args = alg.split_type(im["self_s"])[1] if "<" in im["self_s"] else []
        inst = dict(zip(gens, self_args))  # ADT generic -> how the impl instantiates it
        preds = im.get("preds", [])
        arr = [F.S[i["ty"]] for i in im["items"] if i["n"] == "Array" and "ty" in i]
        problems = []
        for f in a["variants"][0]["f"]:
            ft = F.S[f["t"]]
            if "PhantomData" in ft:
                continue
            it = inst.get(ft, ft)
            ok = False
            # equality closure of the impl's `A == B` predicates
            cls = {it}
            grew = True
            while grew:
                grew = False
                for p in preds:
                    if " == " in p:
                        l, r = p.split(" == ", 1)
                        if (l in cls) != (r in cls):
                            cls |= {l, r}
                            grew = True
            if any(re.search(r"ArrayExt>::Item$", x) for x in cls):
                ok = True   # (b) the item projection itself, directly or through where-clause equalities
            elif any(p.replace(" ", "") == ("%s:cast::array::ArrayCast" % it).replace(" ", "") for p in preds):
                ok = True   # (a) a nested ArrayCast colour
            elif arr and it == arr[0]:
                ok = True   # (c) the array itself (Packed)
            if not ok:
                problems.append("field `%s: %s` (instantiated as `%s`) is not tied to the array's item type" % (f["n"], ft, it))
        rep.ob("CAST-HOMOG", "unsafe impl ArrayCast for " + im["self_s"], not problems, "; ".join(problems) if problems else
               "every field is the item type, a nested ArrayCast type, or the array (Array = %s)" % (arr[0] if arr else "?"), "%s" % adt)
    rep.floor("hand-written unsafe ArrayCast impls", n, 3)


def array_count(t):
    """N of `[X; N]` (through ManuallyDrop), else None."""
    t = t.strip()
    for pre in ("std::mem::ManuallyDrop<", "core::mem::ManuallyDrop<"):
        if t.startswith(pre) and t.endswith(">"):
            t = t[len(pre):-1].strip()
    if not (t.startswith("[") and t.endswith("]")):
        return None
    inner = t[1:-1]
    depth = 0
    cut = None
    for i, ch in enumerate(inner):
        if ch in "<([":
            depth += 1
        elif ch in ">)]":
            depth -= 1
        elif ch == ";" and depth == 0:
            cut = i
    return inner[cut + 1:].strip() if cut is not None else None


def check_counts(ta, cs, cd, path, have, S):
    """[A; cs] -> [B; cd] with cs != cd (components <-> colours): either the whole arrays' sizes are asserted equal, or the counts are
    tied by `cs % LENGTH == 0` and `cs / LENGTH == cd` (resp. `cs * LENGTH == cd`) on the path."""
    def strip_md(t):
        t = t.strip()
        for pre in ("std::mem::ManuallyDrop<", "core::mem::ManuallyDrop<"):
            if t.startswith(pre) and t.endswith(">"):
                t = t[len(pre):-1].strip()
        return t
    whole = frozenset((strip_md(ta[0]), strip_md(ta[1])))
    if ("size_of", whole) in have:
        # the whole-array size equality alone is not enough to exclude a remainder that happens to fit; require divisibility as well
        pass
    ctx = S.ctx
    n_s, n_d = ctx.sym("const:" + cs), ctx.sym("const:" + cd)
    ls = [poly.atom_by_id(i) for c, pol in path for i in (sym.Ctx._cond_rf.get(c).atoms() if isinstance(sym.Ctx._cond_rf.get(c), RatFunc) else []) if "ArrayExt::LENGTH<" in poly.atom_by_id(i).name]
    if not ls:
        return ["array of %s elements reinterpreted as %s elements without any relation to LENGTH on the path" % (cs, cd)]
    L = RatFunc.atom(ls[0], ctx.tab)
    to_colours = re.search(r"ArrayExt>::Item", ta[0]) is not None
    want = (n_s - L * n_d) if to_colours else (n_s * L - n_d)
    tied = divisible = False
    for c, pol in path:
        d = sym.Ctx._cond_rf.get(c)
        if not (pol and c[0] == "cmp" and c[2] == "==" and isinstance(d, RatFunc)):
            continue
        sc = sym.show_cond(c)
        if "rem(" in sc and ("const:" + cs) in sc and "LENGTH" in sc:
            divisible = True
        for cand in (want, -want, want / L, -want / L):
            try:
                if d.equals(cand):
                    tied = True
            except ZeroDivisionError:
                pass
    out = []
    if not tied:
        out.append("[_; %s] -> [_; %s]: no dominating check ties the counts (%s)" % (cs, cd, "%s / LENGTH == %s" % (cs, cd) if to_colours else "%s * LENGTH == %s" % (cs, cd)))
    if to_colours and not divisible:
        out.append("[_; %s] -> [_; %s]: `%s / LENGTH == %s` rounds down — without a dominating `%s %% LENGTH == 0` trailing components are dropped" % (cs, cd, cs, cd, cs))
    return out


def check_lengths(a, path, S):
    """from_raw_parts(ptr, len) / Vec::from_raw_parts(ptr, len, cap): scaling by the element types of the pointer cast."""
    problems = []
    ptr = a.args[0]
    casts = _find_apps(ptr, lambda n: "::cast<" in n)
    factor = 0  # 0: same count, +1: times LENGTH, -1: divided by LENGTH
    if casts:
        ta = split_targs(casts[0].name)
        s_item = re.match(r"^<(.*) as (?:cast::array::)?ArrayExt>::Item$", ta[0].strip()) is not None
        d_item = re.match(r"^<(.*) as (?:cast::array::)?ArrayExt>::Item$", ta[1].strip()) is not None
        factor = (1 if d_item and not s_item else (-1 if s_item and not d_item else 0))
    for i, what in ((1, "len"), (2, "capacity")):
        if i >= len(a.args):
            continue
        arg = a.args[i]
        if not isinstance(arg, RatFunc):
            problems.append("%s argument not scalar" % what)
            continue
        srcs = _find_apps(arg, lambda n: re.search(r"::%s<" % what, n) is not None) or _find_apps(arg, lambda n: "::len<" in n)
        ks = [poly.atom_by_id(i) for i in arg.atoms() if "ArrayExt::LENGTH<" in poly.atom_by_id(i).name]
        if not srcs:
            problems.append("%s argument %s does not come from the source's %s()" % (what, alg._short(arg, 80), what))
            continue
        L = RatFunc.atom(srcs[0], arg.tab)
        if factor == 0:
            ok = arg.equals(L)
        else:
            if not ks:
                problems.append("%s argument is not scaled by LENGTH although the element type changes to/from a component" % what)
                continue
            K = RatFunc.atom(ks[0], arg.tab)
            ok = arg.equals(L * K) if factor == 1 else arg.equals(L / K)
            if ok and factor == -1:
                # dominated by `<what> % LENGTH == 0`
                dom = False
                for c, pol in path:
                    sc = sym.show_cond(c)
                    if pol and c[0] == "cmp" and c[2] == "==" and "rem(" in sc and srcs[0].name.split("<")[0] in sc:
                        dom = True
                if not dom:
                    problems.append("%s / LENGTH is not dominated by a `%s %% LENGTH == 0` check" % (what, what))
        if not ok:
            problems.append("%s argument %s is not %s%s" % (what, alg._short(arg, 100), what + "()", {0: "", 1: " * LENGTH", -1: " / LENGTH"}[factor]))
    return problems


def check_alloc(F, rep):
    """CAST-ALLOC: who-may-call over resolved callees of every function in the cast modules and the in-place conversions."""
    n = 0
    for b in F.bodies:
        if b["dk"] not in ("Fn", "AssocFn"):
            continue
        p = b["path"]
        if not (p.startswith(("cast::array::", "cast::uint::")) or b["file"].endswith(("cast/array.rs", "cast/uint.rs"))):
            continue
        if "::test" in p:
            continue
        if b["_impl"] is not None and b["_impl"].get("derived"):
            continue  # derived Clone/Debug of the error types
        n += 1
        hits = []
        for node, _p in facts.walk(b["body"]):
            c = node.get("c")
            if isinstance(c, dict) and "d" in c:
                for q in (F.S[c["d"]], F.S[c["r"]] if "r" in c else ""):
                    if q and ALLOC_DENY.search(q):
                        hits.append("%s at %s" % (q, F.loc(b, node)))
        rep.ob("CAST-ALLOC", "no-allocation:" + p.replace("cast::", ""), not hits, "; ".join(hits[:3]) if hits else "no allocating / copying API among the resolved callees", F.loc(b), nontrivial=("vec" in p or "box" in p))
    rep.floor("functions under the allocation rule", n, 48)


def check_in_place_maps(F, rep):
    """CAST-3: ManuallyDrop before the loop; each ptr::read(item) is followed by exactly one ptr::write(item, _)."""
    for name in ("cast::array::map_vec_in_place", "cast::array::map_slice_box_in_place"):
        try:
            b = F.fn(name)
        except facts.AnchorMissing as ex:
            rep.fail("ANCHOR", name, str(ex))
            continue
        seq = []
        for node, parents in facts.walk(b["body"]):
            c = node.get("c")
            if isinstance(c, dict) and "d" in c:
                q = F.S[c["d"]]
                in_loop = any(p.get("k") == "loop" for p in parents)
                for tag, pat in (("manually_drop", "ManuallyDrop::<T>::new"), ("read", "ptr::read"), ("write", "ptr::write"), ("from_raw", "from_raw"), ("into_raw", "into_raw"),
                                 ("from_raw_parts", "from_raw_parts")):
                    if pat in q:
                        seq.append((tag, in_loop))
        tags = [t for t, _ in seq]
        reads = [x for x in seq if x[0] == "read"]
        writes = [x for x in seq if x[0] == "write"]
        ok = (len(reads) == 1 and len(writes) == 1 and reads[0][1] and writes[0][1] and tags.index("read") < tags.index("write")
              and ("manually_drop" in tags and tags.index("manually_drop") < tags.index("read") or "into_raw" in tags or "leak" in "".join(tags)))
        # the written place is the read place
        rw = []
        for node, parents in facts.walk(b["body"]):
            c = node.get("c")
            if node.get("k") == "call" and isinstance(c, dict) and "d" in c and ("ptr::read" in F.S[c["d"]] or "ptr::write" in F.S[c["d"]]):
                a0 = node["a"][0]
                while a0.get("k") in ("ref", "cast", "un"):
                    a0 = a0["e"]
                rw.append(a0.get("res", {}).get("h"))
        ok = ok and len(rw) == 2 and rw[0] is not None and rw[0] == rw[1]
        rep.ob("CAST-3", "in-place-map:" + name.split("::")[-1], ok, "call sequence %s; read/write place ids %s" % (tags, rw), F.loc(b))


STEM = {  # method -> (cast function stem, fixed shape or None)
    "from_arrays": ("from_array", None), "into_arrays": ("into_array", None), "into_components": ("into_component", None),
    "try_from_components": ("try_from_component", None), "from_uints": ("from_uint", None), "into_uints": ("into_uint", None),
    "as_arrays": ("into_array", "_slice"), "as_arrays_mut": ("into_array", "_slice_mut"), "arrays_as": ("from_array", "_slice"), "arrays_as_mut": ("from_array", "_slice_mut"),
    "as_components": ("into_component", "_slice"), "as_components_mut": ("into_component", "_slice_mut"),
    "try_components_as": ("try_from_component", "_slice"), "try_components_as_mut": ("try_from_component", "_slice_mut"),
    "as_uints": ("into_uint", "_slice"), "as_uints_mut": ("into_uint", "_slice_mut"), "uints_as": ("from_uint", "_slice"), "uints_as_mut": ("from_uint", "_slice_mut"),
}
MIRROR = {  # blanket impls: the mirror-image trait method, confirmed by reading
    "arrays_from": "into_arrays", "arrays_into": "from_arrays", "components_from": "into_components", "components_into": "try_components_into",
    "try_components_into": "try_from_components", "from_components": "try_from_components", "components_as": "try_components_as",
    "components_as_mut": "try_components_as_mut", "uints_from": "into_uints", "uints_into": "from_uints",
}


def shape_of(ty):
    t = ty.strip()
    if t.startswith("&"):
        mut = re.match(r"^&('\w+ )?mut ", t) is not None
        return "_slice_mut" if mut else "_slice"
    if t.startswith(("std::boxed::Box<[", "alloc::boxed::Box<[")):
        return "_slice_box"
    if t.startswith(("std::vec::Vec<", "alloc::vec::Vec<")):
        return "_vec"
    if t.startswith("[") and ";" in t:
        return "_array"
    return None


FWD_ALLOW = ("convert::AsRef::as_ref", "convert::AsMut::as_mut", "Result::<T, E>::unwrap", "Result::<T, E>::expect")


def check_forwarders(F, rep):
    n = 0
    for im in F.impls:
        tr = im.get("trait") or ""
        if not tr.startswith("cast::") or tr.endswith(("ArrayCast", "UintCast", "ArrayExt", "NextArray", "ComponentOrder")):
            continue
        for it in im["items"]:
            if it["kind"] != "Fn":
                continue
            b = F.body_by_id.get(it["i"])
            if b is None:
                continue
            m = it["n"]
            calls = set()
            n_cast = 0
            extra = []
            for node, _p in facts.walk(b["body"]):
                c = node.get("c")
                if isinstance(c, dict) and "d" in c:
                    d = F.S[c["d"]]
                    if d.startswith("cast::"):
                        calls.add(d.split("::")[-1])
                        n_cast += 1
                    elif not d.endswith(FWD_ALLOW) and not node.get("exp"):
                        extra.append(d.split("::")[-1])
                if node.get("k") in ("match", "if", "closure", "loop", "ret") and not node.get("exp"):
                    extra.append("<%s>" % node["k"])
            key = "%s::%s[%s<%s>]" % (tr.split("::")[-1], m, im["self_s"], ",".join(im["trait_args_s"]))
            n += 1
            if m in MIRROR:
                want = MIRROR[m]
            elif m in STEM:
                stem, fixed = STEM[m]
                # the container whose shape decides: the source for into_/as_, the target's source argument for from_
                src = im["trait_args_s"][0] if (m.startswith(("from_", "try_from_")) and im["trait_args_s"]) else im["self_s"]
                shape = fixed or shape_of(src)
                if shape is None:
                    rep.fail("CAST-FWD", key, "cannot classify the container %s" % src, F.loc(b))
                    continue
                want = stem + shape
                if want == "try_from_component_array":
                    want = "from_component_array"  # arrays check their length at compile time
            else:
                rep.fail("CAST-FWD", key, "cast trait method without a forwarding rule", F.loc(b))
                continue
            rep.ob("CAST-FWD", key, calls == {want}, "calls %s, expected %s" % (sorted(calls), want), F.loc(b), nontrivial=False)
            # thin: the trait method IS the cast function (the length / capacity rejection and the handing back of the buffer are decided
            # there, CAST-1..3): one call, no control flow, nothing else but the reference adapters and the documented panic on Err
            if n_cast != 1 or extra:
                rep.fail("CAST-FWD", key + " thin", "the forwarder does more than forward: %d cast calls, also %s (a retry, a fallback or a copy here bypasses "
                         "the rejection rules of the cast function)" % (n_cast, sorted(set(extra))), F.loc(b))
    rep.floor("cast trait forwarders", n, 100)


# ------------------------------------------------------------------------------------------ CAST-STD
# The std conversion traits that macros/casting.rs implements for every colour type (AsRef / AsMut / From / TryFrom between a colour
# and its array, slice, boxed array or unsigned integer): each IS the cast function of its direction and ownership -- the same rule as
# CAST-FWD for palette's own cast traits, over the 552 macro-generated bodies the cast traits do not go through.
UINTS = ("u8", "u16", "u32", "u64", "u128")


def _peel(t):
    """(wrapper, inner): wrapper in '', 'ref', 'mut', 'box'."""
    t = t.strip()
    m = re.match(r"^&('\w+ )?(mut )?(.*)$", t)
    if m:
        return ("mut" if m.group(2) else "ref"), m.group(3).strip()
    m = re.match(r"^(?:std|alloc)::boxed::Box<(.*)>$", t)
    if m:
        return "box", m.group(1).strip()
    return "", t


def _raw_kind(t):
    if t.startswith("[") and ";" in t:
        return "array"
    if t.startswith("["):
        return "slice"
    if t in UINTS:
        return "uint"
    return None


def check_std_casts(F, rep):
    n = 0
    for b in F.bodies:
        if not b["file"].endswith("macros/casting.rs") or "::test" in b["path"] or b["dk"] not in ("Fn", "AssocFn"):
            continue
        im = b["_impl"]
        if im is None or not im.get("trait"):
            continue
        tr = im["trait"].split("::")[-1]
        if tr not in ("AsRef", "AsMut", "From", "TryFrom"):
            rep.fail("CAST-STD", "%s[%s]" % (im["trait"], im["self_s"]), "casting macro implements a trait without a forwarding rule", F.loc(b))
            continue
        self_t, arg_t = im["self_s"], im["trait_args_s"][0]
        key = "%s<%s> for %s" % (tr, arg_t, self_t)
        src, dst = (self_t, arg_t) if tr in ("AsRef", "AsMut") else (arg_t, self_t)
        ws, s_in = _peel(src)
        wd, d_in = _peel(dst)
        ks, kd = _raw_kind(s_in), _raw_kind(d_in)
        # Packed<O, P>: the unsigned integer is the type parameter P itself
        for a_, b_ in ((s_in, d_in), (d_in, s_in)):
            m = re.match(r"^cast::packed::Packed<\w+, (\w+)>$", a_)
            if m and b_ == m.group(1):
                if a_ is s_in:
                    kd = "uint"
                else:
                    ks = "uint"
        n += 1
        if (ks is None) == (kd is None) or ws != wd and tr not in ("AsRef", "AsMut"):
            rep.fail("CAST-STD", key, "cannot classify: exactly one side must be an array, slice or unsigned integer (source %s, target %s)" % (src, dst), F.loc(b))
            continue
        stem = "from" if ks is not None else "into"   # raw -> colour is from_*, colour -> raw is into_*
        raw = ks or kd
        own = {"AsRef": "ref", "AsMut": "mut"}.get(tr, ws)
        calls, paths, extra = [], [], []
        for node, _p in facts.walk(b["body"]):
            c = node.get("c")
            if isinstance(c, dict) and "d" in c:
                calls.append(F.S[c["d"]])
            if node.get("k") == "path" and isinstance(node.get("res"), dict) and node["res"].get("k") == "def" and node["res"].get("dk") in ("Fn", "AssocFn") \
                    and isinstance(node["res"].get("c"), dict):
                paths.append(F.S[node["res"]["c"]["d"]])
            if node.get("k") not in ("path", "block", "call", "mcall", "ref", "un"):
                extra.append("<%s>" % node.get("k"))   # indexing, control flow, literals, closures: more than a forwarder
        cast_calls = sorted(x.split("::")[-1] for x in calls + paths if x.startswith("cast::"))
        std_calls = sorted(x.split("::")[-1] for x in calls if not x.startswith("cast::"))
        kind = "uint" if raw == "uint" else "array"
        suffix = {"": "", "ref": "_ref", "mut": "_mut", "box": "_box"}[own]
        direct = "%s_%s%s" % (stem, kind, suffix)
        if tr == "TryFrom":
            # &[T] -> &Colour: the std length check ([T] -> [T; N]), then the array cast
            want = ([direct], ["map", "try_into"])
            std_calls = ["try_into" if x == "try_from" else x for x in std_calls]   # <&[T; N]>::try_from(slice) is the same std conversion
        elif raw == "slice":
            # Colour -> &[T]: unsizing of the array view
            want = ([], ["as_mut" if own == "mut" else "as_ref"])
        elif tr == "From" and own in ("ref", "mut"):
            want = ([], ["as_mut" if own == "mut" else "as_ref"])
        else:
            want = ([direct], [])
        ok = cast_calls == want[0] and std_calls == want[1] and not extra
        # the std hop must land on the array view of the same colour (as_ref::<[T; N]>), never on another impl
        detail = "calls cast::%s + %s%s; expected cast::%s + %s" % (cast_calls, std_calls, (" " + " ".join(extra)) if extra else "", want[0], want[1])
        if ok and not want[0] and tr in ("AsRef", "AsMut"):
            inner = [F.ty(node) for node, _p in facts.walk(b["body"]) if isinstance(node.get("c"), dict) and "d" in node["c"]]
            okv = any(t and _raw_kind(_peel(t)[1]) == "array" for t in inner)
            if not okv:
                ok, detail = False, "the slice view is not taken from the array view of the colour (call types %s)" % inner
        rep.ob("CAST-STD", key, ok, detail, F.loc(b), nontrivial=False)
    rep.floor("std conversion impls of macros/casting.rs", n, 552)


# ------------------------------------------------------------------------------------------ CAST-LUMA
LUMA_SCALARS = ("u8", "u16", "u32", "u64", "u128", "f32", "f64", "T")


def check_luma_scalar_casts(F, rep):
    """CAST-LUMA: a one-component colour casts to and from its bare scalar (luma/luma.rs): by reference through the [T; 1] array cast of the
    same memory (slice::from_ref / from_mut, then the length-checked TryFrom of macros/casting.rs), by value through the `luma` field /
    `Luma::new`; the reference-to-reference From impls are as_ref / as_mut.  Nothing else (no clone, no temporary) may appear."""
    n = 0
    for b in F.bodies:
        im = b["_impl"]
        if im is None or not b["file"].endswith("luma/luma.rs") or "::test" in b["path"] or b["dk"] not in ("Fn", "AssocFn"):
            continue
        tr = (im.get("trait") or "").split("::")[-1]
        if tr not in ("AsRef", "AsMut", "From") or not im["trait_args_s"]:
            continue
        self_t, arg_t = im["self_s"], im["trait_args_s"][0]
        strip = lambda t: re.sub(r"^&('\w+ )?(mut )?", "", t)
        s0, a0 = strip(self_t), strip(arg_t)
        is_luma = lambda t: t.startswith("luma::luma::Luma<")
        if not ((is_luma(s0) and a0 in LUMA_SCALARS) or (is_luma(a0) and s0 in LUMA_SCALARS)):
            continue
        lt, sc = (s0, a0) if is_luma(s0) else (a0, s0)
        m_ = re.match(r"^luma::luma::Luma<S(?:, (\w+))?>$", lt)
        if not m_ or (m_.group(1) or "f32") != sc:
            continue   # Luma<S, u8> <-> u16 is the packed form (C12 PACK-FWD)
        mut = "mut " in self_t or "mut " in arg_t or tr == "AsMut"
        byref = self_t.startswith("&") or tr in ("AsRef", "AsMut")
        calls, fields, other = [], [], []
        for node, _p in facts.walk(b["body"]):
            c = node.get("c")
            if isinstance(c, dict) and "d" in c:
                calls.append(F.S[c["d"]].split("::")[-1])
            elif node.get("k") == "field":
                fields.append(node["n"])
            elif node.get("k") not in ("path", "block", "ref", "un", "call", "mcall"):
                other.append("<%s>" % node.get("k"))
        calls.sort()
        key = "%s<%s> for %s" % (tr, arg_t, self_t)
        n += 1
        if tr in ("AsRef", "AsMut") and is_luma(s0):
            want, wf = [], ["luma"]                                     # &self.luma
        elif tr in ("AsRef", "AsMut"):
            want, wf = sorted(["from_mut" if mut else "from_ref", "try_into", "unwrap"]), []   # scalar -> &Luma through [T; 1]
        elif byref:
            want, wf = ["as_mut" if mut else "as_ref"], []
        elif is_luma(s0):
            want, wf = ["new"], []                                      # Luma::new(luma)
            if not calls and other == ["<struct>"]:
                calls, other = ["new"], []                              # ... or the struct literal Luma { luma, standard: PhantomData }
        else:
            want, wf = [], ["luma"]                                     # color.luma
        ok = calls == want and fields == wf and not other
        rep.ob("CAST-LUMA", key, ok, "calls %s fields %s%s; expected calls %s fields %s" % (calls, fields, (" " + " ".join(other)) if other else "", want, wf), F.loc(b), nontrivial=False)
    rep.floor("Luma <-> scalar casts", n, 52)


# ------------------------------------------------------------------------------------------ LAYOUT witness
COMPONENTS = ["u8", "u16", "u32", "f32", "f64"]
META = {  # frozen instantiations of the zero-sized type parameters, confirmed by reading
    "S": "palette::encoding::Srgb", "Wp": "palette::white_point::D65", "M": "palette::lms::matrix::VonKries", "St": "palette::encoding::Srgb",
}


def check_layout(F, rep, tier):
    """Generate const-assert witnesses for every `unsafe impl ArrayCast` on a struct of the crate and let rustc decide them."""
    wdir = os.path.join(VERIF, "witness") if not facts.LANE else os.path.join(facts.CACHE, "lane" + facts.LANE, "witness")
    src = os.path.join(wdir, "src")
    os.makedirs(src, exist_ok=True)
    lines = ["// generated by rules/c04.py from the facts of /repo's current tree - do not edit",
             "#![allow(unused_imports, dead_code)]", "use core::mem::{size_of, align_of, offset_of};", ""]
    n_impl = n_assert = 0
    skipped = []
    for im in F.find_impls(trait="cast::array::ArrayCast"):
        adt_path = im.get("self_adt")
        adt = F.adt_by_path.get(adt_path)
        if adt is None or adt["kind"] != "Struct":
            skipped.append(im["self_s"])
            continue
        tail = adt_path.split("::")[-1]
        if tail in ("Alpha", "PreAlpha", "Packed"):
            continue  # wrappers: separate rows below
        if not adt["pub"]:
            continue
        if not im.get("unsafe"):
            rep.fail("LAYOUT", "impl-unsafe:" + tail, "ArrayCast impl not marked unsafe?")
        n_impl += 1
        gens = adt["generics"]
        fields = adt["variants"][0]["f"]
        pub_path = public_path(adt_path)
        for comp in COMPONENTS:
            targs = []
            ok = True
            for g in gens:
                if g == "T":
                    targs.append(comp)
                elif g in META:
                    targs.append(META[g])
                else:
                    ok = False
            if not ok:
                skipped.append("%s (generic %s)" % (tail, gens))
                break
            ty = "%s<%s>" % (pub_path, ", ".join(targs)) if targs else pub_path
            nz = [f for f in fields if not F.S[f["t"]].startswith(("core::marker::PhantomData", "std::marker::PhantomData"))]
            lines.append("const _: () = {")
            lines.append("    type X = %s;" % ty)
            lines.append("    assert!(size_of::<X>() == %d * size_of::<%s>());" % (len(nz), comp))
            lines.append("    assert!(align_of::<X>() == align_of::<%s>());" % comp)
            for i, f in enumerate(nz):
                if f["pub"]:
                    lines.append("    assert!(offset_of!(X, %s) == %d * size_of::<%s>());" % (f["n"], i, comp))
                    n_assert += 1
            lines.append("    assert!(size_of::<<X as palette::cast::ArrayCast>::Array>() == size_of::<X>());")
            lines.append("    assert!(align_of::<<X as palette::cast::ArrayCast>::Array>() == align_of::<X>());")
            lines.append("};")
            n_assert += 4
    # Alpha: colour first, alpha last
    for comp in ("u8", "f32", "f64"):
        lines += ["const _: () = {",
                  "    type C = palette::rgb::Rgb<palette::encoding::Srgb, %s>;" % comp,
                  "    type X = palette::Alpha<C, %s>;" % comp,
                  "    assert!(size_of::<X>() == 4 * size_of::<%s>());" % comp,
                  "    assert!(offset_of!(X, color) == 0);",
                  "    assert!(offset_of!(X, alpha) == size_of::<C>());",
                  "    assert!(size_of::<<X as palette::cast::ArrayCast>::Array>() == size_of::<X>());",
                  "    type P = palette::blend::PreAlpha<palette::rgb::Rgb<palette::encoding::Linear<palette::encoding::Srgb>, %s>>;" % ("f32" if comp == "u8" else comp),
                  "    assert!(offset_of!(P, color) == 0);",
                  "    assert!(offset_of!(P, alpha) == 3 * size_of::<%s>());" % ("f32" if comp == "u8" else comp),
                  "    assert!(size_of::<<P as palette::cast::ArrayCast>::Array>() == size_of::<P>());",
                  "};"]
        n_assert += 7
    for ty, u in (("palette::rgb::PackedArgb", "u32"), ("palette::rgb::PackedRgba", "u32"), ("palette::luma::PackedLumaa", "u16")):
        lines += ["const _: () = {", "    type X = %s;" % ty,
                  "    assert!(size_of::<X>() == size_of::<%s>());" % u, "    assert!(align_of::<X>() == align_of::<%s>());" % u, "};"]
        n_assert += 2
    lines.append("")
    with open(os.path.join(src, "lib.rs"), "w") as fh:
        fh.write("\n".join(lines))
    with open(os.path.join(wdir, "Cargo.toml"), "w") as fh:
        fh.write('[package]\nname = "witness"\nversion = "0.0.0"\nedition = "2021"\n\n[workspace]\n\n[dependencies]\npalette = { path = "%s/palette", default-features = false, features = ["std"] }\n' % facts.REPO)
    lock = os.path.join(facts.REPO, "Cargo.lock")
    if os.path.exists(lock):
        shutil.copy(lock, os.path.join(wdir, "Cargo.lock"))
    env = dict(os.environ, CARGO_TARGET_DIR=os.path.join(facts.CACHE, "tgt", "witness" + facts.LANE), CARGO_NET_OFFLINE="true", RUSTFLAGS="-Awarnings")
    with facts.Lock("witness" + facts.LANE):
        r = subprocess.run(["cargo", "+nightly", "check", "--offline", "-q"], cwd=wdir, env=env, stdout=subprocess.PIPE, stderr=subprocess.STDOUT, text=True)
    ok = r.returncode == 0
    detail = "%d const assertions over %d ArrayCast structs x %d component types + wrappers: compiled" % (n_assert, n_impl, len(COMPONENTS))
    if not ok:
        errs = [l for l in r.stdout.splitlines() if "error" in l or "assert" in l or "-->" in l]
        detail = "layout witness does not compile: " + " | ".join(errs[:8])
    rep.ob("LAYOUT", "witness-crate", ok, detail, "witness/src/lib.rs")
    rep.floor("ArrayCast structs in the layout witness", n_impl, 24)
    if skipped:
        rep.note("layout witness skipped: %s" % sorted(set(skipped))[:10])


def public_path(adt_path):
    """Crate-internal def path -> public re-export path (module::Type; the inner module repeats the name)."""
    parts = adt_path.split("::")
    # e.g. rgb::rgb::Rgb -> rgb::Rgb ; cam16::partial::cam16_jch::Cam16Jch -> cam16::Cam16Jch ; lab::Lab -> Lab
    name = parts[-1]
    top = parts[0]
    if top in ("rgb", "luma", "lms", "cam16", "alpha", "blend"):
        return "palette::%s::%s" % (top, name)
    return "palette::%s" % name
