"""Exact rational-function normal form over uninterpreted atoms (engine ALG / POLY).

A value is a RatFunc = P/Q with P, Q polynomials over Q (fractions.Fraction coefficients)
in *atoms*.  Atoms are interned objects: plain symbols or applications of uninterpreted
functions to RatFunc arguments (sqrt, cbrt, powf, sin, min, ...).  Equality of two
RatFuncs is decided by cross multiplication, so no polynomial gcd is needed.

Axioms built into the normaliser (listed in every evidence file that uses ALG):
  sqrt(x)^2 = x, cbrt(x)^3 = x, sqrt(1)=cbrt(1)=1, sqrt(0)=cbrt(0)=0,
  f(c) is folded for rational perfect squares/cubes only.
"""
from fractions import Fraction

MAX_TERMS = 6000
# work budget (monomial products) for one evaluation; reset by the caller
BUDGET = [2_000_000]
DEADLINE = [0.0]


def reset_budget(n=600_000, seconds=6.0):
    import time
    BUDGET[0] = n
    DEADLINE[0] = time.time() + seconds


class TooBig(Exception):
    pass


class Atom:
    __slots__ = ("id", "name", "args", "key")
    _next = [0]

    def __init__(self, name, args, key):
        self.id = Atom._next[0]
        Atom._next[0] += 1
        self.name = name
        self.args = args  # tuple of RatFunc / other hashables, () for symbols
        self.key = key

    def __repr__(self):
        if not self.args:
            return self.name
        return "%s(%s)" % (self.name, ", ".join(str(a) for a in self.args))


class AtomTable:
    """Interning of atoms; application atoms with equal (by value) arguments are identified."""

    def __init__(self):
        self.syms = {}
        self.apps = {}  # name -> list of Atom

    def sym(self, name):
        a = self.syms.get(name)
        if a is None:
            a = Atom(name, (), ("sym", name))
            self.syms[name] = a
        return a

    def app(self, name, args):
        lst = self.apps.setdefault((name, len(args)), [])
        for a in lst:
            if all(_arg_eq(x, y) for x, y in zip(a.args, args)):
                return a
        a = Atom(name, tuple(args), ("app", name, len(lst)))
        lst.append(a)
        return a


def _arg_eq(x, y):
    if isinstance(x, RatFunc) and isinstance(y, RatFunc):
        return x.equals(y)
    return x == y


# ---- polynomials: dict {monomial: Fraction}; monomial = tuple of (atom_id, exp) sorted -------

def _mono_mul(a, b):
    if not a:
        return b
    if not b:
        return a
    d = dict(a)
    for k, e in b:
        d[k] = d.get(k, 0) + e
    return tuple(sorted((k, e) for k, e in d.items() if e != 0))


def p_const(c):
    c = Fraction(c)
    return {(): c} if c != 0 else {}


def p_add(a, b, sign=1):
    r = dict(a)
    for m, c in b.items():
        v = r.get(m, 0) + sign * c
        if v == 0:
            r.pop(m, None)
        else:
            r[m] = v
    return r


def p_mul(a, b):
    n = len(a) * len(b)
    if n > MAX_TERMS * 40:
        raise TooBig()
    BUDGET[0] -= n
    if BUDGET[0] < 0:
        raise TooBig("work budget exhausted")
    if n > 2000:
        import time
        if time.time() > DEADLINE[0]:
            raise TooBig("time budget exhausted")
    r = {}
    for m1, c1 in a.items():
        for m2, c2 in b.items():
            m = _mono_mul(m1, m2)
            v = r.get(m, 0) + c1 * c2
            if v == 0:
                r.pop(m, None)
            else:
                r[m] = v
    if len(r) > MAX_TERMS:
        raise TooBig()
    return r


def p_scale(a, c):
    if c == 0:
        return {}
    return {m: v * c for m, v in a.items()}


def p_is_const(a):
    return all(m == () for m in a)


def p_const_value(a):
    return a.get((), Fraction(0))


class RatFunc:
    __slots__ = ("num", "den", "tab")

    def __init__(self, num, den, tab):
        self.num = num
        self.den = den
        self.tab = tab

    # -- construction ------------------------------------------------------
    @staticmethod
    def const(c, tab):
        return RatFunc(p_const(c), p_const(1), tab)

    @staticmethod
    def atom(a, tab):
        return RatFunc({((a.id, 1),): Fraction(1)}, p_const(1), tab)

    def is_const(self):
        return p_is_const(self.num) and p_is_const(self.den)

    def const_value(self):
        return p_const_value(self.num) / p_const_value(self.den)

    def is_zero(self):
        return not self.num

    # -- arithmetic --------------------------------------------------------
    def _norm(self):
        # normalise the denominator when it is a constant; strip common content/monomial
        if p_is_const(self.den):
            c = p_const_value(self.den)
            if c != 1:
                self.num = p_scale(self.num, 1 / c)
                self.den = p_const(1)
        elif not self.num:
            self.den = p_const(1)
        else:
            # common monomial factor
            ms = list(self.num) + list(self.den)
            common = dict(ms[0])
            for m in ms[1:]:
                d = dict(m)
                for k in list(common):
                    e = min(common[k], d.get(k, 0))
                    if e <= 0:
                        del common[k]
                    else:
                        common[k] = e
                if not common:
                    break
            if common:
                inv = tuple(sorted((k, -e) for k, e in common.items()))
                self.num = {_mono_mul(m, inv): c for m, c in self.num.items()}
                self.den = {_mono_mul(m, inv): c for m, c in self.den.items()}
            # make the leading denominator coefficient 1
            lead = self.den[max(self.den)]
            if lead != 1:
                self.num = p_scale(self.num, 1 / lead)
                self.den = p_scale(self.den, 1 / lead)
            if self.den == self.num:
                self.num = p_const(1)
                self.den = p_const(1)
        return self

    def __add__(self, o):
        if self.den == o.den:
            return RatFunc(p_add(self.num, o.num), self.den, self.tab)._norm()
        return RatFunc(p_add(p_mul(self.num, o.den), p_mul(o.num, self.den)), p_mul(self.den, o.den), self.tab)._norm()

    def __sub__(self, o):
        if self.den == o.den:
            return RatFunc(p_add(self.num, o.num, -1), self.den, self.tab)._norm()
        return RatFunc(p_add(p_mul(self.num, o.den), p_mul(o.num, self.den), -1), p_mul(self.den, o.den), self.tab)._norm()

    def __neg__(self):
        return RatFunc(p_scale(self.num, -1), self.den, self.tab)

    def __mul__(self, o):
        r = RatFunc(p_mul(self.num, o.num), p_mul(self.den, o.den), self.tab)
        return _apply_root_axioms(r)._norm()

    def __truediv__(self, o):
        if not o.num:
            raise ZeroDivisionError("symbolic division by zero")
        r = RatFunc(p_mul(self.num, o.den), p_mul(self.den, o.num), self.tab)
        return _apply_root_axioms(r)._norm()

    def __pow__(self, n):
        if n < 0:
            return RatFunc.const(1, self.tab) / (self ** (-n))
        r = RatFunc.const(1, self.tab)
        b = self
        while n:
            if n & 1:
                r = r * b
            n >>= 1
            if n:
                b = b * b
        return r

    def equals(self, o):
        if self.num == o.num and self.den == o.den:
            return True
        try:
            return p_mul(self.num, o.den) == p_mul(o.num, self.den)
        except TooBig:
            return False

    def key(self):
        return (tuple(sorted(self.num.items())), tuple(sorted(self.den.items())))

    def atoms(self):
        s = set()
        for p in (self.num, self.den):
            for m in p:
                for k, _ in m:
                    s.add(k)
        return s

    def __repr__(self):
        return show_rf(self)


_ATOMS_BY_ID = {}


def register_atom(a):
    _ATOMS_BY_ID[a.id] = a


def atom_by_id(i):
    return _ATOMS_BY_ID[i]


def _apply_root_axioms(r):
    """sqrt(x)^2 -> x, cbrt(x)^3 -> x in numerator and denominator."""
    changed = True
    guard = 0
    while changed and guard < 8:
        changed = False
        guard += 1
        for which in ("num", "den"):
            p = getattr(r, which)
            hit = None
            for m in p:
                for k, e in m:
                    a = _ATOMS_BY_ID.get(k)
                    if a is None:
                        continue
                    if a.name == "sqrt" and (e >= 2 or e <= -2):
                        hit = (k, 2, a)
                        break
                    if a.name == "cbrt" and (e >= 3 or e <= -3):
                        hit = (k, 3, a)
                        break
                if hit:
                    break
            if hit:
                k, root, a = hit
                r = _subst_root(r, k, root, a.args[0])
                changed = True
                break
    return r


def _subst_root(r, k, root, inner):
    """Rewrite atom k with exponent e as k^(e mod root) * inner^(e div root) in P/Q."""
    tab = r.tab

    def conv(p):
        acc = RatFunc.const(0, tab)
        for m, c in p.items():
            rest = tuple((kk, e) for kk, e in m if kk != k)
            e = dict(m).get(k, 0)
            q, rem = divmod(e, root) if e >= 0 else (-((-e) // root), -((-e) % root))
            term = RatFunc({rest: c}, p_const(1), tab)
            if rem:
                term = RatFunc(p_mul(term.num, {((k, rem),): Fraction(1)}), term.den, tab)
            if q > 0:
                t2 = inner ** q
                term = RatFunc(p_mul(term.num, t2.num), p_mul(term.den, t2.den), tab)
            elif q < 0:
                t2 = inner ** (-q)
                term = RatFunc(p_mul(term.num, t2.den), p_mul(term.den, t2.num), tab)
            if acc.den == term.den:
                acc = RatFunc(p_add(acc.num, term.num), acc.den, tab)
            else:
                acc = RatFunc(p_add(p_mul(acc.num, term.den), p_mul(term.num, acc.den)), p_mul(acc.den, term.den), tab)
        return acc

    n = conv(r.num)
    d = conv(r.den)
    return RatFunc(p_mul(n.num, d.den), p_mul(n.den, d.num), tab)


def show_mono(m):
    parts = []
    for k, e in m:
        a = _ATOMS_BY_ID.get(k)
        s = repr(a) if a is not None else "a%d" % k
        parts.append(s if e == 1 else "%s^%d" % (s, e))
    return "*".join(parts)


def show_poly(p, limit=12):
    if not p:
        return "0"
    items = sorted(p.items(), key=lambda kv: (len(kv[0]), show_mono(kv[0])))
    out = []
    for m, c in items[:limit]:
        ms = show_mono(m)
        cs = str(c)
        if not ms:
            out.append(cs)
        elif c == 1:
            out.append(ms)
        elif c == -1:
            out.append("-" + ms)
        else:
            out.append("%s*%s" % (cs, ms))
    s = " + ".join(out).replace("+ -", "- ")
    if len(items) > limit:
        s += " + …(%d terms)" % len(items)
    return s


def show_rf(r):
    if p_is_const(r.den) and p_const_value(r.den) == 1:
        return show_poly(r.num)
    return "(%s)/(%s)" % (show_poly(r.num), show_poly(r.den))
