"""C09 — colour difference measures satisfy their defining formulas and metric laws."""
import re
from fractions import Fraction as Fr

from . import alg, sym, poly, facts
from .common import Session, check_value, check_ref, staged_check, impl_methods, apps_of, atoms_of
from .sym import Struct, Tuple, Ite, Opaque
from .poly import RatFunc
from .c08 import _find_apps

EXPLANATION = (
    "Static, all-inputs over the reals: get_ciede2000_difference is compared quantity by quantity with the Sharma-Wu-Dalal formula "
    "(every published intermediate must occur as an equal-valued `let`, matched by value, and the result must equal the final formula); "
    "Euclidean / HyAB / ΔE / improved ΔE bodies of every implementing type are normalised to exact rational functions and compared "
    "with their closed forms (Huang et al. coefficients), symmetry and zero-at-identity are discharged on the code's normal forms; the "
    "polar impls must go through the rectangular form; WCAG contrast = (max+0.05)/(min+0.05) with the five thresholds of WCAG 2.1. "
    "Not decided: symmetry of CIEDE2000 across its hue case split, the [1,21] range."
    " Deprecated RelativeContrast API: contrast_ratio vs the WCAG formula, thresholds, 16 impls feed it the luminance of self and other; relative_luminance impls."
)

PI180 = None


def ciede_steps():
    def deg(R, x):
        return R.mul(x, R.div(R.s("pi"), 180))
    steps = []
    A = steps.append
    A(("cbar", lambda R, e: R.div(R.add(R.s("p.chroma"), R.s("q.chroma")), 2)))
    A(("g", lambda R, e: R.mul(Fr(1, 2), R.sub(1, R.sqrt(R.div(R.pow(e["cbar"], 7), R.add(R.pow(e["cbar"], 7), 25 ** 7)))))))
    A(("a1p", lambda R, e: R.mul(R.s("p.a"), R.add(1, e["g"]))))
    A(("a2p", lambda R, e: R.mul(R.s("q.a"), R.add(1, e["g"]))))
    A(("c1p", lambda R, e: R.sqrt(R.add(R.pow(e["a1p"], 2), R.pow(R.s("p.b"), 2)))))
    A(("c2p", lambda R, e: R.sqrt(R.add(R.pow(e["a2p"], 2), R.pow(R.s("q.b"), 2)))))

    def hp(R, b, ap):
        r = R.f("rad2deg", R.f("atan2", b, ap))
        return R.ite(R.and_(R.eq(b, 0), R.eq(ap, 0)), 0, R.ite(R.lt(r, 0), R.add(r, 360), r))
    A(("h1p", lambda R, e: hp(R, R.s("p.b"), e["a1p"])))
    A(("h2p", lambda R, e: hp(R, R.s("q.b"), e["a2p"])))

    def zero_chroma(R, e):
        return R.or_(R.eq(e["c1p"], 0), R.eq(e["c2p"], 0))
    A(("dhp", lambda R, e: R.ite(zero_chroma(R, e), 0,
                                 R.ite(R.le(R.abs(R.sub(e["h2p"], e["h1p"])), 180), R.sub(e["h2p"], e["h1p"]),
                                       R.ite(R.le(e["h2p"], e["h1p"]), R.add(R.sub(e["h2p"], e["h1p"]), 360), R.sub(R.sub(e["h2p"], e["h1p"]), 360))))))
    A(("dHp", lambda R, e: R.mul(2, R.sqrt(R.mul(e["c1p"], e["c2p"])), R.f("sin", deg(R, R.div(e["dhp"], 2))))))
    # mean hue, Sharma eq. 14: three cases.  (The single-wrap form `(sum + 360)/2` for every |dh| > 180 agrees in the 360-periodic cosines of
    # T but not in the Gaussian of delta-theta: defect F12, repaired in /repo.)
    A(("hbar", lambda R, e: R.ite(zero_chroma(R, e), R.add(e["h1p"], e["h2p"]),
                                  R.ite(R.gt(R.abs(R.sub(e["h2p"], e["h1p"])), 180),
                                        R.ite(R.lt(R.add(e["h1p"], e["h2p"]), 360), R.div(R.add(e["h1p"], e["h2p"], 360), 2), R.div(R.sub(R.add(e["h1p"], e["h2p"]), 360), 2)),
                                        R.div(R.add(e["h1p"], e["h2p"]), 2)))))
    A(("lbar", lambda R, e: R.div(R.add(R.s("p.l"), R.s("q.l")), 2)))
    A(("cbarp", lambda R, e: R.div(R.add(e["c1p"], e["c2p"]), 2)))
    A(("T", lambda R, e: R.add(R.sub(1, R.mul("0.17", R.f("cos", deg(R, R.sub(e["hbar"], 30))))),
                               R.mul("0.24", R.f("cos", deg(R, R.mul(2, e["hbar"])))),
                               R.mul("0.32", R.f("cos", deg(R, R.add(R.mul(3, e["hbar"]), 6)))),
                               R.neg(R.mul("0.20", R.f("cos", deg(R, R.sub(R.mul(4, e["hbar"]), 63))))))))
    A(("SL", lambda R, e: R.add(1, R.div(R.mul("0.015", R.pow(R.sub(e["lbar"], 50), 2)), R.sqrt(R.add(20, R.pow(R.sub(e["lbar"], 50), 2)))))))
    A(("SC", lambda R, e: R.add(1, R.mul("0.045", e["cbarp"]))))
    A(("SH", lambda R, e: R.add(1, R.mul("0.015", e["cbarp"], e["T"]))))
    A(("dtheta", lambda R, e: R.mul(30, R.f("exp", R.neg(R.pow(R.div(R.sub(e["hbar"], 275), 25), 2))))))
    A(("RC", lambda R, e: R.mul(2, R.sqrt(R.div(R.pow(e["cbarp"], 7), R.add(R.pow(e["cbarp"], 7), 25 ** 7))))))
    A(("RT", lambda R, e: R.neg(R.mul(e["RC"], R.f("sin", deg(R, R.mul(2, e["dtheta"])))))))

    def final(R, e):
        dL = R.sub(R.s("q.l"), R.s("p.l"))
        dC = R.sub(e["c2p"], e["c1p"])
        tl, tc, th = R.div(dL, e["SL"]), R.div(dC, e["SC"]), R.div(e["dHp"], e["SH"])
        return R.sqrt(R.add(R.pow(tl, 2), R.pow(tc, 2), R.pow(th, 2), R.mul(e["RT"], tc, th)))
    return steps, final


def labdiff(S, n):
    return Struct("color_difference::LabColorDiff", {k: S.ctx.sym("%s.%s" % (n, k)) for k in ("l", "a", "b", "chroma")})


def run(F, rep, tier="quick", extra=None, only=None):
    rep.trusted += ["rustc name resolution / type check", "operator table of rules/sym.py",
                    "Sharma, Wu, Dalal (2005) CIEDE2000 formulas; Huang et al. (2015) power coefficients; WCAG 2.1 thresholds, as transcribed in rules/c09.py",
                    "axioms sqrt(x)^2 = x, abs(-x) = abs(x)"]
    S = Session(F)
    # ---------------------------------------------------------------- CIEDE2000
    b = F.fn("color_difference::get_ciede2000_difference")
    steps, final = ciede_steps()
    staged_check(rep, "ALG-REF", "ciede2000", S, b, [labdiff(S, "p"), labdiff(S, "q")], steps, final)
    # LabColorDiff from Lab / Lch
    for im in F.find_impls(trait="std::convert::From", self_adt="color_difference::LabColorDiff"):
        src = sym._adt_of_type(im["trait_args_s"][0])
        b = F.impl_method(im, "from")
        key = "LabColorDiff<-" + src.split("::")[-1]
        try:
            args = S.args(b, ["c"])
            v, _ = S.ev.eval_body(b, args)
            c = args[0]
            R = S.R
            if src.endswith("lab::Lab"):
                exp = Struct("color_difference::LabColorDiff", {"l": c.fields["l"], "a": c.fields["a"], "b": c.fields["b"],
                                                                "chroma": R.sqrt(R.add(R.pow(c.fields["a"], 2), R.pow(c.fields["b"], 2)))})
                check_value(rep, "ALG-REF", key, S, b, v, exp, sample="(l, a, b, chroma = hypot(a, b))")
            else:
                # the stored chroma is reused; l, a, b come from the Lab conversion of the same colour
                ok = isinstance(v, Struct) and sym.val_eq(v.fields["chroma"], c.fields["chroma"])
                h = R.f("deg2rad", c.fields["hue"].fields["0"])
                ch = R.max(c.fields["chroma"], 0)
                exp = Struct("color_difference::LabColorDiff", {"l": c.fields["l"], "a": R.mul(ch, R.f("cos", h)), "b": R.mul(ch, R.f("sin", h)), "chroma": c.fields["chroma"]})
                check_value(rep, "ALG-REF", key, S, b, v, exp, sample="(l, C cos h, C sin h, chroma = stored chroma)")
        except (Opaque, poly.TooBig, KeyError) as ex:
            rep.fail("ALG-REF", key, "uninterpretable: %s" % ex, F.loc(b))
    # Ciede2000 impls forward both colours, in order, through LabColorDiff into the function
    S2 = Session(F, no_inline={"color_difference::get_ciede2000_difference"})
    n = 0
    for im, ms in impl_methods(F, "color_difference::Ciede2000"):
        b = ms.get("difference")
        key = "Ciede2000[%s]" % im["self_s"]
        n += 1
        try:
            v, _ = S2.eval(b, names=["p", "q"])
            aps = _find_apps(v, lambda n_: n_.startswith("color_difference::get_ciede2000_difference"))
            ok = len(aps) == 1 and isinstance(v, RatFunc) and sym._single_atom(v) is aps[0]
            if ok:
                a0, a1 = aps[0].args
                s0 = {x for x in atoms_of(a0) if not x.startswith(("@", "unit:"))}
                s1 = {x for x in atoms_of(a1) if not x.startswith(("@", "unit:"))}
                ok = s0 and s1 and all(x.startswith("p.") for x in s0) and all(x.startswith("q.") for x in s1)
            rep.ob("SHAPE-FWD", key, ok, repr(v)[:200], F.loc(b))
        except (Opaque, poly.TooBig) as ex:
            rep.fail("SHAPE-FWD", key, "uninterpretable: %s" % ex, F.loc(b))
    rep.floor("Ciede2000 impls", n, 2)
    # improved CIEDE2000: 1.43 * dE^0.70
    b = F.fn("color_difference::<impl color_difference::ImprovedCiede2000 for C>::improved_difference") if "color_difference::<impl color_difference::ImprovedCiede2000 for C>::improved_difference" in F.bodies_by_path else None
    if b is None:
        cands = F.find_bodies(name="improved_difference")
        b = cands[0] if len(cands) == 1 else None
    if b is None:
        rep.fail("ANCHOR", "improved_ciede2000", "blanket impl not found")
    else:
        try:
            args = S.args(b, ["p", "q"])
            v, _ = S.ev.eval_body(b, args)
            aps = _find_apps(v, lambda n_: n_.startswith("color_difference::Ciede2000::difference"))
            ok = len(aps) == 1 and list(map(repr, aps[0].args)) == ["p", "q"]
            exp = S.R.mul("1.43", S.R.powf(S.ctx.app(aps[0].name, list(aps[0].args)) if ok else 0, "0.7"))
            check_value(rep, "ALG-REF", "improved_ciede2000", S, b, v, exp, sample="1.43 · ΔE00^0.70 (Huang et al.)")
        except (Opaque, poly.TooBig) as ex:
            rep.fail("ALG-REF", "improved_ciede2000", "uninterpretable: %s" % ex, F.loc(b))

    # ---------------------------------------------------------------- Euclidean, HyAB, ΔE, improved ΔE
    R = S.R
    n = 0
    for im, ms in impl_methods(F, "color_difference::EuclideanDistance"):
        b = ms.get("distance_squared")
        adt = im.get("self_adt")
        key = "distance_squared[%s]" % adt.split("::")[-1]
        n += 1
        try:
            args = S.args(b, ["p", "q"])
            p, q = args
            v, _ = S.ev.eval_body(b, args)
            exp = R.c(0)
            for k, x in p.fields.items():
                if alg._is_phantom(x):
                    continue
                exp = R.add(exp, R.pow(R.sub(x, q.fields[k]), 2))
            check_value(rep, "ALG-REF", key, S, b, v, exp, sample="Σ over every component (a_i - b_i)^2")
            v2, _ = S.ev.eval_body(b, [q, p])
            check_value(rep, "ALG-LAW", "symmetric:" + key, S, b, v2, v)
            v3, _ = S.ev.eval_body(b, [p, p])
            check_value(rep, "ALG-LAW", "zero-at-identity:" + key, S, b, v3, R.c(0))
        except (Opaque, poly.TooBig) as ex:
            rep.fail("ALG-REF", key, "uninterpretable: %s" % ex, F.loc(b))
    rep.floor("EuclideanDistance impls", n, 9)
    bdist = F.fn("color_difference::EuclideanDistance::distance")
    try:
        v, _ = S.eval(bdist, names=["p", "q"])
        ok = repr(v).startswith("sqrt(color_difference::EuclideanDistance::distance_squared<") and repr(v).endswith("(p, q))")
        rep.ob("ALG-REF", "distance=sqrt(distance_squared)", ok, repr(v), F.loc(bdist))
    except Opaque as ex:
        rep.fail("ALG-REF", "distance=sqrt(distance_squared)", str(ex), F.loc(bdist))

    HY = {"lab::Lab": ("l", "a", "b"), "luv::Luv": ("l", "u", "v"), "oklab::Oklab": ("l", "a", "b"), "cam16::ucs_jab::Cam16UcsJab": ("lightness", "a", "b")}
    n = 0
    for im, ms in impl_methods(F, "color_difference::HyAb"):
        b = ms.get("hybrid_distance")
        adt = im.get("self_adt")
        key = "hyab[%s]" % adt.split("::")[-1]
        n += 1
        if adt not in HY:
            rep.fail("ALG-REF", key, "no reference component roles for this type", F.loc(b))
            continue
        try:
            args = S.args(b, ["p", "q"])
            p, q = args
            v, _ = S.ev.eval_body(b, args)
            l_, a_, b_ = HY[adt]
            exp = R.add(R.abs(R.sub(p.fields[l_], q.fields[l_])), R.sqrt(R.add(R.pow(R.sub(p.fields[a_], q.fields[a_]), 2), R.pow(R.sub(p.fields[b_], q.fields[b_]), 2))))
            check_value(rep, "ALG-REF", key, S, b, v, exp, sample="|ΔL| + sqrt(Δa² + Δb²)")
            v2, _ = S.ev.eval_body(b, [q, p])
            check_value(rep, "ALG-LAW", "symmetric:" + key, S, b, v2, v)
            v3, _ = S.ev.eval_body(b, [p, p])
            check_value(rep, "ALG-LAW", "zero-at-identity:" + key, S, b, v3, R.c(0))
        except (Opaque, poly.TooBig) as ex:
            rep.fail("ALG-REF", key, "uninterpretable: %s" % ex, F.loc(b))
    rep.floor("HyAb impls", n, 4)

    # ΔE and improved ΔE: rectangular types = Euclidean distance; polar types convert to the rectangular type first
    RECT = {"lab::Lab": None, "cam16::ucs_jab::Cam16UcsJab": None, "lch::Lch": "lab::Lab", "cam16::ucs_jmh::Cam16UcsJmh": "cam16::ucs_jab::Cam16UcsJab"}
    COEF = {"lab::Lab": ("1.26", "0.55"), "lch::Lch": ("1.26", "0.55"), "cam16::ucs_jab::Cam16UcsJab": ("1.41", "0.63"), "cam16::ucs_jmh::Cam16UcsJmh": ("1.41", "0.63")}
    S3 = Session(F, no_inline={"color_difference::EuclideanDistance::distance"} | {ms["distance_squared"]["path"] for im, ms in impl_methods(F, "color_difference::EuclideanDistance")})
    for tr, m in (("color_difference::DeltaE", "delta_e"), ("color_difference::ImprovedDeltaE", "improved_delta_e")):
        n = 0
        for im, ms in impl_methods(F, tr):
            b = ms.get(m)
            adt = im.get("self_adt")
            key = "%s[%s]" % (m, adt.split("::")[-1])
            n += 1
            if adt not in RECT:
                rep.fail("ALG-REF", key, "no reference for this type", F.loc(b))
                continue
            try:
                args = S3.args(b, ["p", "q"])
                v, _ = S3.ev.eval_body(b, args)
                want = "distance<" if m == "delta_e" else "distance_squared<"
                aps = _find_apps(v, lambda n_: n_.startswith("color_difference::EuclideanDistance::" + want))
                ok = len(aps) == 1
                rect = RECT[adt] or adt
                if ok:
                    ok = rect.split("::")[-1] in aps[0].name
                    a0, a1 = aps[0].args
                    s0 = {x for x in atoms_of(a0) if not x.startswith(("@", "unit:"))}
                    s1 = {x for x in atoms_of(a1) if not x.startswith(("@", "unit:"))}
                    ok = ok and s0 and s1 and all(x.startswith("p.") for x in s0) and all(x.startswith("q.") for x in s1)
                    if RECT[adt]:
                        # the polar colour went through its rectangular conversion (inlined: cos/sin of the hue)
                        ok = ok and all(any(t in x for x in apps_of(a_) for t in ("from_color_unclamped", "into_color_unclamped", "cos")) for a_ in (a0, a1))
                if ok and m == "improved_delta_e":
                    k, e = COEF[adt]
                    d2 = S3.ctx.app(aps[0].name, list(aps[0].args))
                    exp = S3.R.mul(k, S3.R.powf(d2, Fr(e) / 2))
                    mm = alg.compare(v, exp, S3.ctx)
                    ok = not mm
                elif ok:
                    ok = isinstance(v, RatFunc) and sym._single_atom(v) is aps[0]
                rep.ob("ALG-REF", key, ok, "%s  (expected %s)" % (repr(v)[:220], "Euclidean distance in %s" % rect.split("::")[-1] if m == "delta_e" else "%s·(ΔE²)^(%s/2)" % COEF[adt]), F.loc(b))
            except (Opaque, poly.TooBig) as ex:
                rep.fail("ALG-REF", key, "uninterpretable: %s" % ex, F.loc(b))
        rep.floor(m + " impls", n, 4)

    # ---------------------------------------------------------------- WCAG 2.1
    b = F.fn("color_difference::Wcag21RelativeContrast::relative_contrast")
    try:
        args = S.args(b, ["p", "q"])
        v, _ = S.ev.eval_body(b, args)
        lum = lambda x: S.ev.proj(S.ev.uninterpreted(_wcag_lum_name(v), [x]), "luma")
        l1, l2 = lum(args[0]), lum(args[1])
        exp = R.div(R.add("0.05", R.max(l1, l2)), R.add("0.05", R.min(l1, l2)))
        check_value(rep, "ALG-REF", "wcag:relative_contrast", S, b, v, exp, sample="(0.05 + max(L1,L2)) / (0.05 + min(L1,L2))")
        v2, _ = S.ev.eval_body(b, [args[1], args[0]])
        check_value(rep, "ALG-LAW", "wcag:symmetric", S, b, v2, v)
    except (Opaque, poly.TooBig) as ex:
        rep.fail("ALG-REF", "wcag:relative_contrast", "uninterpretable: %s" % ex, F.loc(b))
    TH = {"has_min_contrast_text": "4.5", "has_min_contrast_large_text": "3", "has_enhanced_contrast_text": "7",
          "has_enhanced_contrast_large_text": "4.5", "has_min_contrast_graphics": "3"}
    S4 = Session(F, no_inline={"color_difference::Wcag21RelativeContrast::relative_contrast"})
    for m, t in TH.items():
        b = F.fn("color_difference::Wcag21RelativeContrast::" + m)
        try:
            args = S4.args(b, ["p", "q"])
            v, _ = S4.ev.eval_body(b, args)
            ratio = S4.ev.uninterpreted(_first_name(v, "relative_contrast"), args)
            exp = S4.R.ge(ratio, t)
            check_value(rep, "ALG-REF", "wcag:" + m, S4, b, v, exp, sample="relative_contrast(p, q) >= %s (WCAG 2.1)" % t)
        except (Opaque, poly.TooBig) as ex:
            rep.fail("ALG-REF", "wcag:" + m, "uninterpretable: %s" % ex, F.loc(b))
    check_deprecated_contrast(F, rep)
    return {"level": "other"}


def check_deprecated_contrast(F, rep):
    """The deprecated RelativeContrast API (still public, still the only contrast API of the non-RGB types): the free function
    contrast_ratio is the WCAG ratio and symmetric, the five predicates are its thresholds, every impl feeds it the luminance (Y of the
    colour's XYZ / the linear luma) of self and other, in that pairing; Wcag21RelativeContrast::relative_luminance is the conversion to
    linear D65 luma of the colour itself."""
    S = Session(F)
    R = S.R
    try:
        b = F.fn("relative_contrast::contrast_ratio")
        args = S.args(b, ["l1", "l2"])
        v, _ = S.ev.eval_body(b, args)
        l1, l2 = args
        exp = R.ite(R.gt(l1, l2), R.div(R.add("0.05", l1), R.add("0.05", l2)), R.div(R.add("0.05", l2), R.add("0.05", l1)))
        check_value(rep, "ALG-REF", "wcag(deprecated):contrast_ratio", S, b, v, exp, sample="(0.05 + lighter) / (0.05 + darker)")
        # (symmetry is a property of the reference: both arms are 1 at l1 == l2)
    except (facts.AnchorMissing, Opaque, poly.TooBig) as ex:
        rep.fail("ALG-REF", "wcag(deprecated):contrast_ratio", "uninterpretable: %s" % ex)
    TH = {"has_min_contrast_text": "4.5", "has_min_contrast_large_text": "3", "has_enhanced_contrast_text": "7",
          "has_enhanced_contrast_large_text": "4.5", "has_min_contrast_graphics": "3"}
    for m, t in TH.items():
        try:
            b = F.fn("relative_contrast::RelativeContrast::" + m)
            args = S.args(b, ["p", "q"])
            v, _ = S.ev.eval_body(b, args)
            ratio = S.ev.uninterpreted(_first_name(v, "get_contrast_ratio"), args)
            check_value(rep, "ALG-REF", "wcag(deprecated):" + m, S, b, v, R.ge(ratio, t), sample="get_contrast_ratio(p, q) >= %s (WCAG 2.1)" % t)
        except (facts.AnchorMissing, Opaque, poly.TooBig) as ex:
            rep.fail("ALG-REF", "wcag(deprecated):" + m, "uninterpretable: %s" % ex)
    # impls: contrast_ratio(lum(self), lum(other)) with the same luminance function on both sides
    S2 = Session(F, no_inline={"relative_contrast::contrast_ratio"})
    n = 0
    for im, ms in impl_methods(F, "relative_contrast::RelativeContrast"):
        b = ms.get("get_contrast_ratio")
        if b is None:
            continue
        n += 1
        key = "get_contrast_ratio[%s]" % im["self_s"]
        try:
            args = S2.args(b, ["p", "q"])
            v, _ = S2.ev.eval_body(b, args)
            aps = _find_apps(v, lambda nme: nme.startswith("relative_contrast::contrast_ratio"))
            ok = isinstance(v, RatFunc) and len(aps) == 1 and sym._single_atom(v) is aps[0] and len(aps[0].args) == 2
            detail = repr(v)[:260]
            if ok:
                a1, a2 = aps[0].args
                r1, r2 = repr(a1), repr(a2)
                # the two luminances are the same function of p and of q: swapping the names maps one onto the other
                swap = lambda s_: re.sub(r"\b([pq])\b", lambda m_: "q" if m_.group(1) == "p" else "p", s_)
                ok = swap(r1) == r2 and re.search(r"\bp\b", r1) is not None and re.search(r"\bq\b", r1) is None
                # and that function is a luminance: Y of the XYZ conversion, or the (linear) luma
                ok = ok and (re.search(r"proj\.y\(|\.y\b|\.luma\b|proj\.luma\(", r1) is not None)
                detail = "contrast_ratio(%s, %s)" % (r1[:110], r2[:110])
            rep.ob("ALG-REF", "wcag(deprecated):" + key, ok, detail, F.loc(b))
        except (Opaque, poly.TooBig) as ex:
            rep.fail("ALG-REF", "wcag(deprecated):" + key, "uninterpretable: %s" % ex, F.loc(b))
    rep.floor("RelativeContrast impls", n, 16)
    n = 0
    for im, ms in impl_methods(F, "color_difference::Wcag21RelativeContrast"):
        b = ms.get("relative_luminance")
        if b is None:
            continue
        n += 1
        key = "relative_luminance[%s]" % im["self_s"]
        calls = [(F.S[x["c"]["d"]].split("::")[-1], F.ty(x)) for x, _p in facts.walk(b["body"]) if isinstance(x.get("c"), dict) and "d" in x["c"]]
        recv = [x for x, _p in facts.walk(b["body"]) if x.get("k") == "mcall"]
        ok = len(calls) == 1 and calls[0][0] == "into_color" and "Linear<white_point::D65>" in (calls[0][1] or "") and len(recv) == 1 \
            and recv[0]["r"].get("k") == "path" and recv[0]["r"].get("res", {}).get("n") == "self"
        rep.ob("ALG-REF", "wcag:" + key, ok, "calls %s on self" % calls, F.loc(b), nontrivial=False)
    rep.floor("Wcag21RelativeContrast impls", n, 2)


def _wcag_lum_name(v):
    aps = _find_apps(v, lambda n: "relative_luminance" in n)
    return aps[0].name if aps else "color_difference::Wcag21RelativeContrast::relative_luminance<Self>"


def _first_name(v, frag):
    names = set()

    def rec(x):
        if isinstance(x, Ite):
            d = sym.Ctx._cond_rf.get(x.c)
            if isinstance(d, RatFunc):
                for a in _find_apps(d, lambda n: frag in n):
                    names.add(a.name)
            rec(x.t)
            rec(x.f)
        elif isinstance(x, RatFunc):
            for a in _find_apps(x, lambda n: frag in n):
                names.add(a.name)
    rec(v)
    return sorted(names)[0] if names else "?"
