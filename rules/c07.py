"""C07 — finite valid colours never produce NaN / infinity / a panic: the division discipline (DIV) and panic reachability (PANIC).

palette's defence against NaN/inf is a coding discipline visible in the shape of the code: a division by a quantity that can be zero for
a valid colour (black, white, the gray axis, zero alpha …) is dominated by an `is_valid_divisor()` test of that same quantity (through
`lazy_select!`, `if`, or an early return) whose other arm yields the documented neutral value.  This rule enumerates every division /
reciprocal / remainder site in the files the property anchors and requires each to be (a) by a non-zero constant, (b) dominated by such
a guard on the same divisor, or (c) listed below with the reason it cannot be zero (or non-finite) for the inputs the property admits.
"""
import re

from . import facts
from .c18 import Flow

EXPLANATION = (
    "Static dominance lint over type-checked HIR, path-insensitive except for the guard forms it recognises (if / lazy_select closure arms / "
    "early returns; conjunction, disjunction, negation, mask locals resolved through `let`).  Every one of the division, reciprocal and "
    "remainder sites in the anchored files is a non-zero constant divisor, or is dominated by is_valid_divisor()/!= 0 on the same divisor, "
    "or appears in the reviewed table with the reason the divisor is non-zero on the property's input domain; a new or unguarded site, or a "
    "table entry that no longer matches any site, fails.  Panics: no unwrap/expect/panic!/unreachable!/slice indexing in the conversion, "
    "clamp, operator, blend and colour-difference bodies outside the reviewed list.  NOT decided: overflow to infinity of finite "
    "intermediate values, NaN produced by transcendental functions (powf of a negative base etc.), f32 rounding that makes an algebraically "
    "non-zero divisor zero where no guard exists (the guards that exist are what protects against it, and those are checked)."
    " Closed world: every file under palette/src is scanned for divisions and partial functions except the categories listed with their reasons (DOM_NOT_SCANNED, NOT_SCANNED)."
)

ANCHORED = set("""palette/src/convert.rs palette/src/convert/from_into_color_unclamped.rs palette/src/convert/from_into_color.rs
palette/src/rgb/rgb.rs palette/src/xyz.rs palette/src/yxy.rs palette/src/lab.rs palette/src/lch.rs palette/src/luv.rs palette/src/lchuv.rs
palette/src/hsluv.rs palette/src/hsl.rs palette/src/hsv.rs palette/src/hwb.rs palette/src/luma/luma.rs palette/src/lms/lms.rs
palette/src/oklab.rs palette/src/oklch.rs palette/src/okhsl.rs palette/src/okhsv.rs palette/src/okhwb.rs palette/src/macros/blend.rs
palette/src/blend/blend.rs palette/src/blend/compose.rs palette/src/color_difference.rs palette/src/num.rs palette/src/cam16/math.rs
palette/src/ok_utils.rs palette/src/luv_bounds.rs palette/src/macros/clamp.rs palette/src/macros/lighten_saturate.rs palette/src/macros/mix.rs
palette/src/macros/arithmetics.rs""".split())

CONST_FNS = {"from_f64", "one", "max_intensity", "full_rotation", "half_rotation"}

# (function path suffix, canonical divisor key [norm_render: arithmetic lets expanded, sums/products sorted, long keys abbreviated to a prefix
# and a digest]) -> (reason, [shallow keys of the sites it covers: the same expression with locals left as names]).  Confirmed by reading; keys
# regenerated mechanically whenever the normal form changes.
TABLE = {
    ("FromColorUnclamped<cam16::ucs_jmh::Cam16UcsJmh<T>> for cam16::partial::cam16_jmh::Cam16Jmh<T>>::from_color_unclamped", "(- (from_f64(0.007) * val.lightness) + from_f64(1.7))"):
        ("1.7 - 0.007 J' with J' in [0, 100] (documented range of the UCS lightness): >= 1.0",
         ["(- (from_f64(0.007) * val.lightness) + from_f64(1.7))"]),
    ("<cam16::ucs_jmh::Cam16UcsJmh<T> as FromColorUnclamped<cam16::partial::cam16_jmh::Cam16Jmh<T>>>", "(+ (from_f64(0.007) * val.lightness) + one())"):
        ("1 + 0.007 J with J >= 0: >= 1",
         ["(+ (from_f64(0.007) * val.lightness) + one())"]),
    ("chromatic_adaptation::diagonal_matrix", "input_wp.with_meta()"):
        ("component-wise quotient of two white points in LMS: cone responses of a white point are positive constants",
         ["input_wp.with_meta()"]),
    ("relative_contrast::contrast_ratio", "(+ from_f64(0.05) + luma2)"):
        ("0.05 + relative luminance, luminance >= 0", ["(+ from_f64(0.05) + luma2)"]),
    ("relative_contrast::contrast_ratio", "(+ from_f64(0.05) + luma1)"):
        ("0.05 + relative luminance, luminance >= 0", ["(+ from_f64(0.05) + luma1)"]),
    ("<u8 as stimulus::IntoStimulus<f32>>::into_stimulus", "(+ from_bits((+ def + from(def))) - from_bits(def))"):
        ("difference of two float constants built from bit patterns (2^23 + 255 and 2^23): 255, non-zero", ["(- from_bits(def) + from_bits(max_u))"]),
    ("<u8 as stimulus::IntoStimulus<f64>>::into_stimulus", "(+ from_bits((+ def + from(def))) - from_bits(def))"):
        ("difference of two float constants built from bit patterns: 255, non-zero", ["(- from_bits(def) + from_bits(max_u))"]),
    ("matrix::matrix_inverse", "det"):
        ("guarded: `if !det.is_valid_divisor() { panic!(..) }` two statements above (det is reassigned afterwards, which hides the guard from "
         "the dominance rule); that the built-in matrices are invertible is C14's MATRIX rule", ["det"]),
    ("blend::blend::dodge_blend", "(+ one() - src)"):
        ("arm reached only when src < 1 (previous arm returns for src >= 1): divisor > 0",
         ["(+ one() - src)"]),
    ("blend::blend::burn_blend", "src"):
        ("arm reached only when src > 0 (previous arm returns for src <= 0)",
         ["src"]),
    ("cam16::math::xyz_to_cam16", "from_scalar(parameters.a_w)"):
        ("A_w > 0: achromatic response of the adopted white",
         ["from_scalar(parameters.a_w)"]),
    ("cam16::math::xyz_to_cam16", "(+ (b_a * from_f64(1.05)) + from_f64(0.305) + g_a + r_a)"):
        ("CAM16 t denominator: compressed responses of a colour inside the gamut are > -0.1 each; +0.305 keeps it positive",
         ["(+ (b_a * from_f64(1.05)) + from_f64(0.305) + g_a + r_a)"]),
    ("cam16::math::calculate_brightness", "param_c"):
        ("surround factor c in [0.525, 0.69]",
         ["param_c"]),
    ("cam16::math::calculate_saturation", "(+ from_f64(4.0) + param_a_w)"):
        ("A_w + 4 > 0",
         ["(+ from_f64(4.0) + param_a_w)"]),
    ("cam16::math::non_black_cam16_to_xyz", "j_root"):
        ("only called for non-black colours (cam16_to_xyz selects zero for J = 0 / Q = 0): J_root > 0",
         ["j_root"]),
    ("cam16::math::non_black_cam16_to_xyz", "from_scalar(parameters.z)"):
        ("z = 1.48 + sqrt(n) > 0",
         ["from_scalar(parameters.z)"]),
    ("cam16::math::non_black_cam16_to_xyz", "from_scalar(parameters.c)"):
        ("surround factor c in [0.525, 0.69]",
         ["from_scalar(parameters.c)"]),
    ("cam16::math::non_black_cam16_to_xyz", "from_scalar(parameters.n_bb)"):
        ("N_bb = 0.725 n^-0.2 > 0",
         ["from_scalar(parameters.n_bb)"]),
    ("cam16::math::non_black_cam16_to_xyz", "(+ ((+ (+ from_f64(2.0) + h_rad).cos() + from_f64(3.8)) * (from_f64(5e4) / from_f64(13.0)) * from_f6 ...#29fd7693fba5"):
        ("CAM16 inverse step: 23 p_1 dominates for in-gamut chroma (p_1 ~ 3846 N_c N_cb e_t >= 2.7e3 e_t)",
         ["(+ ((+ (cos_h * from_f64(11.0)) + (from_f64(108.0) * sin_h)) * t) + (from_f64(23.0) * p_1))"]),
    ("cam16::math::prepare_parameters", "(+ (from_f64(5.0) * parameters.adapting_luminance) + one())"):
        ("5 L_A + 1 >= 1 for a non-negative adapting luminance",
         ["(+ (from_f64(5.0) * l_a) + one())"]),
    ("cam16::math::prepare_parameters", "(from_f64(100.0) * parameters.white_point).y"):
        ("white point luminance > 0",
         ["y_w"]),
    ("cam16::math::prepare_parameters", "c_w"):
        ("cone response of the white point > 0",
         ["c_w"]),
    ("cam16::math::prepare_parameters", "d_c"):
        ("D_RGB component: lerp(1, Y_w/RGB_w, D) > 0",
         ["d_c"]),
    ("cam16::math::prepare_parameters", "f_l"):
        ("F_L > 0 for L_A > 0",
         ["f_l"]),
    ("cam16::math::chroma_to_saturation", "j_root"):
        ("called through ChromaticityType::into_cam16 only in the non-black arm of lazy_select",
         ["j_root"]),
    ("cam16::math::colorfulness_to_chroma", "param_f_l_4"):
        ("F_L^(1/4) > 0",
         ["param_f_l_4"]),
    ("cam16::math::brightness_to_j_root", "((+ from_f64(4.0) + param_a_w) * param_f_l_4)"):
        ("(4 + A_w) F_L^(1/4) > 0",
         ["((+ from_f64(4.0) + param_a_w) * param_f_l_4)"]),
    ("cam16::math::saturation_to_alpha", "param_c"):
        ("surround factor c in [0.525, 0.69]",
         ["param_c"]),
    ("cam16::math::Adapt::<T>::run", "(+ from_f64(27.13) + x)"):
        ("x = (F_L |c| / 100)^0.42 >= 0, so x + 27.13 >= 27.13",
         ["(+ from_f64(27.13) + x)"]),
    ("cam16::math::Unadapt::<T>::run", "(- component.abs() + from_f64(400.0))"):
        ("|adapted response| < 400 for every finite forward result (400 x/(x+27.13) < 400)",
         ["(- c_abs + from_f64(400.0))"]),
    ("color_difference::get_ciede2000_difference", "(+ ((+ other.chroma + this.chroma) / from_f64(2.0)).powi(7) + from_f64(6103515625.0))"):
        ("C^7 + 25^7 >= 25^7",
         ["(+ c_bar_pow_seven + twenty_five_pow_seven)"]),
    ("color_difference::get_ciede2000_difference", "((+ (((+ ((+ other.l + this.l) / from_f64(2.0)) - from_f64(50.0)) * (+ ((+ other.l + this.l) / from_ ...#86133a80b22c"):
        ("k_L = 1 and S_L = 1 + ... >= 1",
         ["(k_l * s_l)"]),
    ("color_difference::get_ciede2000_difference", "((+ (((+ (+ ((+ ((- (((+ other.chroma + this.chroma) / from_f64(2.0)).powi(7) / (+ ((+ other.chroma  ...#37310c2cc87b"):
        ("k_H = 1; S_H = 1 + 0.015 C' T with T >= 1 - 0.17 - 0.24 - 0.32 - 0.20 = 0.07 > 0, so S_H >= 1",
         ["(k_h * s_h)"]),
    ("color_difference::get_ciede2000_difference", "((+ (((+ (+ ((+ ((- (((+ other.chroma + this.chroma) / from_f64(2.0)).powi(7) / (+ ((+ other.chroma  ...#a5b53086334d"):
        ("product of the two factors above, each >= 1",
         ["(k_c * k_h * s_c * s_h)"]),
    ("color_difference::Wcag21RelativeContrast::relative_contrast", "(+ from_f64(0.05) + min_luma)"):
        ("relative luminance >= 0, so min + 0.05 >= 0.05",
         ["(+ from_f64(0.05) + min_luma)"]),
    ("<hsl::Hsl<S, T> as FromColorUnclamped<rgb::rgb::Rgb<S, T>>>", "(+ from_f64(2.0) - max - min)"):
        ("scalar arm: taken when sum > 1 and max != min; sum = max + min < 2 unless max = min = 1 which the max != min test excludes",
         ["(+ from_f64(2.0) - sum)"]),
    ("<hsl::Hsl<S, T> as FromColorUnclamped<rgb::rgb::Rgb<S, T>>>", "(+ max + min)"):
        ("scalar arm: sum <= 1 branch with max != min, channels clamped to >= 0: sum >= max > 0",
         ["sum"]),
    ("<hsl::Hsl<S, T> as FromColorUnclamped<rgb::rgb::Rgb<S, T>>>", "(+ max - min)"):
        ("scalar arm: inside `if max != min`, d = max - min",
         ["d"]),
    ("<hsl::Hsl<S, T> as FromColorUnclamped<rgb::rgb::Rgb<S, T>>>", "(+ max(max(max(rgb.green, zero()), max(rgb.red, zero())), max(rgb.blue, zero())) + min(max(rgb.blue, ...#a41fed4c0167"):
        ("mask arm: lazy_select else-arm of min == max; same argument as the scalar arm",
         ["sum.gt(one()).select((+ from_f64(2.0) - sum), sum)"]),
    ("<hsv::Hsv<S, T> as FromColorUnclamped<rgb::rgb::Rgb<S, T>>>", "(+ max - min)"):
        ("scalar arm: inside `if max != min`, d = max - min",
         ["d"]),
    ("<hsv::Hsv<S, T> as FromColorUnclamped<rgb::rgb::Rgb<S, T>>>", "max"):
        ("scalar arm: inside `if max != min` with channels clamped to >= 0: max > min >= 0",
         ["max"]),
    ("<hsv::Hsv<S, T> as FromColorUnclamped<rgb::rgb::Rgb<S, T>>>", "max(max(max(rgb.green, zero()), max(rgb.red, zero())), max(rgb.blue, zero()))"):
        ("mask arm: else-arm of chroma == 0; chroma = value - min > 0 and min >= 0 give value > 0",
         ["value"]),
    ("Hwb<S, T> as Clamp>::clamp", "divisor"):
        ("divisor = select(sum > 1, sum, 1): either > 1 or exactly 1",
         ["divisor"]),
    ("Hwb<S, T> as ClampAssign>::clamp_assign", "divisor"):
        ("divisor = select(sum > 1, sum, 1): either > 1 or exactly 1",
         ["divisor"]),
    ("<lab::Lab<Wp, T> as FromColorUnclamped<xyz::Xyz<Wp, T>>>", "get_xyz().with_white_point()"):
        ("white point tristimulus values are positive literals (C14 checks the table)",
         ["get_xyz().with_white_point()"]),
    ("<luv::Luv<Wp, T> as FromColorUnclamped<xyz::Xyz<Wp, T>>>", "(+ (from_f64(15.0) * w.y) + (from_f64(3.0) * w.z) + w.x)"):
        ("white point tristimulus values are positive literals",
         ["(+ (from_f64(15.0) * w.y) + (from_f64(3.0) * w.z) + w.x)"]),
    ("<luv::Luv<Wp, T> as FromColorUnclamped<xyz::Xyz<Wp, T>>>", "w.y"):
        ("white point luminance is a positive literal",
         ["w.y"]),
    ("luv_bounds::LuvBounds::from_lightness", "(+ ((- (126452.0 * index) + (632260.0 * index)) * sub2) + (126452.0 * t))"):
        ("zero only for l = 0 on the t = 0 lines; the resulting NaN line is skipped by intersect_length_at_angle (|denom| > 1e-6 is false for NaN), the t = 1 lines give length 0 -- or are skipped too at hue 0 / 180, where max_chroma_at_hue now returns 0 for 'no line hit' (this entry used to claim the t = 1 lines always answer: wrong, F14; SENTINEL guards the not-found case now) -- and Hsluv<-Lchuv tests the bound with is_normal",
         ["bottom"]),
    ("ok_utils::find_gamut_intersection", "(+ ((+ l0 - l1) * cusp.chroma) + (c1 * cusp.lightness))"):
        ("lower-half intersection: called with l0 = l1 = L, c1 = 1: divisor = L_cusp > 0",
         ["(+ ((+ l0 - l1) * cusp.chroma) + (c1 * cusp.lightness))"]),
    ("ok_utils::find_gamut_intersection", "(+ ((+ cusp.lightness - one()) * c1) + ((+ l0 - l1) * cusp.chroma))"):
        ("upper-half intersection: called with l0 = l1 = L, c1 = 1: divisor = L_cusp - 1 < 0",
         ["(+ ((+ cusp.lightness - one()) * c1) + ((+ l0 - l1) * cusp.chroma))"]),
    ("ok_utils::find_gamut_intersection", "(- ((+ ((+ ((((+ l0 - one()) * cusp.chroma) / (+ ((+ cusp.lightness - one()) * c1) + ((+ l0 - l1) *  ...#27c3602fb0e1"):
        ("Halley denominator (published algorithm)",
         ["(- (from_f64(0.5) * r * r2) + (r1 * r1))"]),
    ("ok_utils::find_gamut_intersection", "(- ((- ((+ ((((+ l0 - one()) * cusp.chroma) / (+ ((+ cusp.lightness - one()) * c1) + ((+ l0 - l1) *  ...#a10b8876ff56"):
        ("Halley denominator (published algorithm)",
         ["(- (from_f64(0.5) * g * g2) + (g1 * g1))"]),
    ("ok_utils::find_gamut_intersection", "(- ((+ ((+ ((((+ l0 - one()) * cusp.chroma) / (+ ((+ cusp.lightness - one()) * c1) + ((+ l0 - l1) *  ...#4fcf6ee0fe81"):
        ("Halley denominator (published algorithm); a negative u is replaced by FLT_MAX afterwards",
         ["(- (b * b2 * from_f64(0.5)) + (b1 * b1))"]),
    ("ok_utils::ChromaValues::<T>::from_normalized", "min(((- lightness + one()) * st_max.t), (lightness * st_max.s))"):
        ("min(L S_max, (1-L) T_max) > 0 for 0 < L < 1",
         ["min(((- lightness + one()) * st_max.t), (lightness * st_max.s))"]),
    ("ok_utils::ChromaValues::<T>::from_normalized", "(+ (one() / ((- lightness + one()) * (- lightness + one()) * (- lightness + one()) * (- lightness +  ...#8ca95e0c753e"):
        ("sum of two positive reciprocals",
         ["(+ (one() / (c_a * c_a * c_a * c_a)) + (one() / (c_b * c_b * c_b * c_b)))"]),
    ("ok_utils::ChromaValues::<T>::from_normalized", "(lightness * lightness * lightness * lightness * st_mid.s * st_mid.s * st_mid.s * st_mid.s)"):
        ("C_a = L S_mid > 0 for 0 < L < 1",
         ["(c_a * c_a * c_a * c_a)"]),
    ("ok_utils::ChromaValues::<T>::from_normalized", "((- lightness + one()) * (- lightness + one()) * (- lightness + one()) * (- lightness + one()) * st_mid.t * st_mid.t * st_mid.t * st_mid.t)"):
        ("C_b = (1 - L) T_mid > 0 for 0 < L < 1",
         ["(c_b * c_b * c_b * c_b)"]),
    ("ok_utils::ChromaValues::<T>::from_normalized", "(+ (one() / ((- lightness + one()) * (- lightness + one()) * from_f64(0.8) * from_f64(0.8))) + (one() / (from_f64(0.4) * from_f64(0.4) * lightness * lightness)))"):
        ("sum of two positive reciprocals",
         ["(+ (one() / (c_a * c_a)) + (one() / (c_b * c_b)))"]),
    ("ok_utils::ChromaValues::<T>::from_normalized", "(from_f64(0.4) * from_f64(0.4) * lightness * lightness)"):
        ("C_a = 0.4 L > 0: callers return early for L = 0 and L = 1",
         ["(c_a * c_a)"]),
    ("ok_utils::ChromaValues::<T>::from_normalized", "((- lightness + one()) * (- lightness + one()) * from_f64(0.8) * from_f64(0.8))"):
        ("C_b = 0.8 (1 - L) > 0: callers return early for L = 0 and L = 1",
         ["(c_b * c_b)"]),
    ("ok_utils::LC::<T>::find_cusp", "max(max(rgb_at_max.green, rgb_at_max.red), rgb_at_max.blue)"):
        ("the brightest colour of a hue has a positive largest channel",
         ["max(max(rgb_at_max.green, rgb_at_max.red), rgb_at_max.blue)"]),
    ("ok_utils::LC::<T>::max_saturation", "(- ((+ ((+ ((+ (a * from_f64(-0.0894841775)) - (b * from_f64(1.2914855480))) * approx_max_saturation ...#b3e1e495e226"):
        ("Halley denominator f'^2 - f f''/2: f' != 0 at the fitted saturation (the channel crosses zero transversally); published algorithm",
         ["(- (f * f2 * from_f64(0.5)) + f1.powi(2))"]),
    ("<ok_utils::ST<T> as std::convert::From<ok_utils::LC<T>>>::from", "lc.lightness"):
        ("cusp lightness = cbrt(1/max rgb) lies strictly between 0 and 1",
         ["lc.lightness"]),
    ("<ok_utils::ST<T> as std::convert::From<ok_utils::LC<T>>>::from", "(- lc.lightness + one())"):
        ("cusp lightness lies strictly between 0 and 1",
         ["(- lc.lightness + one())"]),
    ("ok_utils::ST::<T>::mid", "(+ ((+ ((+ ((+ (a_ * from_f64(4.69891013)) + (b_ * from_f64(5.38770819)) + from_f64(-4.24894561)) *  ...#59d456525358"):
        ("published fit: denominator polynomial is positive on the unit circle (a,b)",
         ["(+ ((+ ((+ ((+ (a_ * from_f64(4.69891013)) + (b_ * from_f64(5.38770819)) + from_f64(-4.24894561)) *  ...#59d456525358"]),
    ("ok_utils::ST::<T>::mid", "(+ ((+ ((+ ((- (a_ * from_f64(0.14661872)) - (b_ * from_f64(0.45399568)) + from_f64(0.00299215)) * a ...#b476d199fd60"):
        ("published fit: denominator polynomial is positive on the unit circle (a,b)",
         ["(+ ((+ ((+ ((- (a_ * from_f64(0.14661872)) - (b_ * from_f64(0.45399568)) + from_f64(0.00299215)) * a ...#b476d199fd60"]),
    ("ok_utils::toe_inv", "(((+ from_f64(0.206) + one()) / (+ from_f64(0.03) + one())) * (+ from_f64(0.03) + l_r))"):
        ("k_3 (x + 0.03) > 0 for x >= 0",
         ["((+ k_2 + l_r) * k_3)"]),
    ("<okhsl::Okhsl<T> as FromColorUnclamped<oklab::Oklab<T>>>", "cs.mid"):
        ("C_mid > 0 for 0 < L < 1 (early return handles L = 0, L = 1, C = 0)",
         ["cs.mid"]),
    ("<okhsl::Okhsl<T> as FromColorUnclamped<oklab::Oklab<T>>>", "(+ ((- ((cs.zero * from_f64(0.8)) / cs.mid) + one()) * chroma) + (cs.zero * from_f64(0.8)))"):
        ("Moebius denominator: k_1 + (1 - k_1/C_mid) C > 0 for 0 <= C < C_mid",
         ["(+ (chroma * k_2) + k_1)"]),
    ("<okhsl::Okhsl<T> as FromColorUnclamped<oklab::Oklab<T>>>", "cs.zero"):
        ("C_0 > 0 for 0 < L < 1",
         ["cs.zero"]),
    ("<okhsl::Okhsl<T> as FromColorUnclamped<oklab::Oklab<T>>>", "(+ cs.max - cs.mid)"):
        ("C_max > C_mid = 0.9 k (...) < C_max by construction for 0 < L < 1",
         ["(+ cs.max - cs.mid)"]),
    ("<okhsl::Okhsl<T> as FromColorUnclamped<oklab::Oklab<T>>>", "(+ (((- from_f64(0.8) + one()) * (cs.mid * from_f64(1.25)).powi(2)) / cs.zero) + ((+ chroma - cs.mid) * (- ((((- from_f64(0.8) + one()) * (cs.mid * from_f64(1.25)).powi(2)) / cs.zero) / (+ cs.max - cs.mid)) + one())))"):
        ("Moebius denominator of the upper piece, positive for C_mid <= C <= C_max",
         ["(+ ((+ chroma - k_0) * k_2) + k_1)"]),
    ("<okhsv::Okhsv<T> as FromColorUnclamped<oklab::Oklab<T>>>", "st_max.s"):
        ("S_max = C_cusp / L_cusp > 0",
         ["st_max.s"]),
    ("<okhsv::Okhsv<T> as FromColorUnclamped<oklab::Oklab<T>>>", "(+ (lab.l * st_max.t) + chroma)"):
        ("C + L T_max > 0 after the early return for zero chroma",
         ["(+ (lab.l * st_max.t) + chroma)"]),
    ("<okhsv::Okhsv<T> as FromColorUnclamped<oklab::Oklab<T>>>", "((st_max.t / (+ (lab.l * st_max.t) + chroma)) * lab.l)"):
        ("L_v = t L > 0 after the early returns for L = 0",
         ["l_v"]),
    ("<okhsv::Okhsv<T> as FromColorUnclamped<oklab::Oklab<T>>>", "max(max(rgb_scale.blue, zero()), max(rgb_scale.green, rgb_scale.red))"):
        ("max linear-sRGB channel of the hue's brightest colour > 0",
         ["max(max(rgb_scale.blue, zero()), max(rgb_scale.green, rgb_scale.red))"]),
    ("<okhsv::Okhsv<T> as FromColorUnclamped<oklab::Oklab<T>>>", "lightness_scale_factor"):
        ("cbrt of a positive quotient",
         ["lightness_scale_factor"]),
    ("<okhsv::Okhsv<T> as FromColorUnclamped<oklab::Oklab<T>>>", "(+ ((- (from_f64(0.5) / st_max.s) + one()) * (st_max.t / (+ (lab.l * st_max.t) + chroma)) * chroma * st_max.t) + (from_f64(0.5) * st_max.t))"):
        ("T_max S_0 + T_max k C_v > 0 (all factors positive)",
         ["(+ (c_v * k * st_max.t) + (s_0 * st_max.t))"]),
    ("impl Clamp for okhwb::Okhwb<T>>::clamp", "divisor"):
        ("divisor = select(sum > 1, sum, 1): either > 1 or exactly 1",
         ["divisor"]),
    ("impl ClampAssign for okhwb::Okhwb<T>>::clamp_assign", "divisor"):
        ("divisor = select(sum > 1, sum, 1): either > 1 or exactly 1",
         ["divisor"]),
    ("<oklab::Oklab<T> as FromColorUnclamped<okhsl::Okhsl<T>>>", "cs.mid"):
        ("C_mid > 0 for 0 < L < 1 (early returns handle lightness 0 and 1)",
         ["cs.mid"]),
    ("<oklab::Oklab<T> as FromColorUnclamped<okhsl::Okhsl<T>>>", "(- ((- ((cs.zero * from_f64(0.8)) / cs.mid) + one()) * from_f64(1.25) * hsl.saturation) + one())"):
        ("lower piece: 1 - k_2 t with k_2 = 1 - k_1/C_mid < 1 and 0 <= t = 1.25 s < 1",
         ["(- (k_2 * t) + one())"]),
    ("<oklab::Oklab<T> as FromColorUnclamped<okhsl::Okhsl<T>>>", "cs.zero"):
        ("C_0 > 0 for 0 < L < 1",
         ["cs.zero"]),
    ("<oklab::Oklab<T> as FromColorUnclamped<okhsl::Okhsl<T>>>", "(+ cs.max - cs.mid)"):
        ("C_max > C_mid for 0 < L < 1",
         ["(+ cs.max - cs.mid)"]),
    ("<oklab::Oklab<T> as FromColorUnclamped<okhsl::Okhsl<T>>>", "(- (((- from_f64(0.8) + hsl.saturation) / (- from_f64(0.8) + one())) * (- ((((- from_f64(0.8) + one()) * cs.mid * cs.mid * from_f64(1.25) * from_f64(1.25)) / cs.zero) / (+ cs.max - cs.mid)) + one())) + one())"):
        ("upper piece: 1 - k_2 t with k_2 = 1 - k_1/(C_max - C_mid) < 1 and 0 <= t <= 1",
         ["(- (k_2 * t) + one())"]),
    ("<oklab::Oklab<T> as FromColorUnclamped<okhsv::Okhsv<T>>>", "cusp.s"):
        ("S_max > 0",
         ["cusp.s"]),
    ("<oklab::Oklab<T> as FromColorUnclamped<okhsv::Okhsv<T>>>", "(- ((- (from_f64(0.5) / cusp.s) + one()) * cusp.t * hsv.saturation) + cusp.t + from_f64(0.5))"):
        ("S_0 + T_max (1 - k s) > 0 for 0 <= s <= 1, k < 1",
         ["(- (cusp.t * hsv.saturation * k) + cusp.t + s_0)"]),
    ("<oklab::Oklab<T> as FromColorUnclamped<okhsv::Okhsv<T>>>", "(- ((from_f64(0.5) * hsv.saturation) / (- ((- (from_f64(0.5) / cusp.s) + one()) * cusp.t * hsv.saturation) + cusp.t + from_f64(0.5))) + one())"):
        ("L_v = 1 - s S_0/(...) in (0, 1]",
         ["l_v"]),
    ("<oklab::Oklab<T> as FromColorUnclamped<okhsv::Okhsv<T>>>", "lightness"):
        ("after the early return for value = 0: L = v L_v > 0",
         ["lightness"]),
    ("<oklab::Oklab<T> as FromColorUnclamped<okhsv::Okhsv<T>>>", "max(max(rgb_scale.blue, zero()), max(rgb_scale.green, rgb_scale.red))"):
        ("max linear-sRGB channel of the hue's brightest colour > 0",
         ["max(max(rgb_scale.blue, zero()), max(rgb_scale.green, rgb_scale.red))"]),
    ("xyz::Xyz::<Wp, T>::normalize", "self.y"):
        ("documented precondition of the (crate-private) helper: used with non-black colours",
         ["y"]),
    ("<xyz::Xyz<Wp, T> as FromColorUnclamped<luv::Luv<Wp, T>>>", "(+ (from_f64(15.0) * w.y) + (from_f64(3.0) * w.z) + w.x)"):
        ("white point tristimulus values are positive literals",
         ["(+ (from_f64(15.0) * w.y) + (from_f64(3.0) * w.z) + w.x)"]),
    ("<xyz::Xyz<Wp, T> as FromColorUnclamped<luv::Luv<Wp, T>>>", "(color.l * from_f64(13.0))"):
        ("after the early return for l < 1e-5: 13 l > 0",
         ["(color.l * from_f64(13.0))"]),
}

PANIC_ALLOW = {
    "matrix_inverse": "documented: panics for a singular matrix; called with the constant primaries / adaptation matrices only",
}


def mkflow(F, b):
    """Flow of a body in which a local that is ever reassigned or mutably borrowed has NO known value: looking through `let mut x = init`
    would be unsound for the proofs (non-negativity, constants, guards of `the same divisor`) and non-canonical for the table keys."""
    flow = Flow(F, b, ["self"])
    dead = set()

    def local_of(x):
        x = strip(x) if isinstance(x, dict) else {}
        while x.get("k") in ("field", "index", "un") and isinstance(x.get("e"), dict):
            x = strip(x["e"])
        if x.get("k") == "path" and isinstance(x.get("res"), dict) and x["res"].get("k") == "local":
            return x["res"].get("h")
        return None
    for n, _parents in facts.walk(b["body"]):
        k = n.get("k")
        if k in ("assign", "assignop") and n.get("a"):
            h = local_of(n["a"][0])
            if h is not None:
                dead.add(h)
        elif k == "ref" and n.get("mut"):
            h = local_of(n.get("e"))
            if h is not None:
                dead.add(h)
        elif k == "path" and "m" in str(n.get("adj", "")) and isinstance(n.get("res"), dict) and n["res"].get("k") == "local":
            dead.add(n["res"].get("h"))
    for h in dead:
        flow.bind.pop(h, None)
        flow.bind_pos.pop(h, None)
    flow.reassigned = dead
    return flow


def strip(e):
    while isinstance(e, dict) and (e.get("k") in ("ref", "paren") or (e.get("k") == "un" and e.get("op") == "*")):
        e = e["e"]
    return e


class Site:
    __slots__ = ("body", "node", "div", "parents", "kind")


def const_value(e, flow, depth=0):
    """Numeric value of an expression built from literals, from_f64, one(), zero() and arithmetic; None otherwise."""
    e = strip(e)
    k = e.get("k")
    if depth > 8:
        return None
    if k == "lit":
        try:
            return float(str(e["lit"].get("v")).replace("_", "").replace("f64", "").replace("f32", ""))
        except ValueError:
            return None
    if k == "call" and isinstance(e.get("c"), dict):
        n = e["c"].get("n")
        if n in ("from_f64", "from_scalar") and e.get("a"):
            return const_value(e["a"][0], flow, depth + 1)
        if n in ("one", "max_intensity"):
            return 1.0
        if n == "zero":
            return 0.0
    if k == "path" and e["res"].get("k") == "local":
        b = flow.bind.get(e["res"]["h"])
        return const_value(b, flow, depth + 1) if b is not None else None
    if k == "mcall" and e["n"] in ("clone", "into") and not e.get("a"):
        return const_value(e["r"], flow, depth + 1)
    if k == "bin" and e.get("op") in ("+", "-", "*", "/"):
        a, b = (const_value(x, flow, depth + 1) for x in e["a"])
        if a is None or b is None:
            return None
        try:
            return {"+": a + b, "-": a - b, "*": a * b, "/": a / b}[e["op"]]
        except ZeroDivisionError:
            return None
    if k == "un" and e.get("op") == "-":
        a = const_value(e["e"], flow, depth + 1)
        return None if a is None else -a
    if k == "cast":
        return const_value(e["e"], flow, depth + 1)
    return None


def is_const(e, flow, depth=0):
    cv = const_value(e, flow)
    if cv is not None:
        return cv != 0.0
    e = strip(e)
    k = e.get("k")
    if k == "lit":
        v = str(e["lit"].get("v"))
        try:
            return float(v.replace("_", "").replace("f64", "").replace("f32", "")) != 0.0
        except ValueError:
            return True
    if k == "call" and isinstance(e.get("c"), dict):
        n = e["c"].get("n")
        if n in ("from_f64", "from_scalar"):
            return all(is_const(a, flow, depth + 1) for a in e.get("a", []))
        if n in CONST_FNS:
            return True
    if k == "path" and e["res"].get("k") == "local" and depth < 6:
        b = flow.bind.get(e["res"]["h"])
        return b is not None and is_const(b, flow, depth + 1)
    if k == "path" and e["res"].get("k") == "def":
        return True
    if k == "mcall" and e["n"] in ("clone", "into", "powi", "powf", "sqrt", "cbrt", "recip") and depth < 6:
        return is_const(e["r"], flow, depth + 1) and all(is_const(a, flow, depth + 1) for a in e.get("a", []))
    if k == "bin" and e.get("op") in ("*", "/"):
        return all(is_const(a, flow, depth + 1) for a in e["a"])
    if k == "cast":
        return is_const(e["e"], flow, depth + 1)
    return False


def render(e, flow, depth=0):
    """Source-like rendering with `let`-bound single-use wrappers (clone / & / mask locals) kept as names."""
    e = strip(e)
    k = e.get("k")
    if k == "path":
        r = e["res"]
        return r.get("n") or "def"
    if k == "field":
        return "%s.%s" % (render(e["e"], flow), e["n"])
    if k == "lit":
        return str(e["lit"].get("v"))
    if k == "mcall":
        if e["n"] in ("clone", "into", "borrow") and not e.get("a"):
            return render(e["r"], flow)
        return "%s.%s(%s)" % (_par(e["r"], flow), e["n"], ", ".join(render(a, flow) for a in e.get("a", [])))
    if k == "call":
        c = e.get("c")
        nm = c["n"] if isinstance(c, dict) and "n" in c else "ctor"
        return "%s(%s)" % (nm, ", ".join(render(a, flow) for a in e.get("a", [])))
    if k == "bin":
        return "%s %s %s" % (_par(e["a"][0], flow, e.get("op")), e.get("op"), _par(e["a"][1], flow, e.get("op"), right=True))
    if k == "un":
        return e.get("op", "") + _par(e["e"], flow)
    if k == "cast":
        return render(e["e"], flow)
    if k == "tup":
        return "(%s)" % ", ".join(render(a, flow) for a in e.get("a", []))
    if k == "block" and not e.get("s") and e.get("e"):
        return render(e["e"], flow)
    return k or "?"


def _expandable(e):
    """Initialisers that are plain arithmetic: safe to look through when keying a divisor."""
    e = strip(e)
    k = e.get("k")
    if k in ("lit", "path", "field"):
        return True
    if k in ("bin", "un", "cast"):
        return True
    if k == "call" and isinstance(e.get("c"), dict) and e["c"].get("n") in ("from_f64", "from_scalar", "one", "zero", "max", "min"):
        return True
    if k == "mcall" and e["n"] in ("clone", "into", "sqrt", "abs", "powi", "max", "min"):
        return True
    return False


def shallow_key(e, flow):
    """Key of an expression with NO local looked through (locals by name), sums and products sorted: unchanged by edits upstream of the
    locals it mentions; changed by renaming or by introducing a `let` at the site."""
    r = _norm(e, flow, 0, False)
    if len(r) > 240:
        import hashlib
        return r[:100] + " ...#" + hashlib.sha1(r.encode()).hexdigest()[:12]
    return r


def norm_render(e, flow, depth=0):
    """Canonical key of an expression: invariant under `let` introduction / renaming of arithmetic locals (every arithmetic local is expanded,
    whatever its nesting) and under reordering of sums and products.  Long renderings are abbreviated to a prefix and a digest."""
    r = _norm(e, flow, depth)
    if depth == 0 and len(r) > 240:
        import hashlib
        return r[:100] + " ...#" + hashlib.sha1(r.encode()).hexdigest()[:12]
    return r


def _norm(e, flow, depth=0, expand=True):
    e = strip(e)
    k = e.get("k")
    if depth > 60:
        return "<deep>"
    if k == "path" and e["res"].get("k") == "local":
        b = flow.bind.get(e["res"]["h"]) if expand else None
        if b is not None and _expandable(b) and strip(b) is not e:
            return _norm(b, flow, depth + 1, expand)
        return e["res"].get("n") or "?"
    if k == "path":
        d = e["res"].get("d")
        return flow.F.S[d].split("::")[-1] if isinstance(d, int) else "def"
    if k == "bin" and e.get("op") in ("+", "-"):
        terms = []

        def collect(x, sign):
            x = strip(x)
            while x.get("k") == "mcall" and x.get("n") in ("clone", "into", "borrow") and not x.get("a"):
                x = strip(x["r"])
            if x.get("k") == "path" and x["res"].get("k") == "local":
                b = flow.bind.get(x["res"]["h"]) if expand else None
                if b is not None and _expandable(b) and strip(b).get("k") == "bin" and strip(b).get("op") in ("+", "-"):
                    return collect(b, sign)
            if x.get("k") == "bin" and x.get("op") in ("+", "-"):
                collect(x["a"][0], sign)
                collect(x["a"][1], sign if x["op"] == "+" else -sign)
            else:
                terms.append((sign, _norm(x, flow, depth + 1, expand)))
        collect(e, 1)
        terms.sort(key=lambda t: t[1])
        return "(" + " ".join(("+ " if sg > 0 else "- ") + t for sg, t in terms) + ")"
    if k == "bin" and e.get("op") == "*":
        fs = []

        def collect(x):
            x = strip(x)
            while x.get("k") == "mcall" and x.get("n") in ("clone", "into", "borrow") and not x.get("a"):
                x = strip(x["r"])
            if x.get("k") == "path" and x["res"].get("k") == "local":
                b = flow.bind.get(x["res"]["h"]) if expand else None
                if b is not None and _expandable(b) and strip(b).get("k") == "bin" and strip(b).get("op") == "*":
                    return collect(b)
            if x.get("k") == "bin" and x.get("op") == "*":
                collect(x["a"][0])
                collect(x["a"][1])
            else:
                fs.append(_norm(x, flow, depth + 1, expand))
        collect(e)
        return "(" + " * ".join(sorted(fs)) + ")"
    if k == "bin":
        return "(%s %s %s)" % (_norm(e["a"][0], flow, depth + 1, expand), e.get("op"), _norm(e["a"][1], flow, depth + 1, expand))
    if k == "field":
        return "%s.%s" % (_norm(e["e"], flow, depth + 1, expand), e["n"])
    if k == "lit":
        return str(e["lit"].get("v"))
    if k == "mcall":
        if e["n"] in ("clone", "into", "borrow") and not e.get("a"):
            return _norm(e["r"], flow, depth + 1, expand)
        args = [_norm(a, flow, depth + 1, expand) for a in e.get("a", [])]
        if e["n"] in ("max", "min"):
            return "%s(%s)" % (e["n"], ", ".join(sorted([_norm(e["r"], flow, depth + 1, expand)] + args)))
        return "%s.%s(%s)" % (_norm(e["r"], flow, depth + 1, expand), e["n"], ", ".join(args))
    if k == "call":
        c = e.get("c")
        nm = c["n"] if isinstance(c, dict) and "n" in c else "ctor"
        args = [_norm(a, flow, depth + 1, expand) for a in e.get("a", [])]
        if nm in ("max", "min"):
            args = sorted(args)
        return "%s(%s)" % (nm, ", ".join(args))
    if k == "un":
        return e.get("op", "") + _norm(e["e"], flow, depth + 1, expand)
    if k == "cast":
        return _norm(e["e"], flow, depth + 1, expand)
    if k == "block" and not e.get("s") and e.get("e"):
        return _norm(e["e"], flow, depth + 1, expand)
    return k or "?"


_PREC = {"*": 3, "/": 3, "%": 3, "+": 2, "-": 2}


def _par(e, flow, outer=None, right=False):
    s = render(e, flow)
    e = strip(e)
    if e.get("k") == "bin":
        if outer is None or _PREC.get(e.get("op"), 1) < _PREC.get(outer, 1) or (right and _PREC.get(e.get("op"), 1) == _PREC.get(outer, 1)):
            return "(%s)" % s
    return s


def same_expr(a, b, flow):
    def res(e):
        e = strip(e)
        hops = 0
        while e.get("k") == "path" and e["res"].get("k") == "local" and hops < 4:
            b_ = flow.bind.get(e["res"]["h"])
            if b_ is None:
                break
            b2 = strip(b_)
            # follow only pure aliases (clone / reference of another place)
            if b2.get("k") == "mcall" and b2["n"] in ("clone", "into") and not b2.get("a"):
                e = strip(b2["r"])
            elif b2.get("k") in ("path", "field"):
                e = b2
            else:
                break
            hops += 1
        return e
    ra, rb = render(res(a), flow), render(res(b), flow)
    return ra == rb or render(a, flow) == render(b, flow)


def validates(cond, pol, div, flow, depth=0):
    """Does the condition `cond` holding with polarity `pol` establish that `div` is a valid (non-zero, finite) divisor?"""
    c = strip(cond)
    k = c.get("k")
    if depth > 8:
        return False
    if k == "path" and c["res"].get("k") == "local":
        b = flow.bind.get(c["res"]["h"])
        return b is not None and validates(b, pol, div, flow, depth + 1)
    if k == "mcall" and c["n"] in ("clone",) and not c.get("a"):
        return validates(c["r"], pol, div, flow, depth + 1)
    if k == "mcall" and c["n"] in ("is_true",):
        return validates(c["r"], pol, div, flow, depth + 1)
    if k == "mcall" and c["n"] in ("is_false",):
        return validates(c["r"], not pol, div, flow, depth + 1)
    if k == "un" and c.get("op") == "!":
        return validates(c["e"], not pol, div, flow, depth + 1)
    if k == "mcall" and c["n"] == "not" and not c.get("a"):
        return validates(c["r"], not pol, div, flow, depth + 1)
    if k == "mcall" and c["n"] in ("is_valid_divisor", "is_normal"):
        return pol and same_expr(c["r"], div, flow)
    if k == "bin" and c.get("op") in (">", ">=", "<", "<="):
        # |X| > positive constant
        x, y = c["a"]
        if c["op"] in ("<", "<="):
            x, y = y, x
        xs = strip(x)
        inner = xs["r"] if xs.get("k") == "mcall" and xs["n"] == "abs" else (xs["a"][0] if xs.get("k") == "call" and isinstance(xs.get("c"), dict) and xs["c"].get("n") == "abs" and xs.get("a") else None)
        cv = const_value(y, flow)
        if inner is not None and cv is not None and cv > 0:
            return pol and same_expr(inner, div, flow)
    if k == "call" and isinstance(c.get("c"), dict) and c["c"].get("n") == "is_valid_divisor" and c.get("a"):
        return pol and same_expr(c["a"][0], div, flow)
    if k == "bin" and c.get("op") in ("&&", "&"):
        return pol and any(validates(x, True, div, flow, depth + 1) for x in c["a"])
    if k == "bin" and c.get("op") in ("||", "|"):
        return (not pol) and any(validates(x, False, div, flow, depth + 1) for x in c["a"])
    if k == "bin" and c.get("op") in ("==", "!="):
        x, y = c["a"]
        zero = lambda z: render(z, flow) in ("0", "0.0", "zero()", "from_f64(0.0)", "from_f64(0)")
        hit = (zero(y) and same_expr(x, div, flow)) or (zero(x) and same_expr(y, div, flow))
        return hit and (pol == (c["op"] == "!="))
    if k == "mcall" and c["n"] in ("eq", "neq") and len(c.get("a", [])) == 1:
        zero = render(c["a"][0], flow) in ("zero()", "from_f64(0.0)")
        return zero and same_expr(c["r"], div, flow) and (pol == (c["n"] == "neq"))
    return False


def dominating_conditions(body, parents, node):
    """[(condition expr, polarity)] known at `node`: enclosing if-branches, lazy_select closure arms, earlier `if c { return }` statements."""
    out = []
    chain = list(parents) + [node]
    for i, p in enumerate(chain[:-1]):
        nxt = chain[i + 1]
        k = p.get("k")
        if k == "if" and isinstance(p.get("c"), dict) and "k" in p["c"]:
            if nxt is p.get("th"):
                out.append((p["c"], True))
            elif nxt is p.get("el"):
                out.append((p["c"], False))
        if k == "mcall" and p.get("n") == "lazy_select" and len(p.get("a", [])) == 2:
            if nxt is p["a"][0]:
                out.append((p["r"], True))
            elif nxt is p["a"][1]:
                out.append((p["r"], False))
        if k == "call" and isinstance(p.get("c"), dict) and p["c"].get("n") == "lazy_select" and len(p.get("a", [])) == 3:
            # lazy_select!: LazySelect::lazy_select(pred, || then, || else)
            if nxt is p["a"][1]:
                out.append((p["a"][0], True))
            elif nxt is p["a"][2]:
                out.append((p["a"][0], False))
        if k == "block":
            for s in p.get("s", []):
                inner = s.get("e") if s.get("k") in ("semi", "expr") else (s if s.get("k") == "if" else None)
                if s is nxt or inner is nxt:
                    break
                cand = inner if isinstance(inner, dict) else None
                if cand is not None and cand.get("k") == "if" and "el" not in cand and _always_returns(cand.get("th")):
                    out.append((cand["c"], False))
    return out


def _always_returns(b):
    b = strip(b) if isinstance(b, dict) else None
    if not b:
        return False
    if b.get("k") == "ret":
        return True
    if b.get("k") == "block":
        last = b.get("e") or (b["s"][-1] if b.get("s") else None)
        if isinstance(last, dict):
            if last.get("k") in ("semi", "expr"):
                last = last.get("e")
            return _always_returns(last)
    return False


# ------------------------------------------------------------------------------------------------ structural positivity
def _same(a, b, flow):
    return norm_render(a, flow) == norm_render(b, flow)


def nonneg(e, flow, depth=0):
    """e >= 0 for every real (finite) value of its free variables, by shape alone.  Returns a derivation string or None."""
    e = strip(e)
    k = e.get("k")
    if depth > 10:
        return None
    cv = const_value(e, flow)
    if cv is not None:
        return "%g >= 0" % cv if cv >= 0 else None
    if k == "path" and e["res"].get("k") == "local":
        b = flow.bind.get(e["res"]["h"])
        if b is not None and _expandable(b):
            return nonneg(b, flow, depth + 1)
        if b is not None and strip(b).get("k") in ("mcall", "call"):
            return nonneg(b, flow, depth + 1)
        return None
    if k == "bin" and e.get("op") == "*":
        x, y = e["a"]
        if _same(x, y, flow):
            return "square of %s" % render(x, flow)[:30]
        fs = _factors(e)
        if len(fs) > 2:
            cnt = {}
            for f in fs:
                r = norm_render(f, flow)
                cnt[r] = cnt.get(r, 0) + 1
            if all(v % 2 == 0 for v in cnt.values()):
                return "product of even powers"
        nx, ny = nonneg(x, flow, depth + 1), nonneg(y, flow, depth + 1)
        return "product of non-negatives (%s; %s)" % (nx, ny) if nx and ny else None
    if k == "bin" and e.get("op") == "+":
        nx, ny = nonneg(e["a"][0], flow, depth + 1), nonneg(e["a"][1], flow, depth + 1)
        return "sum of non-negatives" if nx and ny else None
    if k == "bin" and e.get("op") == "/":
        nx, py = nonneg(e["a"][0], flow, depth + 1), positive(e["a"][1], flow, depth + 1)
        return "non-negative / positive" if nx and py else None
    if k == "mcall":
        n = e["n"]
        if n in ("clone", "into") and not e.get("a"):
            return nonneg(e["r"], flow, depth + 1)
        if n in ("abs", "sqrt"):
            return "%s(..) >= 0" % n
        if n == "powi" and e.get("a"):
            ev = const_value(e["a"][0], flow)
            if ev is not None and int(ev) == ev and int(ev) % 2 == 0:
                return "even power"
            if ev is not None and nonneg(e["r"], flow, depth + 1):
                return "power of a non-negative"
        if n in ("max",) and e.get("a"):
            if nonneg(e["r"], flow, depth + 1) or nonneg(e["a"][0], flow, depth + 1):
                return "max with a non-negative"
        if n in ("min",) and e.get("a"):
            if nonneg(e["r"], flow, depth + 1) and nonneg(e["a"][0], flow, depth + 1):
                return "min of non-negatives"
        if n == "powf":
            # x^p with x >= 0 is >= 0 (NaN for negative bases is outside this rule: the base must be shown non-negative)
            if nonneg(e["r"], flow, depth + 1):
                return "real power of a non-negative"
    if k == "call" and isinstance(e.get("c"), dict):
        n = e["c"].get("n")
        if n in ("abs", "sqrt") and e.get("a"):
            return "%s(..) >= 0" % n
        if n in ("from_f64", "from_scalar") and e.get("a"):
            return nonneg(e["a"][0], flow, depth + 1)
        if n == "max" and len(e.get("a", [])) == 2 and (nonneg(e["a"][0], flow, depth + 1) or nonneg(e["a"][1], flow, depth + 1)):
            return "max with a non-negative"
    return None


def _factors(e):
    e = strip(e)
    if e.get("k") == "bin" and e.get("op") == "*":
        return _factors(e["a"][0]) + _factors(e["a"][1])
    if e.get("k") == "mcall" and e.get("n") == "clone" and not e.get("a"):
        return _factors(e["r"])
    return [e]


def positive(e, flow, depth=0):
    """e > 0 by shape alone: a positive constant plus non-negative terms, products / roots of positives."""
    e = strip(e)
    k = e.get("k")
    if depth > 10:
        return None
    cv = const_value(e, flow)
    if cv is not None:
        return "%g > 0" % cv if cv > 0 else None
    if k == "path" and e["res"].get("k") == "local":
        b = flow.bind.get(e["res"]["h"])
        if b is not None and (_expandable(b) or strip(b).get("k") in ("mcall", "call")):
            return positive(b, flow, depth + 1)
        return None
    if k == "bin" and e.get("op") == "+":
        x, y = e["a"]
        px, py = positive(x, flow, depth + 1), positive(y, flow, depth + 1)
        nx, ny = nonneg(x, flow, depth + 1), nonneg(y, flow, depth + 1)
        if (px and ny) or (py and nx):
            return "positive + non-negative (%s)" % (px or py)
        return None
    if k == "bin" and e.get("op") == "*":
        px, py = positive(e["a"][0], flow, depth + 1), positive(e["a"][1], flow, depth + 1)
        return "product of positives" if px and py else None
    if k == "bin" and e.get("op") == "/":
        px, py = positive(e["a"][0], flow, depth + 1), positive(e["a"][1], flow, depth + 1)
        return "quotient of positives" if px and py else None
    if k == "mcall":
        n = e["n"]
        if n in ("clone", "into") and not e.get("a"):
            return positive(e["r"], flow, depth + 1)
        if n in ("sqrt", "cbrt") and positive(e["r"], flow, depth + 1):
            return "root of a positive"
        if n == "max" and e.get("a") and (positive(e["r"], flow, depth + 1) or positive(e["a"][0], flow, depth + 1)):
            return "max with a positive"
    if k == "call" and isinstance(e.get("c"), dict):
        n = e["c"].get("n")
        if n in ("sqrt", "cbrt") and e.get("a") and positive(e["a"][0], flow, depth + 1):
            return "root of a positive"
        if n in ("from_f64", "from_scalar") and e.get("a"):
            return positive(e["a"][0], flow, depth + 1)
        if n == "one" and not e.get("a"):
            return "one() > 0"
    return None


def fn_key(b):
    p = b["path"]
    m = re.match(r"^<(.*) as (?:[\w:]+::)?(FromColorUnclamped<.*>)>::from_color_unclamped$", p)
    if m:
        return "<%s as %s>" % (m.group(1), m.group(2))
    return p


# files whose divisions are not conversions / operators on colours, each with its reason (everything else under palette/src is scanned: a
# division added in *any* other file is audited -- the list above is kept for the floors only)
NOT_SCANNED = {
    "palette/src/named/codegen.rs": "generated constant table",
    "palette/src/encoding/lut/codegen.rs": "generated lookup tables",
}


def sites(F):
    for b in F.bodies:
        if b["file"] in NOT_SCANNED or not b["file"].startswith("palette/src/"):
            continue
        if "::test" in b["path"] or "::tests::" in b["path"] or b["path"].endswith("::test"):
            continue
        im = b.get("_impl")
        if im is not None and str(im.get("trait") or "").startswith(("std::ops::Div", "std::ops::Rem", "core::ops::Div", "core::ops::Rem")):
            continue  # `colour / x`: the quotient the caller asked for; dividing by a zero component is not a conversion defect
        if im is not None and str(im.get("trait") or "").endswith("num::Recip"):
            continue  # the definition of `recip` itself (1 / self), like Div: its call sites are the audited divisions
        flow = mkflow(F, b)
        for n, parents in facts.walk(b["body"]):
            div = None
            if n.get("k") == "bin" and n.get("op") in ("/", "%"):
                div, kind = n["a"][1], n["op"]
            elif n.get("k") == "assignop" and str(n.get("op")).rstrip("=") in ("/", "%"):
                div, kind = n["a"][1], n["op"]
            elif n.get("k") == "mcall" and n["n"] == "recip" and not n.get("a"):
                div, kind = n["r"], "recip"
            if div is None:
                continue
            yield b, flow, n, parents, div, kind


def run(F, rep, tier="quick", extra=None, only=None):
    rep.trusted += ["rustc name resolution / type check", "the reviewed reasons of the TABLE in rules/c07.py (one line per unguarded divisor)",
                    "IsValidDivisor = is_normal (C17 checks the SIMD impls agree)"]
    n_const = n_guard = n_table = n_open = n_pos = 0
    used = set()
    seen_guard = set()
    for b, flow, n, parents, div, kind in sites(F):
        loc = F.loc(b, n)
        if is_const(div, flow):
            n_const += 1
            continue
        conds = dominating_conditions(b, parents, n)
        if any(validates(c, pol, div, flow) for c, pol in conds):
            n_guard += 1
            gk = "%s: %s" % (fn_key(b), render(div, flow)[:60])
            if gk not in seen_guard:
                seen_guard.add(gk)
                rep.ob("DIV-GUARD", gk, True, "dominated by a validity test of the same divisor", loc)
            continue
        why = positive(div, flow)
        if why:
            n_pos += 1
            pk = "%s: %s" % (fn_key(b), render(div, flow)[:60])
            if pk not in seen_guard:
                seen_guard.add(pk)
                rep.ob("DIV-POS", pk, True, "divisor is positive by its shape: " + why, loc)
            continue
        key = fn_key(b)
        r = render(div, flow)
        nr = norm_render(div, flow)
        sk = shallow_key(div, flow)
        # a reviewed site is recognised by its canonical key (all lets expanded: survives renaming and let-introduction at the site) or, failing
        # that, by its shallow key (locals by name: survives value-preserving edits upstream of the locals it mentions)
        hit = None
        for (fk, dk) in TABLE:
            if (key == fk or key.endswith(fk) or fk in key) and dk == nr:
                hit = (fk, dk)
                break
        if hit is None:
            for (fk, dk) in TABLE:
                if (key == fk or key.endswith(fk) or fk in key) and sk in TABLE[(fk, dk)][1]:
                    hit = (fk, dk)
                    break
        if hit:
            if hit not in used:
                rep.ob("DIV-TABLE", "%s: %s" % (hit[0], hit[1][:70]), True, "reviewed: " + TABLE[hit][0], loc)
            used.add(hit)
            n_table += 1
            continue
        n_open += 1
        rep.fail("DIV", "%s: %s %s" % (key, kind, r),
                 "division by `%s` is neither by a non-zero constant, nor dominated by an is_valid_divisor()/!= 0 test of that divisor, nor in the reviewed table: "
                 "a valid colour on a degenerate boundary can make it zero (NaN / infinity)" % r, loc)
    stale = [k for k in TABLE if k not in used]
    for fk, dk in stale:
        rep.fail("DIV-TABLE", "%s: %s" % (fk, dk), "reviewed table entry matches no division site any more (the code changed: re-review)")
    rep.ob("DIV", "division sites", True, "%d constant, %d guarded by is_valid_divisor / != 0 on the same divisor, %d positive by shape, %d justified in the reviewed table" % (n_const, n_guard, n_pos, n_table))
    rep.floor("division sites in the anchored files", n_const + n_guard + n_table + n_open + n_pos, 192)
    rep.floor("guarded division sites", n_guard, 43)
    check_domains(F, rep)
    check_sentinels(F, rep)
    check_panics(F, rep)
    return {"level": "other", "explanation": EXPLANATION}


# ------------------------------------------------------------------------------------ DOM: arguments of partial real functions
# function -> (what its argument must satisfy, prover)
DOMAIN = {"sqrt": (">= 0", "nonneg"), "ln": ("> 0", "positive"), "log": ("> 0", "positive"), "log2": ("> 0", "positive"), "log10": ("> 0", "positive"),
          "powf": ("base >= 0", "nonneg"), "acos": ("in [-1, 1]", None), "asin": ("in [-1, 1]", None)}

# (function key suffix, callee, normalised argument) -> why the argument is inside the domain on the property's inputs
DOM_TABLE = {
    ("<cam16::ucs_jab::Cam16UcsJab<T> as color_difference::ImprovedDeltaE>::improved_delta_e", "powf", "self.distance_squared(other)"):
        ("a squared Euclidean distance: sum of squares, >= 0", ["self.distance_squared(other)"]),
    ("<cam16::ucs_jmh::Cam16UcsJmh<T> as FromColorUnclamped<cam16::partial::cam16_jmh::Cam16Jmh<T>>>", "ln", "(+ (from_f64(0.0228) * val.colorfulness) + one())"):
        ("1 + 0.0228 M with colourfulness M >= 0: >= 1", ["(+ (from_f64(0.0228) * val.colorfulness) + one())"]),
    ("blend::blend::soft_light_blend", "sqrt", "dst"):
        ("backdrop component: the property's blend inputs are in [0, 1]; the arm is selected only for 4*dst > 1 (lazy_select!)",
         ["dst"]),
    ("cam16::math::xyz_to_cam16", "powf", "(((+ (b_a * from_f64(0.05)) + (from_f64(2.0) * r_a) + g_a) * from_scalar(parameters.n_bb)) / from_scalar(parameters.a_w))"):
        ("A / A_w: the achromatic response of a colour with non-negative cone responses over that of the white; negative only for imaginary colours (negative adapted cone signals), where CAM16 is undefined",
         ["(capital_a / from_scalar(parameters.a_w))"]),
    ("cam16::math::xyz_to_cam16", "powf", "(((+ (((- (b_a * from_f64(2.0)) + g_a + r_a) / from_f64(9.0)) * ((- (b_a * from_f64(2.0)) + g_a + r_ ...#4193b00d5726"):
        ("t: sqrt(..) >= 0, e_t = (cos + 3.8)/4 > 0, N_c, N_cb > 0, denominator = sum of the adapted signals + 0.305 > 0 for real colours",
         ["t"]),
    ("cam16::math::xyz_to_cam16", "powf", "(- from_f64(0.29).powf(from_scalar(parameters.n)) + from_f64(1.64))"):
        ("1.64 - 0.29^n with n = Y_b / Y_w > 0: 0.29^n in (0, 1), so the base is in (0.64, 1.64)",
         ["(- from_f64(0.29).powf(from_scalar(parameters.n)) + from_f64(1.64))"]),
    ("cam16::math::calculate_saturation", "sqrt", "((alpha * param_c) / (+ from_f64(4.0) + param_a_w))"):
        ("c * alpha / (A_w + 4): c in [0.525, 0.69], A_w > 0, alpha = t^0.9 * (..)^0.73 >= 0 (product of real powers of non-negatives)",
         ["((alpha * param_c) / (+ from_f64(4.0) + param_a_w))"]),
    ("cam16::math::non_black_cam16_to_xyz", "powf", "((- from_f64(0.29).powf(from_scalar(parameters.n)) + from_f64(1.64)).powf(from_f64(-0.73)) * alpha)"):
        ("alpha >= 0 (from chroma / colourfulness / saturation >= 0 over sqrt(J) > 0, black excluded by the caller) times a positive power",
         ["((- from_f64(0.29).powf(from_scalar(parameters.n)) + from_f64(1.64)).powf(from_f64(-0.73)) * alpha)"]),
    ("cam16::math::non_black_cam16_to_xyz", "powf", "(- from_f64(0.29).powf(from_scalar(parameters.n)) + from_f64(1.64))"):
        ("1.64 - 0.29^n with n > 0: base in (0.64, 1.64)",
         ["(- from_f64(0.29).powf(from_scalar(parameters.n)) + from_f64(1.64))"]),
    ("cam16::math::non_black_cam16_to_xyz", "powf", "j_root"):
        ("J_root = sqrt(J)/10 or derived from Q >= 0: a square root or a quotient of non-negatives; black (J = 0) excluded by the caller",
         ["j_root"]),
    ("cam16::math::prepare_parameters", "powf", "(from_f64(5.0) * parameters.adapting_luminance)"):
        ("5 L_A: the adapting luminance is a physical luminance (cd/m^2), non-negative",
         ["(from_f64(5.0) * l_a)"]),
    ("cam16::math::prepare_parameters", "powf", "f_l"):
        ("F_L = k^4 L_A + 0.1 (1 - k^4)^2 (5 L_A)^(1/3): non-negative terms for L_A >= 0",
         ["f_l"]),
    ("cam16::math::prepare_parameters", "sqrt", "((from_f64(100.0) * parameters.background_luminance) / (from_f64(100.0) * parameters.white_point).y)"):
        ("n = Y_b / Y_w: background and white luminance factors, positive",
         ["n"]),
    ("cam16::math::prepare_parameters", "powf", "((from_f64(100.0) * parameters.background_luminance) / (from_f64(100.0) * parameters.white_point).y)"):
        ("n = Y_b / Y_w > 0",
         ["n"]),
    ("cam16::math::lightness_to_j_root", "sqrt", "lightness"):
        ("CAM16 lightness J >= 0 on the property's inputs (documented range 0..100)",
         ["lightness"]),
    ("cam16::math::Adapt::<T>::run", "powf", "(component.abs() * from_f64(0.01) * from_scalar(self.f_l))"):
        ("F_L * |component| / 100 with F_L >= 0 (see prepare_parameters) and an absolute value",
         ["(component.abs() * from_f64(0.01) * from_scalar(self.f_l))"]),
    ("cam16::math::Unadapt::<T>::run", "powf", "(component.abs() / (- component.abs() + from_f64(400.0)))"):
        ("|c| / (400 - |c|): the adapted response is bounded by 400 (the forward model's 400 x/(x + 27.13) < 400), so the quotient is >= 0 for every value the forward model produces; |c| >= 400 is outside CAM16's range",
         ["(c_abs / (- c_abs + from_f64(400.0)))"]),
    ("<C as color_difference::ImprovedCiede2000>::improved_difference", "powf", "self.difference(other)"):
        ("a CIEDE2000 difference: the square root of a positive semi-definite form (see get_ciede2000_difference), >= 0",
         ["self.difference(other)"]),
    ("color_difference::get_ciede2000_difference", "sqrt", "(((+ other.chroma + this.chroma) / from_f64(2.0)).powi(7) / (+ ((+ other.chroma + this.chroma) / from_f64(2.0)).powi(7) + from_f64(6103515625.0)))"):
        ("C-bar^7 / (C-bar^7 + 25^7) with C-bar = mean of two chromas >= 0",
         ["(c_bar_pow_seven / (+ c_bar_pow_seven + twenty_five_pow_seven))"]),
    ("color_difference::get_ciede2000_difference", "sqrt", "(+ (((((+ ((+ ((- (((+ other.chroma + this.chroma) / from_f64(2.0)).powi(7) / (+ ((+ other.chroma +  ...#409c183c8522"):
        ("x^2 + y^2 + z^2 + R_T y z with |R_T| = |sin(2 dTheta)| R_C <= sin(60 deg) * 2 < 1.74 < 2 (dTheta <= 30 deg, R_C < 2): positive semi-definite with margin (1 - |R_T|/2) >= 0.13, far above rounding",
         ["(+ ((delta_big_h_prime * delta_c_prime * r_t) / (k_c * k_h * s_c * s_h)) + ((delta_big_h_prime / (k_ ...#9a094d2df28e"]),
    ("color_difference::EuclideanDistance::distance", "sqrt", "self.distance_squared(other)"):
        ("distance_squared is a sum of squares in every impl (C09 ALG-REF euclid:* checks the closed form)",
         ["self.distance_squared(other)"]),
    ("<lab::Lab<Wp, T> as color_difference::ImprovedDeltaE>::improved_delta_e", "powf", "self.distance_squared(other)"):
        ("distance_squared is a sum of squares (C09 ALG-REF)",
         ["self.distance_squared(other)"]),
    ("<luv::Luv<Wp, T> as FromColorUnclamped<xyz::Xyz<Wp, T>>>", "powf", "(color.y / w.y)"):
        ("inside `if y_r > epsilon` (epsilon = (6/29)^3 > 0)",
         ["y_r"]),
    ("ok_utils::ChromaValues::<T>::from_normalized", "sqrt", "(one() / (+ (one() / ((- lightness + one()) * (- lightness + one()) * (- lightness + one()) * (- lig ...#60066c7c3a38"):
        ("1 / (1/c_a^4 + 1/c_b^4): even powers, the sum of reciprocals is positive (or +inf at lightness 0 / 1, giving 0)",
         ["(one() / (+ (one() / (c_a * c_a * c_a * c_a)) + (one() / (c_b * c_b * c_b * c_b))))"]),
    ("ok_utils::ChromaValues::<T>::from_normalized", "sqrt", "(one() / (+ (one() / ((- lightness + one()) * (- lightness + one()) * from_f64(0.8) * from_f64(0.8))) + (one() / (from_f64(0.4) * from_f64(0.4) * lightness * lightness))))"):
        ("1 / (1/c_a^2 + 1/c_b^2): squares, positive",
         ["(one() / (+ (one() / (c_a * c_a)) + (one() / (c_b * c_b))))"]),
    ("ok_utils::toe", "sqrt", "(+ (((+ from_f64(0.206) + one()) / (+ from_f64(0.03) + one())) * from_f64(0.03) * from_f64(4.0) * oklab_lightness) + (+ (((+ from_f64(0.206) + one()) / (+ from_f64(0.03) + one())) * oklab_lightness) - from_f64(0.206)).powi(2))"):
        ("(k3 L - k1)^2 + 4 k2 k3 L with k2, k3 > 0 and Oklab lightness L >= 0 on the property's inputs (for L < 0 the radicand stays positive down to L ~ -0.0126: discriminant of the quadratic)",
         ["(+ (+ (k_3 * oklab_lightness) - k_1).powi(2) + (from_f64(4.0) * k_2 * k_3 * oklab_lightness))"]),
}


# DOM is closed-world too: every file is scanned except the categories below (each with its reason)
# (encoding/adobe.rs, p3.rs and gamma.rs were excluded here at first with the reason "the component is non-negative on the nominal range".
#  That is wrong: the *linear* component of an in-range colour of another space is negative as soon as the colour is outside the target gamut,
#  and `x.powf(g)` is NaN there -- F15, listed in known_findings.json.  They are scanned.)
DOM_NOT_SCANNED = {
    "palette/src/macros/random.rs": "arguments are rand variates >= 0 (ranges decided by C19's STD / VOL rules)",
    "palette/src/random_sampling/cone.rs": "arguments are rand variates >= 0 (C19 VOL)",
    "palette/src/encoding/prophoto.rs": "power arm selected above the knee only (lazy_select!): argument > 0 (arms decided by C05)",
    "palette/src/encoding/rec_standards.rs": "power arm selected above the knee only: argument > 0 (C05)",
    "palette/src/encoding/srgb.rs": "power arm selected above the knee only: argument > 0 (C05)",
}


def dom_sites(F):
    for b in F.bodies:
        if b["file"] in NOT_SCANNED or b["file"] in DOM_NOT_SCANNED or not b["file"].startswith("palette/src/"):
            continue
        if b["path"].startswith("num::wide::<impl num::"):
            continue  # the operator table of the SIMD types (`impl Sqrt for f32x4 { .. }`), like the f32/f64 one below
        if "::test" in b["path"] or "::tests::" in b["path"] or b["path"].endswith("::test"):
            continue
        if re.match(r"^<(f32|f64) as num::", b["path"]):
            continue  # the operator table itself: `impl Sqrt for f32 { fn sqrt(self) { self.sqrt() } }`
        flow = mkflow(F, b)
        for n, parents in facts.walk(b["body"]):
            arg = name = None
            if n.get("k") == "mcall" and n["n"] in DOMAIN:
                arg, name = n["r"], n["n"]
            elif n.get("k") == "call" and isinstance(n.get("c"), dict) and n["c"].get("n") in DOMAIN and n.get("a") and "k" not in n["c"]:
                arg, name = n["a"][0], n["c"]["n"]
            if arg is not None:
                yield b, flow, n, parents, arg, name


def check_domains(F, rep):
    """DOM: sqrt / ln / powf / acos / asin are partial over the reals: a negative radicand or base is NaN.  Every call site in the anchored files
    has an argument that is a constant inside the domain, non-negative / positive by its shape, or listed in the reviewed table."""
    n_const = n_shape = n_table = n_open = 0
    used = set()
    seen = set()
    for b, flow, n, parents, arg, name in dom_sites(F):
        loc = F.loc(b, n)
        what, prover = DOMAIN[name]
        cv = const_value(arg, flow)
        if cv is not None:
            ok = cv >= 0 if prover == "nonneg" else cv > 0 if prover == "positive" else -1 <= cv <= 1
            if ok:
                n_const += 1
                continue
        why = nonneg(arg, flow) if prover == "nonneg" else positive(arg, flow) if prover == "positive" else None
        key = fn_key(b)
        if why:
            n_shape += 1
            sk = "%s: %s(%s)" % (key, name, render(arg, flow)[:60])
            if sk not in seen:
                seen.add(sk)
                rep.ob("DOM-SHAPE", sk, True, "argument %s by its shape: %s" % (what, why), loc)
            continue
        nr = norm_render(arg, flow)
        sk = shallow_key(arg, flow)
        hit = None
        for (fk, fn, dk) in DOM_TABLE:
            if fn == name and (key == fk or key.endswith(fk) or fk in key) and dk == nr:
                hit = (fk, fn, dk)
                break
        if hit is None:
            for (fk, fn, dk) in DOM_TABLE:
                if fn == name and (key == fk or key.endswith(fk) or fk in key) and sk in DOM_TABLE[(fk, fn, dk)][1]:
                    hit = (fk, fn, dk)
                    break
        if hit:
            if hit not in used:
                rep.ob("DOM-TABLE", "%s: %s(%s)" % (hit[0], name, hit[2][:70]), True, "reviewed: " + DOM_TABLE[hit][0], loc)
            used.add(hit)
            n_table += 1
            continue
        n_open += 1
        rep.fail("DOM", "%s: %s(%s)" % (key, name, nr),
                 "the argument of %s must be %s; `%s` is neither a constant in the domain, nor of a shape that guarantees it (sum of squares, abs, "
                 "max with 0, ...), nor in the reviewed table: rounding or a degenerate input can push it outside (NaN)" % (name, what, render(arg, flow)), loc)
    for hit in DOM_TABLE:
        if hit not in used:
            rep.fail("DOM-TABLE", "%s: %s(%s)" % hit, "reviewed table entry matches no call site any more (the code changed: re-review)")
    rep.ob("DOM", "partial-function call sites", True, "%d constant, %d inside the domain by shape, %d justified in the reviewed table" % (n_const, n_shape, n_table))
    rep.floor("sqrt/ln/powf/acos/asin call sites", n_const + n_shape + n_table + n_open, 42)


def _sentinel_scan(body):
    """[(local, sentinel constant, tested after the loop?)] for every min-search local of `body` that is lowered only conditionally inside a
    loop and reaches the tail expression"""
    sent = {}
    for n, parents in facts.walk(body):
        if n.get("k") == "let" and isinstance(n.get("pat"), dict) and n["pat"].get("k") == "bind" and n["pat"].get("mut") and isinstance(n.get("init"), dict):
            r = n["init"].get("res") if n["init"].get("k") == "path" else None
            if isinstance(r, dict) and isinstance(r.get("c"), dict) and r["c"].get("n") in ("MAX", "INFINITY", "MIN", "NEG_INFINITY") \
                    and str(r["c"].get("v", "")).startswith(("f64:", "f32:")):
                sent[n["pat"]["n"]] = r["c"]["n"]
    out = []
    for name, const in sent.items():
        assigned_in_loop = reaches_result = tested = False
        for n, parents in facts.walk(body):
            is_x = lambda e: isinstance(e, dict) and e.get("k") == "path" and isinstance(e.get("res"), dict) and e["res"].get("k") == "local" and e["res"].get("n") == name
            if n.get("k") == "assign" and is_x(n["a"][0]) and any(p_.get("k") == "loop" for p_ in parents) and any(p_.get("k") == "if" for p_ in parents):
                assigned_in_loop = True
            if n.get("k") == "bin" and n.get("op") in ("==", "!=", ">=", "<") and not any(p_.get("k") == "loop" for p_ in parents):
                sides = n["a"]

                def is_const(e):
                    r_ = e.get("res") if isinstance(e, dict) and e.get("k") == "path" else None
                    return isinstance(r_, dict) and isinstance(r_.get("c"), dict) and r_["c"].get("n") == const
                if (is_x(sides[0]) and is_const(sides[1])) or (is_x(sides[1]) and is_const(sides[0])):
                    tested = True
            if n.get("k") == "mcall" and n.get("n") in ("is_finite", "is_infinite") and is_x(n.get("r")) and not any(p_.get("k") == "loop" for p_ in parents):
                tested = True
        tail = body.get("e")
        if isinstance(tail, dict):
            reaches_result = any(x.get("k") == "path" and isinstance(x.get("res"), dict) and x["res"].get("n") == name for x, _q in facts.walk(tail))
        if assigned_in_loop and reaches_result:
            out.append((name, const, tested))
    return out


def check_sentinels(F, rep):
    """SENTINEL: a search that starts from a huge sentinel (`let mut m = f64::MAX`, `INFINITY`) and only lowers it under a condition inside a
    loop returns the sentinel itself when no candidate qualifies -- a finite input then yields 1.8e308 (infinity as f32, NaN after a
    multiplication by 0).  Every such local that reaches the function's result must be tested against the sentinel (or for finiteness)
    after the loop.  Functions nobody calls are not concerned.  (This is how black HSLuv at hue 0 produced NaN: F14.)"""
    called = set()
    for b in F.bodies:
        for n, _p in facts.walk(b["body"]):
            c = n.get("c")
            if isinstance(c, dict) and "d" in c:
                called.add(F.S[c["d"]].split("<")[0])
    n_s = 0
    for b in F.bodies:
        if not b["file"].startswith("palette/src/") or "::test" in b["path"] or b["dk"] not in ("Fn", "AssocFn"):
            continue
        found = _sentinel_scan(b["body"])
        if not found:
            continue
        base = re.sub(r"::<[^>]*>", "", b["path"]).split("<")[0]
        if not any(c_ == base or c_.endswith("::" + b["name"]) for c_ in called):
            continue   # dead code
        for name, const, tested in found:
            n_s += 1
            rep.ob("SENTINEL", "%s: %s" % (fn_key(b), name), tested,
                   "`%s` starts at %s, is lowered only under a condition inside a loop and reaches the result %s" % (name, const, "after a test against the sentinel" if tested else "WITHOUT a not-found test"), F.loc(b))
    # no floor: a rewrite of the search with Option<f64> has no sentinel at all, and that is fine.  Instead the matcher is exercised on a
    # synthetic body of the same shape on every run (positive control): it must see one escaping sentinel there.
    P = lambda n_: {"k": "path", "res": {"k": "local", "n": n_}}
    C = {"k": "path", "res": {"k": "def", "c": {"n": "MAX", "v": "f64:1.7976931348623157e308"}}}
    ctl = {"k": "block", "s": [
        {"k": "let", "pat": {"k": "bind", "n": "best", "mut": True}, "init": C},
        {"k": "expr", "e": {"k": "loop", "b": {"k": "block", "s": [{"k": "expr", "e": {"k": "if", "c": {"k": "bin", "op": ">", "a": [P("best"), P("t")]},
                                                                     "th": {"k": "block", "s": [{"k": "semi", "e": {"k": "assign", "a": [P("best"), P("t")]}}]}}}]}}}],
        "e": P("best")}
    got = _sentinel_scan(ctl)
    rep.ob("SENTINEL", "matcher control", got == [("best", "MAX", False)], "synthetic min-search without a not-found test: matcher reports %s" % got)


def check_panics(F, rep):
    CONV_NAMES = {"from_color_unclamped", "into_color_unclamped", "clamp", "clamp_assign", "is_within_bounds", "mix", "mix_assign", "lighten", "darken",
                  "saturate", "desaturate", "shift_hue", "with_hue", "blend", "multiply", "screen", "overlay", "dodge", "burn", "difference", "improved_difference",
                  "relative_contrast", "distance_squared", "hybrid_distance", "delta_e", "premultiply", "unpremultiply", "over", "inside", "outside", "atop", "xor", "plus"}
    bad = []
    n = 0
    for b in F.bodies:
        if b["file"] not in ANCHORED or b.get("name") not in CONV_NAMES:
            continue
        if "::test" in b["path"]:
            continue
        n += 1
        for nd, _p in facts.walk(b["body"]):
            nm = None
            if nd.get("k") == "mcall" and nd["n"] in ("unwrap", "expect", "unwrap_unchecked"):
                nm = nd["n"]
            c = nd.get("c")
            if isinstance(c, dict) and "d" in c:
                d = F.S[c["d"]]
                if d.endswith(("panicking::panic", "panicking::panic_fmt", "panicking::unreachable_display", "panic_explicit", "begin_panic")) or d.endswith("::unreachable"):
                    nm = d.split("::")[-1]
            if nd.get("k") == "index":
                nm = "indexing"
            if nm:
                bad.append((b["path"], nm, F.loc(b, nd)))
    for path, nm, loc in bad:
        rep.fail("PANIC", "%s: %s" % (path[-90:], nm), "a conversion/operator body can panic (`%s`)" % nm, loc)
    rep.ob("PANIC", "conversion / operator / blend / difference bodies", not bad, "%d bodies free of unwrap, expect, panic!, unreachable!, indexing" % n)
    rep.floor("bodies scanned for panics", n, 584)
