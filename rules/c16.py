"""C16 — CAM16: forward model = published equations, inverse model undoes it step by step, attribute pairs invert,
partial types agree with the full colour, UCS forms invert."""
from fractions import Fraction as Fr

from . import alg, sym, poly, facts
from .common import Session, check_value, check_ref, staged_check, impl_methods, apps_of, atoms_of
from .sym import Struct, Tuple, Array, Ite, Opaque
from .poly import RatFunc

EXPLANATION = (
    "Static, all inputs and viewing conditions over the reals: prepare_parameters, Adapt::run, Unadapt::run, xyz_to_cam16 and "
    "non_black_cam16_to_xyz are evaluated symbolically and compared, quantity by quantity, with the CAM16 equations of Li et al. (2017) "
    "(forward) and their published step-by-step inverse, for every surround/discounting variant and each of the six lightness|brightness "
    "x chroma|colorfulness|saturation inputs; the inverse non-linearity's constants are tied to the forward ones (exponent·0.42 = 1, "
    "constant = 100/F_L·27.13^exponent, same |x| and sign treatment); M16·M16⁻¹ = I and the opponent matrix inverse are discharged exactly; "
    "attribute interconversions compose to the identity as rational functions; partial types copy same-named attributes; "
    "black converts to black.  Not decided: floating-point accuracy of the round trip."
    " CAM16-FWD: entry points (from_xyz / into_xyz / into_full, Alpha forms) and Convert plumbing hand the colour and the caller's parameters to the conversion of their direction."
)

PHANTOM = Struct("PhantomData", {})
M16 = [["0.401288", "0.650173", "-0.051461"], ["-0.250268", "1.204414", "0.045854"], ["-0.002079", "0.048952", "0.953127"]]


def _params(S, name="p"):
    c = S.ctx
    f = {k: c.sym("%s.%s" % (name, k)) for k in ("n", "n_bb", "n_c", "n_cb", "a_w", "c", "z", "f_l_4")}
    f["d_rgb"] = Array([c.sym("%s.d_rgb[%d]" % (name, i)) for i in range(3)])
    f["d_rgb_inv"] = Array([c.sym("%s.d_rgb_inv[%d]" % (name, i)) for i in range(3)])
    f["adapt"] = Struct("cam16::math::Adapt", {"f_l": c.sym("%s.adapt.f_l" % name)})
    f["unadapt"] = Struct("cam16::math::Unadapt", {"constant": c.sym("%s.unadapt.constant" % name), "exponent": c.sym("%s.unadapt.exponent" % name)})
    return Struct("cam16::math::DependentParameters", f)


def adapt_ref(R, f_l, x):
    p = R.powf(R.mul(f_l, R.abs(x), "0.01"), "0.42")
    return R.div(R.mul(R.f("signum", x), 400, p), R.add(p, "27.13"))


def unadapt_ref(R, constant, exponent, x):
    return R.mul(R.f("signum", x), constant, R.powf(R.div(R.abs(x), R.sub(400, R.abs(x))), exponent))


def m16_ref(R, v):
    return [R.add(*[R.mul(M16[i][j], v[j]) for j in range(3)]) for i in range(3)]


def forward_steps(S, P):
    """Li et al. 2017 (CAM16) forward model, with sqrt(J/100) kept as the named quantity j_root."""
    steps = []
    A = steps.append
    p = P.fields
    X = [S.ctx.sym("xyz." + k) for k in "xyz"]
    for i, nm in enumerate(("r_a", "g_a", "b_a")):
        A((nm, lambda R, e, i=i: adapt_ref(R, p["adapt"].fields["f_l"], R.mul(m16_ref(R, [R.mul(x, 100) for x in X])[i], p["d_rgb"].items[i]))))
    A(("a", lambda R, e: R.add(e["r_a"], R.div(R.add(R.mul(-12, e["g_a"]), e["b_a"]), 11))))
    A(("b", lambda R, e: R.div(R.sub(R.add(e["r_a"], e["g_a"]), R.mul(2, e["b_a"])), 9)))
    A(("h_rad", lambda R, e: R.f("atan2", e["b"], e["a"])))
    A(("e_t", lambda R, e: R.mul(Fr(1, 4), R.add(R.f("cos", R.add(e["h_rad"], 2)), "3.8"))))
    A(("A", lambda R, e: R.mul(p["n_bb"], R.add(R.mul(2, e["r_a"]), e["g_a"], R.mul("0.05", e["b_a"])))))
    A(("j_root", lambda R, e: R.powf(R.div(e["A"], p["a_w"]), R.mul(Fr(1, 2), p["c"], p["z"]))))
    A(("t", lambda R, e: R.div(R.mul(Fr(50000, 13), p["n_c"], p["n_cb"], e["e_t"], R.sqrt(R.add(R.pow(e["a"], 2), R.pow(e["b"], 2)))),
                               R.add(e["r_a"], e["g_a"], R.mul("1.05", e["b_a"]), "0.305"))))
    A(("alpha", lambda R, e: R.mul(R.powf(e["t"], "0.9"), R.powf(R.sub("1.64", R.powf("0.29", p["n"])), "0.73"))))

    def final(R, e):
        J = R.mul(100, R.pow(e["j_root"], 2))
        Q = R.mul(R.div(4, p["c"]), e["j_root"], R.add(p["a_w"], 4), p["f_l_4"])
        C = R.mul(e["alpha"], e["j_root"])
        M = R.mul(C, p["f_l_4"])
        s = R.mul(50, R.sqrt(R.div(R.mul(e["alpha"], p["c"]), R.add(p["a_w"], 4))))
        return {"lightness": J, "brightness": Q, "chroma": C, "colorfulness": M, "saturation": s, "hue": e["h_rad"]}
    return steps, final


def inverse_steps(S, P, lum, chrom, h):
    """Published inverse (Li et al. 2017, appendix; CIECAM02 steps 1-7 with the CAM16 matrix), j_root form."""
    p = P.fields
    steps = []
    A = steps.append
    lk, lv = lum
    ck, cv = chrom
    if lk == "Lightness":
        A(("j_root", lambda R, e: R.mul(R.sqrt(lv), Fr(1, 10))))
    else:
        A(("j_root", lambda R, e: R.div(R.mul(Fr(1, 4), p["c"], lv), R.mul(R.add(p["a_w"], 4), p["f_l_4"]))))
    if ck == "Chroma":
        A(("alpha", lambda R, e: R.div(cv, e["j_root"])))
    elif ck == "Colorfulness":
        A(("alpha", lambda R, e: R.div(R.div(cv, p["f_l_4"]), e["j_root"])))
    else:
        A(("alpha", lambda R, e: R.div(R.mul("0.0004", R.pow(cv, 2), R.add(p["a_w"], 4)), p["c"])))
    A(("t", lambda R, e: R.powf(R.mul(e["alpha"], R.powf(R.sub("1.64", R.powf("0.29", p["n"])), "-0.73")), Fr(10, 9))))
    # hue in radians: whatever Cam16Hue::into_radians is (its agreement with degrees·π/180 on the circle is C11's obligation)
    A(("h_rad", lambda R, e: S.ev.eval_body(_hue_method(S.F, "into_radians"), [Struct("hues::Cam16Hue", {"0": h})])[0]))
    A(("e_t", lambda R, e: R.mul(Fr(1, 4), R.add(R.f("cos", R.add(e["h_rad"], 2)), "3.8"))))
    A(("A", lambda R, e: R.mul(p["a_w"], R.powf(e["j_root"], R.div(R.div(2, p["c"]), p["z"])))))
    A(("p_1", lambda R, e: R.mul(Fr(50000, 13), p["n_c"], p["n_cb"], e["e_t"])))
    A(("p_2", lambda R, e: R.div(e["A"], p["n_bb"])))
    A(("r", lambda R, e: R.div(R.mul(23, R.add(e["p_2"], "0.305"), e["t"]),
                               R.add(R.mul(23, e["p_1"]), R.mul(e["t"], R.add(R.mul(11, R.f("cos", e["h_rad"])), R.mul(108, R.f("sin", e["h_rad"]))))))))
    A(("a", lambda R, e: R.mul(e["r"], R.f("cos", e["h_rad"]))))
    A(("b", lambda R, e: R.mul(e["r"], R.f("sin", e["h_rad"]))))
    OPP = [(460, 451, 288), (460, -891, -261), (460, -220, -6300)]
    for i, nm in enumerate(("r_c", "g_c", "b_c")):
        A((nm, lambda R, e, i=i: R.mul(
            unadapt_ref(R, p["unadapt"].fields["constant"], p["unadapt"].fields["exponent"],
                        R.div(R.add(R.mul(OPP[i][0], e["p_2"]), R.mul(OPP[i][1], e["a"]), R.mul(OPP[i][2], e["b"])), 1403)),
            p["d_rgb_inv"].items[i])))
    return steps


import re
from .c12 import _tree


def _whole(t, base):
    """t is the scalarised form of the value `base` passed through untouched"""
    if isinstance(t, str):
        return t == base or t.startswith("unit:")
    if isinstance(t, tuple) and isinstance(t[0], str) and t[0].startswith("mk:"):
        names = re.match(r"mk:\w+\{([^}]*)\}", t[0]).group(1).split(",")
        return len(names) == len(t[1]) and all(_whole(a, base + "." + n) for n, a in zip(names, t[1]))
    if isinstance(t, tuple) and isinstance(t[0], str) and t[0].startswith("struct:"):
        return all(_whole(a, base + "." + n) for n, a in t[1].items())
    return False


# method -> (trait method it must forward to, position of the parameters argument)
FWD = {
    "from_xyz": "cam16::IntoCam16Unclamped::into_cam16_unclamped",
    "into_full": "cam16::IntoCam16Unclamped::into_cam16_unclamped",
    "into_xyz": "cam16::Cam16IntoUnclamped::cam16_into_unclamped",
}


def check_cam16_forwarders(F, rep):
    """CAM16-FWD: the public entry points (from_xyz / into_xyz / into_full on Cam16, the six partial types and their Alpha forms) hand the
    colour itself and the caller's parameters to the conversion trait of their direction; the Alpha forms convert the colour and pass alpha
    through; the blanket Into*/From* impls and BakedParameters::convert forward to their mirror image; xyz -> Cam16 is math::xyz_to_cam16 of
    the colour and the baked `inner` parameters."""
    S = Session(F, no_inline={"cam16::math::xyz_to_cam16", "cam16::math::cam16_to_xyz"})
    n = 0
    for b in F.bodies:
        if "::test" in b["path"] or b["dk"] not in ("Fn", "AssocFn") or not b["file"].startswith("palette/src/cam16"):
            continue
        im = b["_impl"]
        nm = b["name"]
        if nm in FWD and im is not None and not im.get("trait"):
            alpha = im["self_s"].startswith("alpha::alpha::Alpha<")
            key = "%s[%s]" % (nm, im["self_s"])
            n += 1
            try:
                v, _ = S.eval(b, names=["x", "params"])
                t = _tree(v)
                inner = t
                ok = True
                if alpha:
                    ok = isinstance(t, tuple) and t[0] == "struct:Alpha" and t[1].get("alpha") == "x.alpha"
                    inner = t[1].get("color") if ok else None
                base = "x.color" if alpha else "x"
                ok = ok and isinstance(inner, tuple) and inner[0].startswith(FWD[nm] + "<") and len(inner[1]) == 2 and _whole(inner[1][0], base)
                if ok:
                    p = inner[1][1]
                    ok = (isinstance(p, tuple) and p[0].startswith("std::convert::Into::into<") and p[1] == ["params"]) or p == "params"
                if ok and nm == "into_full":
                    ok = inner[0].endswith("cam16::full::Cam16<T>>")
                rep.ob("CAM16-FWD", key, ok, alg._short(v, 200), F.loc(b), nontrivial=False)
            except (Opaque, poly.TooBig, KeyError, AttributeError) as ex:
                rep.fail("CAM16-FWD", key, "uninterpretable: %s" % ex, F.loc(b))
    # blanket mirror impls and the Convert plumbing
    MIRROR = {"into_cam16_unclamped": "cam16::Cam16FromUnclamped::cam16_from_unclamped", "cam16_into_unclamped": "cam16::FromCam16Unclamped::from_cam16_unclamped"}
    for b in F.bodies:
        im = b["_impl"]
        if im is None or "::test" in b["path"] or not b["file"].startswith("palette/src/cam16"):
            continue
        if b["name"] in MIRROR and im["self_s"] == "U":
            n += 1
            try:
                v, _ = S.eval(b, names=["x", "params"])
                t = _tree(v)
                ok = isinstance(t, tuple) and t[0].startswith(MIRROR[b["name"]] + "<") and t[1][0] == "x" and _whole(t[1][1], "params")
                rep.ob("CAM16-FWD", "blanket %s" % b["name"], ok, alg._short(v, 160), F.loc(b), nontrivial=False)
            except (Opaque, poly.TooBig, IndexError) as ex:
                rep.fail("CAM16-FWD", "blanket %s" % b["name"], "uninterpretable: %s" % ex, F.loc(b))
        elif b["name"] == "cam16_from_unclamped" and im["self_s"].startswith("cam16::full::Cam16<"):
            n += 1
            v, _ = S.eval(b, names=["x", "params"])
            t = _tree(v)
            ok = isinstance(t, tuple) and t[0].startswith("convert::Convert::convert<") and _whole(t[1][0], "params") and t[1][1] == "x"
            rep.ob("CAM16-FWD", "Cam16::cam16_from_unclamped", ok, alg._short(v, 160), F.loc(b), nontrivial=False)
        elif b["name"] == "convert" and im["self_s"].startswith("cam16::parameters::BakedParameters<"):
            n += 1
            v, _ = S.eval(b, names=["x", "input"])
            t = _tree(v)
            ok = isinstance(t, tuple) and t[0].startswith("convert::ConvertOnce::convert_once<") and _whole(t[1][0], "x") and t[1][1] == "input"
            rep.ob("CAM16-FWD", "BakedParameters::convert", ok, alg._short(v, 160), F.loc(b), nontrivial=False)
        elif b["name"] == "convert_once" and im["self_s"].startswith("cam16::parameters::BakedParameters<") and "xyz::Xyz<" in im["trait_args_s"][0] \
                and im["trait_args_s"][1].startswith("cam16::full::Cam16<"):
            n += 1
            v, _ = S.eval(b, names=["x", "input"])
            t = _tree(v)
            ok = isinstance(t, tuple) and t[0].startswith("cam16::math::xyz_to_cam16<") and _whole(t[1][0], "input") and _whole(t[1][1], "x.inner")
            rep.ob("CAM16-FWD", "BakedParameters: Xyz -> Cam16", ok, alg._short(v, 160), F.loc(b), nontrivial=False)
    rep.floor("CAM16 entry points and plumbing", n, 40)


def run(F, rep, tier="quick", extra=None, only=None):
    rep.trusted += ["rustc name resolution / type check", "operator table of rules/sym.py",
                    "CAM16 equations of Li et al. (2017) and the CIE 159 inverse steps as transcribed in rules/c16.py (J/100 written as j_root², the form the "
                    "code uses; 0.1/0.305 offsets folded as in the paper's appendix)",
                    "axioms sqrt(x)^2 = x (x >= 0), abs/signum as uninterpreted functions"]
    S = Session(F)
    R = S.R
    ctx = S.ctx
    # ------------------------------------------------------------------ non-linearity pair
    b_ad = F.fn("cam16::math::Adapt::<T>::run")
    b_un = F.fn("cam16::math::Unadapt::<T>::run")
    try:
        ad = Struct("cam16::math::Adapt", {"f_l": ctx.sym("f_l")})
        x = ctx.sym("x")
        v, _ = S.ev.eval_body(b_ad, [ad, x])
        check_value(rep, "ALG-REF", "Adapt::run", S, b_ad, v, adapt_ref(R, ctx.sym("f_l"), x),
                    sample="sign(x)·400·(F_L|x|/100)^0.42 / ((F_L|x|/100)^0.42 + 27.13)")
        un = Struct("cam16::math::Unadapt", {"constant": ctx.sym("K"), "exponent": ctx.sym("E")})
        v, _ = S.ev.eval_body(b_un, [un, x])
        check_value(rep, "ALG-REF", "Unadapt::run", S, b_un, v, unadapt_ref(R, ctx.sym("K"), ctx.sym("E"), x),
                    sample="sign(x)·K·(|x| / (400 − |x|))^E  — the exact inverse of Adapt for E = 1/0.42, K = 100/F_L·27.13^E")
    except (Opaque, poly.TooBig) as ex:
        rep.fail("ALG-REF", "Adapt/Unadapt", "uninterpretable: %s" % ex, F.loc(b_ad))

    # ------------------------------------------------------------------ matrices
    b_m = F.fn("cam16::math::m16")
    b_mi = F.fn("cam16::math::m16_inv")
    try:
        xyz = Struct("xyz::Xyz", {"x": ctx.sym("X"), "y": ctx.sym("Y"), "z": ctx.sym("Z"), "white_point": PHANTOM})
        lms, _ = S.ev.eval_body(b_m, [xyz])
        exp = Array(m16_ref(R, [ctx.sym("X"), ctx.sym("Y"), ctx.sym("Z")]))
        check_value(rep, "CONST-M16", "m16", S, b_m, lms, exp, sample="Li et al. 2017 M16 literals")
        back, _ = S.ev.eval_body(b_mi, [lms])
        # M16⁻¹·M16 = I within the precision of the published 6-digit forward matrix (literal inverse has 16 digits)
        worst = Fr(0)
        ok = isinstance(back, Struct)
        if ok:
            for k, want in (("x", "X"), ("y", "Y"), ("z", "Z")):
                rf = back.fields[k]
                for nm in ("X", "Y", "Z"):
                    co = _coeff(rf, nm)
                    dev = abs(co - (1 if nm == want else 0))
                    worst = max(worst, dev)
        rep.ob("CONST-M16", "m16_inv·m16 = I", ok and worst < Fr(1, 10 ** 12), "max |entry − δ| = %.3g" % float(worst), F.loc(b_mi))
    except (Opaque, poly.TooBig, KeyError) as ex:
        rep.fail("CONST-M16", "m16", "uninterpretable: %s" % ex, F.loc(b_m))

    # ------------------------------------------------------------------ derived parameters
    check_parameters(F, rep, S)

    # ------------------------------------------------------------------ forward model
    P = _params(S)
    b_f = F.fn("cam16::math::xyz_to_cam16")
    xyz = Struct("xyz::Xyz", {"x": ctx.sym("xyz.x"), "y": ctx.sym("xyz.y"), "z": ctx.sym("xyz.z"), "white_point": PHANTOM})
    steps, final = forward_steps(S, P)
    holder = {}

    def fin(R_, e):
        d = final(R_, e)
        holder.update(d)
        return Struct("cam16::full::Cam16", {k: (Struct("hues::Cam16Hue", {"0": R_.f("rad2deg", v)}) if k == "hue" else v) for k, v in d.items()})
    staged_check(rep, "ALG-REF", "xyz_to_cam16", S, b_f, [xyz, P], steps, fin,
                 sample="every attribute equals the CAM16 forward equations (R_a..b_a, a, b, h, e_t, A, J, Q, t, alpha, C, M, s)")

    # ------------------------------------------------------------------ inverse model, 6 attribute combinations
    b_i = F.fn("cam16::math::non_black_cam16_to_xyz")
    n = 0
    for lk in ("Lightness", "Brightness"):
        for ck in ("Chroma", "Colorfulness", "Saturation"):
            S1 = Session(F)
            P1 = _params(S1)
            lv, cv, hv = S1.ctx.sym("in.lum"), S1.ctx.sym("in.chrom"), S1.ctx.sym("in.hue")
            cam = Tuple([Struct("cam16::math::luminance::LuminanceType::" + lk, {"0": lv}),
                         Struct("cam16::math::chromaticity::ChromaticityType::" + ck, {"0": cv}),
                         Struct("hues::Cam16Hue", {"0": hv})])
            st = inverse_steps(S1, P1, (lk, lv), (ck, cv), hv)

            def fin2(R_, e):
                lms = [e["r_c"], e["g_c"], e["b_c"]]
                return _m16inv_of(S1, F, lms)
            staged_check(rep, "ALG-REF", "cam16_to_xyz[%s,%s]" % (lk, ck), S1, b_i, [cam, P1], st, fin2,
                         sample="j_root, alpha, t, e_t, A, p_1 (with N_c·N_cb), p_2, r, a, b, opponent matrix /1403, inverse non-linearity, D_rgb⁻¹, M16⁻¹, /100")
            n += 1
    rep.floor("inverse attribute combinations", n, 6)
    check_black(F, rep)
    check_attribute_laws(F, rep, S)
    check_into_cam16(F, rep)
    check_partials(F, rep)
    check_parameter_plumbing(F, rep)
    check_ucs(F, rep)
    check_cam16_forwarders(F, rep)
    return {"level": "other", "explanation": EXPLANATION}


def _coeff(rf, name):
    """coefficient of the bare atom `name` in a linear RatFunc with constant denominator"""
    d = poly.p_const_value(rf.den)
    for m, c in rf.num.items():
        if len(m) == 1 and m[0][1] == 1 and poly.atom_by_id(m[0][0]).name == name and not poly.atom_by_id(m[0][0]).args:
            return Fr(c) / d
    return Fr(0)



def _m16inv_of(S, F, lms):
    b = F.fn("cam16::math::m16_inv")
    v, _ = S.ev.eval_body(b, [Array(list(lms))])
    return Struct(v.path, {k: (S.R.div(x, 100) if isinstance(x, (RatFunc, Ite)) else x) for k, x in v.fields.items()})


def check_parameters(F, rep, S0):
    """prepare_parameters against the published derived-parameter formulas, per surround x discounting variant."""
    b = F.fn("cam16::math::prepare_parameters")
    n = 0
    for sk in ("Dark", "Dim", "Average", "Percent"):
        for dk in ("Auto", "Custom"):
            S = Session(F)
            R, ctx = S.R, S.ctx
            wp = [ctx.sym("wp." + k) for k in "xyz"]
            la, yb = ctx.sym("L_A"), ctx.sym("Y_b")
            sp, dc = ctx.sym("surround%"), ctx.sym("D_custom")
            sur = Struct("cam16::parameters::Surround::" + sk, {"0": sp} if sk == "Percent" else {})
            dis = Struct("cam16::parameters::Discounting::" + dk, {"0": dc} if dk == "Custom" else {})
            par = Struct("cam16::parameters::Parameters", {
                "white_point": Struct("xyz::Xyz", {"x": wp[0], "y": wp[1], "z": wp[2], "white_point": PHANTOM}),
                "adapting_luminance": la, "background_luminance": yb, "surround": sur, "discounting": dis})
            key = "prepare_parameters[%s,%s]" % (sk, dk)
            try:
                v, _ = S.ev.eval_body(b, [par])
            except (Opaque, poly.TooBig, ZeroDivisionError) as ex:
                rep.fail("ALG-REF", key, "uninterpretable: %s" % ex, F.loc(b))
                continue
            # published table (Li et al. 2017, Table 1 as in CIECAM02): surround -> (c, F = N_c)
            if sk != "Percent":
                c_, f_ = {"Dark": ("0.525", "0.8"), "Dim": ("0.59", "0.9"), "Average": ("0.69", "1")}[sk]
                c_, f_ = R.c(c_), R.c(f_)
            else:
                s = R.mul(R.clamp(sp, 0, 20), Fr(1, 10))

                def lerp(a, b_, t):
                    return R.add(R.c(a), R.mul(R.sub(b_, a), t))
                c_ = R.ite(R.ge(s, 1), lerp("0.59", "0.69", R.sub(s, 1)), lerp("0.525", "0.59", s))
                f_ = R.ite(R.ge(c_, "0.59"), lerp("0.9", 1, R.div(R.sub(c_, "0.59"), "0.1")), lerp("0.8", "0.9", R.div(R.sub(c_, "0.525"), "0.065")))
            k = R.div(1, R.add(R.mul(5, la), 1))
            k4 = R.pow(k, 4)
            f_l = R.add(R.mul(k4, la), R.mul("0.1", R.pow(R.sub(1, k4), 2), R.powf(R.mul(5, la), Fr(1, 3))))
            xw = [R.mul(x, 100) for x in wp]
            yw = xw[1]
            nn = R.div(R.mul(yb, 100), yw)
            z = R.add("1.48", R.sqrt(nn))
            nbb = R.mul("0.725", R.powf(nn, "-0.2"))
            if dk == "Auto":
                d = R.mul(f_, R.sub(1, R.mul(R.div(1, "3.6"), R.f("exp", R.div(R.sub(R.neg(la), 42), 92)))))
            else:
                d = dc
            d = R.clamp(d, 0, 1)
            rgbw = m16_ref(R, xw)
            drgb = [R.add(R.mul(d, R.div(yw, rgbw[i])), R.sub(1, d)) for i in range(3)]
            e = R.div(1, "0.42")
            raw = [adapt_ref(R, f_l, R.mul(rgbw[i], drgb[i])) for i in range(3)]
            aw = R.mul(nbb, R.add(R.mul(2, raw[0]), raw[1], R.mul("0.05", raw[2])))
            exp = Struct("cam16::math::DependentParameters", {
                "d_rgb": Array(drgb), "d_rgb_inv": Array([R.div(1, x) for x in drgb]), "n": nn, "n_bb": nbb, "n_c": f_, "n_cb": nbb,
                "a_w": aw, "c": c_, "z": z, "f_l_4": R.powf(f_l, Fr(1, 4)),
                "adapt": Struct("cam16::math::Adapt", {"f_l": f_l}),
                "unadapt": Struct("cam16::math::Unadapt", {"constant": R.mul(R.div(100, f_l), R.powf("27.13", e)), "exponent": e})})
            check_value(rep, "ALG-REF", key, S, b, v, exp,
                        sample="c, F=N_c (published surround table), k, F_L, n, z, N_bb=N_cb, D (clamped), D_RGB, A_w; inverse non-linearity: exponent = 1/0.42, constant = 100/F_L·27.13^(1/0.42)")
            n += 1
    rep.floor("parameter variants", n, 8)


def check_black(F, rep):
    """cam16_to_xyz: zero lightness/brightness gives XYZ = 0, anything else goes through non_black_cam16_to_xyz
    (lane-wise selection is C17's SEL rule)."""
    b = F.fn("cam16::math::cam16_to_xyz")
    nb = "cam16::math::non_black_cam16_to_xyz"
    for lk in ("Lightness", "Brightness"):
        S = Session(F, no_inline={nb})
        ctx = S.ctx
        P = _params(S)
        lv, cv, hv = ctx.sym("in.lum"), ctx.sym("in.chrom"), ctx.sym("in.hue")
        cam = Tuple([Struct("cam16::math::luminance::LuminanceType::" + lk, {"0": lv}),
                     Struct("cam16::math::chromaticity::ChromaticityType::Chroma", {"0": cv}),
                     Struct("hues::Cam16Hue", {"0": hv})])
        key = "cam16_to_xyz black[%s]" % lk
        try:
            v, _ = S.ev.eval_body(b, [cam, P])
            cnd = S.R.eq(lv, 0)
            cnd = cnd.c if isinstance(cnd, Ite) else cnd
            z = sym.restrict(v, cnd, True)
            nz = sym.restrict(v, cnd, False)
            det = []
            ok = isinstance(z, Struct) and all(isinstance(z.fields[k], RatFunc) and z.fields[k].is_zero() for k in "xyz")
            det.append("black -> %s" % alg._short(z, 60))
            aps = apps_of(nz)
            oknz = any(a.startswith(nb) or a.startswith("proj.") for a in aps) and any(nb in a for a in _all_app_names(nz))
            det.append("otherwise -> %s" % alg._short(nz, 80))
            ok = ok and oknz
            rep.ob("GUARD", key, ok, "; ".join(det), F.loc(b))
        except (Opaque, poly.TooBig, KeyError) as ex:
            rep.fail("GUARD", key, "uninterpretable: %s" % ex, F.loc(b))


def _all_app_names(v):
    from .c08 import _find_apps
    return [a.name for a in _find_apps(v, lambda n_: True)]


def check_attribute_laws(F, rep, S):
    """J<->Q, C<->M<->s interconversions are mutually inverse (exact rational-function identities, positive parameters)."""
    S = Session(F, positive={"j", "q", "c", "a_w", "f_l_4", "J", "s", "alpha"})
    ctx, R = S.ctx, S.R
    fn = lambda n_: F.fn("cam16::math::" + n_)
    ev = lambda n_, *a: S.ev.eval_body(fn(n_), list(a))[0]
    j, q, c, aw, fl4, J, s, al, C, M = (ctx.sym(x) for x in ("j", "q", "c", "a_w", "f_l_4", "J", "s", "alpha", "C", "M"))
    laws = [
        ("lightness_to_j_root∘calculate_lightness", lambda: ev("lightness_to_j_root", ev("calculate_lightness", j)), j),
        ("brightness_to_j_root∘calculate_brightness", lambda: ev("brightness_to_j_root", ev("calculate_brightness", j, c, aw, fl4), c, aw, fl4), j),
        ("saturation_to_alpha∘calculate_saturation", lambda: ev("saturation_to_alpha", ev("calculate_saturation", c, aw, al), c, aw), al),
        ("colorfulness_to_chroma∘chroma_to_colorfulness", lambda: ev("colorfulness_to_chroma", ev("chroma_to_colorfulness", C, fl4), fl4), C),
        ("chroma_to_colorfulness∘colorfulness_to_chroma", lambda: ev("chroma_to_colorfulness", ev("colorfulness_to_chroma", M, fl4), fl4), M),
        ("colorfulness_to_chroma∘calculate_colorfulness", lambda: ev("colorfulness_to_chroma", ev("calculate_colorfulness", fl4, C), fl4), C),
        ("brightness_to_lightness∘lightness_to_brightness", lambda: ev("brightness_to_lightness", ev("lightness_to_brightness", J, c, aw, fl4), c, aw, fl4), J),
        ("lightness_to_brightness∘brightness_to_lightness", lambda: ev("lightness_to_brightness", ev("brightness_to_lightness", q, c, aw, fl4), c, aw, fl4), q),
        ("saturation_to_chroma∘chroma_to_saturation", lambda: ev("saturation_to_chroma", ev("chroma_to_saturation", C, J, c, aw), J, c, aw), C),
        ("chroma_to_saturation∘saturation_to_chroma", lambda: ev("chroma_to_saturation", ev("saturation_to_chroma", s, J, c, aw), J, c, aw), s),
        # consistency of the shortcut functions with the forward model's definitions
        ("lightness_to_brightness = calculate_brightness∘lightness_to_j_root", lambda: ev("lightness_to_brightness", J, c, aw, fl4),
         lambda: ev("calculate_brightness", ev("lightness_to_j_root", J), c, aw, fl4)),
        ("chroma_to_saturation = calculate_saturation(alpha = C / j_root)", lambda: ev("chroma_to_saturation", C, J, c, aw),
         lambda: ev("calculate_saturation", c, aw, R.div(C, ev("lightness_to_j_root", J)))),
        ("chroma_to_colorfulness = calculate_colorfulness", lambda: ev("chroma_to_colorfulness", C, fl4), lambda: ev("calculate_colorfulness", fl4, C)),
        ("calculate_chroma = j_root·alpha", lambda: ev("calculate_chroma", j, al), lambda: R.mul(j, al)),
    ]
    n = 0
    for key, lhs, rhs in laws:
        try:
            l = lhs()
            r = rhs() if callable(rhs) else rhs
            smp = "identity holds as rational functions (sqrt(x)² = x on x ≥ 0)"
            if alg.compare(l, r, S.ctx) and "sqrt" in apps_of(l) | apps_of(r):
                # both sides are products of positive parameters and principal square roots, hence ≥ 0: equal iff their squares are
                l, r = R.pow(l, 2), R.pow(r, 2)
                smp = "squares are equal as rational functions and both sides are ≥ 0 (positive parameters, principal roots)"
            check_value(rep, "ALG-LAW", key, S, fn(key.split("∘")[0].split(" ")[0]), l, r, sample=smp)
            n += 1
        except (Opaque, poly.TooBig, facts.AnchorMissing) as ex:
            rep.fail("ALG-LAW", key, "uninterpretable: %s" % ex)
    rep.floor("attribute laws", n, 14)


def check_into_cam16(F, rep):
    """LuminanceType/ChromaticityType::into_cam16: the given attribute is passed through unchanged, the others come from the
    pair functions, tuple order is (J, Q) / (C, M, s), black zeroes everything."""
    S = Session(F, no_inline={"cam16::math::" + n_ for n_ in (
        "lightness_to_brightness", "brightness_to_lightness", "chroma_to_colorfulness", "chroma_to_saturation", "colorfulness_to_chroma", "saturation_to_chroma")})
    ctx, R = S.ctx, S.R
    P = Struct("cam16::parameters::BakedParameters", {"inner": _params(S), "white_point": PHANTOM})
    c, aw, fl4 = (P.fields["inner"].fields[k] for k in ("c", "a_w", "f_l_4"))

    def app(n_, *a):
        return ctx.app("cam16::math::%s<T>" % n_, list(a))
    v_ = ctx.sym("v")
    J = ctx.sym("J")
    bl = one_body(F, "cam16::math::luminance::", "into_cam16")
    bc = one_body(F, "cam16::math::chromaticity::", "into_cam16")
    zero2 = lambda x: R.ite(R.eq(v_, 0), 0, x)
    cases = [
        (bl, "Luminance::Lightness", [Struct("cam16::math::luminance::LuminanceType::Lightness", {"0": v_}), P],
         lambda: Tuple([v_, zero2(app("lightness_to_brightness", v_, c, aw, fl4))])),
        (bl, "Luminance::Brightness", [Struct("cam16::math::luminance::LuminanceType::Brightness", {"0": v_}), P],
         lambda: Tuple([zero2(app("brightness_to_lightness", v_, c, aw, fl4)), v_])),
    ]
    zJ = lambda x: R.ite(R.eq(J, 0), 0, x)
    chroma_from_m = app("colorfulness_to_chroma", v_, fl4)
    chroma_from_s = app("saturation_to_chroma", v_, J, c, aw)
    cases += [
        (bc, "Chromaticity::Chroma", [Struct("cam16::math::chromaticity::ChromaticityType::Chroma", {"0": v_}), J, P],
         lambda: Tuple([zJ(v_), zJ(app("chroma_to_colorfulness", v_, fl4)), zJ(app("chroma_to_saturation", v_, J, c, aw))])),
        (bc, "Chromaticity::Colorfulness", [Struct("cam16::math::chromaticity::ChromaticityType::Colorfulness", {"0": v_}), J, P],
         lambda: Tuple([zJ(chroma_from_m), zJ(v_), zJ(app("chroma_to_saturation", chroma_from_m, J, c, aw))])),
        (bc, "Chromaticity::Saturation", [Struct("cam16::math::chromaticity::ChromaticityType::Saturation", {"0": v_}), J, P],
         lambda: Tuple([zJ(chroma_from_s), zJ(app("chroma_to_colorfulness", chroma_from_s, fl4)), zJ(v_)])),
    ]
    for b, key, args, exp in cases:
        try:
            v, _ = S.ev.eval_body(b, args)
            check_value(rep, "SHAPE-FIELD", "into_cam16[%s]" % key, S, b, v, exp(),
                        sample="given attribute passed through, others via the pair functions, zero when lightness/brightness is zero")
        except (Opaque, poly.TooBig) as ex:
            rep.fail("SHAPE-FIELD", "into_cam16[%s]" % key, "uninterpretable: %s" % ex, F.loc(b))


def _hue_method(F, name):
    c = [b for p, bs in F.bodies_by_path.items() if p.endswith("::" + name) and "Cam16Hue" in p for b in bs]
    if len(c) != 1:
        raise facts.AnchorMissing("Cam16Hue::%s: expected one body, found %d (%s)" % (name, len(c), [b["path"] for b in c][:4]))
    return c[0]


def one_body(F, prefix, name):
    c = [b for p, bs in F.bodies_by_path.items() if p.startswith(prefix) and p.endswith("::" + name) for b in (bs if isinstance(bs, list) else [bs])]
    if len(c) != 1:
        raise facts.AnchorMissing("%s*::%s: expected one body, found %d" % (prefix, name, len(c)))
    return c[0]


PARTIALS = ["Cam16Jch", "Cam16Jmh", "Cam16Jsh", "Cam16Qch", "Cam16Qmh", "Cam16Qsh"]
LUM = {"lightness": "Lightness", "brightness": "Brightness"}
CHR = {"chroma": "Chroma", "colorfulness": "Colorfulness", "saturation": "Saturation"}
FULL = ("lightness", "chroma", "hue", "brightness", "colorfulness", "saturation")


def _full(ctx, n="full"):
    f = {k: ctx.sym("%s.%s" % (n, k)) for k in FULL if k != "hue"}
    f["hue"] = Struct("hues::Cam16Hue", {"0": ctx.sym("%s.hue" % n)})
    return Struct("cam16::full::Cam16", f)


def _convert_once(F, src_tail, tgt_tail):
    out = []
    for im in F.find_impls(trait="convert::ConvertOnce", self_adt="cam16::parameters::BakedParameters"):
        ta = im["trait_args_s"]
        if len(ta) >= 2 and (sym._adt_of_type(ta[0]) or "").endswith("::" + src_tail) and (sym._adt_of_type(ta[1]) or "").endswith("::" + tgt_tail):
            out.append(im)
    if len(out) != 1:
        raise facts.AnchorMissing("ConvertOnce<%s, %s> for BakedParameters: expected one impl, found %d" % (src_tail, tgt_tail, len(out)))
    return F.impl_method(out[0], "convert_once")


def check_partials(F, rep):
    """The six partial types: from_full copies the same-named attributes; into_dynamic tags each field with the variant of its own name;
    partial -> full and partial -> XYZ are wired through into_cam16 / cam16_to_xyz with the attributes in the right slots."""
    S = Session(F, positive={"p.c", "p.a_w", "p.f_l_4"})
    ctx, R = S.ctx, S.R
    n = 0
    b_c2x = F.fn("cam16::math::cam16_to_xyz")
    b_lum = one_body(F, "cam16::math::luminance::", "into_cam16")
    b_chr = one_body(F, "cam16::math::chromaticity::", "into_cam16")
    for name in PARTIALS:
        adt = [a for a in F.adts if a["path"].endswith("::" + name)]
        if len(adt) != 1:
            rep.fail("ANCHOR", name, "ADT not found")
            continue
        adt = adt[0]
        path = adt["path"]
        fields = [f["n"] for f in adt["variants"][0]["f"]]
        lum = [f for f in fields if f in LUM]
        chrom = [f for f in fields if f in CHR]
        if len(lum) != 1 or len(chrom) != 1 or "hue" not in fields or len(fields) != 3:
            rep.fail("SHAPE-FIELD", name + " fields", "expected one luminance, one chromaticity attribute and hue; found %s" % fields)
            continue
        lum, chrom = lum[0], chrom[0]
        # the type name encodes the attributes: J|Q, c|m|s
        want = {"J": "lightness", "Q": "brightness"}[name[5]], {"c": "chroma", "m": "colorfulness", "s": "saturation"}[name[6]]
        rep.ob("SHAPE-FIELD", name + " fields", (lum, chrom) == want, "fields %s" % fields)
        full = _full(ctx)
        # from_full
        b = F.fn("%s::<T>::from_full" % path)
        try:
            v, _ = S.ev.eval_body(b, [full])
            exp = Struct(path, {lum: full.fields[lum], chrom: full.fields[chrom], "hue": full.fields["hue"]})
            check_value(rep, "SHAPE-FIELD", name + "::from_full", S, b, v, exp, sample="each field = the full colour's attribute of the same name")
        except (Opaque, poly.TooBig) as ex:
            rep.fail("SHAPE-FIELD", name + "::from_full", "uninterpretable: %s" % ex, F.loc(b))
        # into_dynamic
        part = Struct(path, {lum: ctx.sym("p.lum"), chrom: ctx.sym("p.chrom"), "hue": Struct("hues::Cam16Hue", {"0": ctx.sym("p.hue")})})
        dyn = Tuple([Struct("cam16::math::luminance::LuminanceType::" + LUM[lum], {"0": part.fields[lum]}),
                     Struct("cam16::math::chromaticity::ChromaticityType::" + CHR[chrom], {"0": part.fields[chrom]}),
                     part.fields["hue"]])
        b = F.fn("%s::<T>::into_dynamic" % path)
        try:
            v, _ = S.ev.eval_body(b, [part])
            ok = isinstance(v, Tuple) and len(v.items) == 3 and all(
                isinstance(x, Struct) and isinstance(y, Struct) and x.path.split("::")[-1] == y.path.split("::")[-1] and sym.val_eq(x, y)
                for x, y in zip(v.items, dyn.items))
            rep.ob("SHAPE-FIELD", name + "::into_dynamic", ok, "(%s(%s), %s(%s), hue)" % (LUM[lum], lum, CHR[chrom], chrom), F.loc(b))
        except (Opaque, poly.TooBig) as ex:
            rep.fail("SHAPE-FIELD", name + "::into_dynamic", "uninterpretable: %s" % ex, F.loc(b))
        # partial -> full
        P = Struct("cam16::parameters::BakedParameters", {"inner": _params(S), "white_point": PHANTOM})
        try:
            b = _convert_once(F, name, "Cam16")
            v, _ = S.ev.eval_body(b, [P, part])
            L, _ = S.ev.eval_body(b_lum, [dyn.items[0], P])
            C, _ = S.ev.eval_body(b_chr, [dyn.items[1], L.items[0], P])
            exp = Struct("cam16::full::Cam16", {"lightness": L.items[0], "brightness": L.items[1], "chroma": C.items[0], "colorfulness": C.items[1],
                                                "saturation": C.items[2], "hue": part.fields["hue"]})
            check_value(rep, "SHAPE-FIELD", name + " -> Cam16", S, b, v, exp,
                        sample="(J, Q) = luminance.into_cam16, (C, M, s) = chromaticity.into_cam16(J), hue kept; the given attributes come back unchanged (non-black)")
            # expands back to itself: from_full(into_full(p)) == p away from black
            back, _ = S.ev.eval_body(F.fn("%s::<T>::from_full" % path), [v])
            cnd = R.eq(part.fields[lum], 0)
            cnd = cnd.c if isinstance(cnd, Ite) else cnd
            back_nb = sym.restrict(back, cnd, False)
            check_value(rep, "ALG-LAW", name + ": from_full∘into_full = id (non-black)", S, b, back_nb, part, sample="the partial's own attributes are passed through")
        except (Opaque, poly.TooBig, facts.AnchorMissing) as ex:
            rep.fail("SHAPE-FIELD", name + " -> Cam16", "uninterpretable: %s" % ex)
        # partial -> XYZ: cam16_to_xyz(into_dynamic(p), inner)
        try:
            b = _convert_once(F, name, "Xyz")
            S2 = Session(F, no_inline={"cam16::math::non_black_cam16_to_xyz"})
            P2 = Struct("cam16::parameters::BakedParameters", {"inner": _params(S2), "white_point": PHANTOM})
            part2 = Struct(path, {lum: S2.ctx.sym("p.lum"), chrom: S2.ctx.sym("p.chrom"), "hue": Struct("hues::Cam16Hue", {"0": S2.ctx.sym("p.hue")})})
            dyn2 = Tuple([Struct(dyn.items[0].path, {"0": part2.fields[lum]}), Struct(dyn.items[1].path, {"0": part2.fields[chrom]}), part2.fields["hue"]])
            v, _ = S2.ev.eval_body(b, [P2, part2])
            e, _ = S2.ev.eval_body(b_c2x, [dyn2, P2.fields["inner"]])
            check_value(rep, "SHAPE-FWD", name + " -> Xyz", S2, b, v, e, sample="cam16_to_xyz((%s(%s), %s(%s), hue), baked parameters)" % (LUM[lum], lum, CHR[chrom], chrom))
        except (Opaque, poly.TooBig, facts.AnchorMissing) as ex:
            rep.fail("SHAPE-FWD", name + " -> Xyz", "uninterpretable: %s" % ex)
        n += 1
    rep.floor("partial CAM16 types", n, 6)
    # full -> XYZ goes through a partial that determines the colour (any of the six would do): the result is cam16_to_xyz of attributes of `full`
    try:
        b = _convert_once(F, "Cam16", "Xyz")
        S2 = Session(F, no_inline={"cam16::math::non_black_cam16_to_xyz"})
        P2 = Struct("cam16::parameters::BakedParameters", {"inner": _params(S2), "white_point": PHANTOM})
        full = _full(S2.ctx)
        v, _ = S2.ev.eval_body(b, [P2, full])
        # delegates to the conversion of one of the partial types (verified above) built from the full colour's same-named attributes
        import re
        from .c08 import _find_apps
        mk = _find_apps(v, lambda n_: n_.startswith("mk:Cam16") and not n_.startswith("mk:Cam16Hue"))
        outer = _find_apps(v, lambda n_: n_.startswith("convert::ConvertOnce::convert_once<"))
        ok = len(mk) >= 1 and len(outer) >= 1
        det = ""
        if ok:
            m = re.match(r"mk:(\w+)\{([\w,]+)\}", mk[0].name)
            ok = bool(m) and m.group(1) in PARTIALS and ("::%s<" % m.group(1)) in outer[0].name
            if ok:
                names = m.group(2).split(",")
                for nm, arg in zip(names, mk[0].args):
                    src = {x for x in atoms_of(arg) if not x.startswith("@")}
                    ok = ok and src == {"full." + nm}
                det = "via %s{%s} = same-named attributes of the full colour" % (m.group(1), m.group(2))
        if not ok:
            det = alg._short(v, 300)
        rep.ob("SHAPE-FWD", "Cam16 -> Xyz", bool(ok), det, F.loc(b))
        b = _convert_once(F, "Xyz", "Cam16")
        S3 = Session(F, no_inline={"cam16::math::xyz_to_cam16"})
        P3 = Struct("cam16::parameters::BakedParameters", {"inner": _params(S3), "white_point": PHANTOM})
        xyz = Struct("xyz::Xyz", {"x": S3.ctx.sym("X"), "y": S3.ctx.sym("Y"), "z": S3.ctx.sym("Z"), "white_point": PHANTOM})
        v, _ = S3.ev.eval_body(b, [P3, xyz])
        call = _find_apps(v, lambda n_: n_.startswith("cam16::math::xyz_to_cam16"))
        mkx = _find_apps(v, lambda n_: n_.startswith("mk:Xyz{"))
        ok = len(call) >= 1 and len(mkx) >= 1
        if ok:
            names = re.match(r"mk:Xyz\{([\w,]+)\}", mkx[0].name).group(1).split(",")
            for nm, arg in zip(names, mkx[0].args):
                if nm in "xyz":
                    ok = ok and repr(arg) == nm.upper()
            ok = ok and "p.n_c" in atoms_of(call[0].args[1] if len(call[0].args) > 1 else v)
        rep.ob("SHAPE-FWD", "Xyz -> Cam16", ok, alg._short(v, 160), F.loc(b))
    except (Opaque, poly.TooBig, facts.AnchorMissing, KeyError) as ex:
        rep.fail("SHAPE-FWD", "Cam16 <-> Xyz", "uninterpretable: %s" % ex)


def check_parameter_plumbing(F, rep):
    """Viewing conditions reach the model unchanged: into_any_white_point passes the four scalar conditions through and takes the white point
    from the parameter (static: Wp::get_xyz, dynamic: the stored XYZ); the documented defaults; baking = prepare_parameters of exactly that."""
    S = Session(F, no_inline={"cam16::math::prepare_parameters"})
    ctx = S.ctx
    n = 0
    try:
        b = one_body(F, "cam16::parameters::Parameters::<WpParam, T>::", "into_any_white_point")
        par = Struct("cam16::parameters::Parameters", {"white_point": ctx.sym("wp"), "adapting_luminance": ctx.sym("L_A"), "background_luminance": ctx.sym("Y_b"),
                                                       "surround": ctx.sym("sur"), "discounting": ctx.sym("disc")})
        v, _ = S.ev.eval_body(b, [par])
        ok = isinstance(v, Struct) and all(sym.val_eq(v.fields[k], par.fields[k]) for k in ("adapting_luminance", "background_luminance", "surround", "discounting"))
        wpa = apps_of(v.fields["white_point"]) if ok else set()
        ok = ok and any("into_xyz" in a for a in wpa) and "wp" in atoms_of(v.fields["white_point"])
        rep.ob("SHAPE-FIELD", "Parameters::into_any_white_point", ok, "L_A, Y_b, surround, discounting unchanged; white point = parameter.into_xyz()", F.loc(b))
        n += 1
    except (Opaque, poly.TooBig, facts.AnchorMissing, KeyError) as ex:
        rep.fail("SHAPE-FIELD", "Parameters::into_any_white_point", "uninterpretable: %s" % ex)
    for name, nargs in (("default_static_wp", 1), ("default_dynamic_wp", 2)):
        try:
            bs = [b_ for p_, bl in F.bodies_by_path.items() if p_.startswith("cam16::parameters::Parameters::<") and p_.endswith("::" + name) for b_ in bl]
            if len(bs) != 1:
                raise facts.AnchorMissing("%s: %d bodies" % (name, len(bs)))
            b = bs[0]
            args = [ctx.sym("L_A")] if nargs == 1 else [ctx.sym("WP"), ctx.sym("L_A")]
            v, _ = S.ev.eval_body(b, args)
            ok = isinstance(v, Struct) and sym.val_eq(v.fields["adapting_luminance"], ctx.sym("L_A")) \
                and isinstance(v.fields["background_luminance"], RatFunc) and v.fields["background_luminance"].equals(ctx.num(Fr(1, 5))) \
                and isinstance(v.fields["surround"], Struct) and v.fields["surround"].path.endswith("Average") \
                and isinstance(v.fields["discounting"], Struct) and v.fields["discounting"].path.endswith("Auto")
            if nargs == 2:
                ok = ok and sym.val_eq(v.fields["white_point"], ctx.sym("WP"))
            rep.ob("CONST", "Parameters::" + name, ok, "documented defaults: Y_b = 0.2 (20 percent grey), average surround, automatic discounting; given L_A%s" % (" and white point" if nargs == 2 else ""), F.loc(b))
            n += 1
        except (Opaque, poly.TooBig, facts.AnchorMissing, KeyError) as ex:
            rep.fail("CONST", "Parameters::" + name, "uninterpretable: %s" % ex)
    # From<Parameters> for BakedParameters
    try:
        ims = [im for im in F.find_impls(trait="std::convert::From", self_adt="cam16::parameters::BakedParameters")]
        ims = [im for im in ims if "Parameters<" in im["trait_args_s"][0]]
        if len(ims) != 1:
            raise facts.AnchorMissing("From<Parameters> for BakedParameters: %d impls" % len(ims))
        b = F.impl_method(ims[0], "from")
        par = Struct("cam16::parameters::Parameters", {"white_point": ctx.sym("wp"), "adapting_luminance": ctx.sym("L_A"), "background_luminance": ctx.sym("Y_b"),
                                                       "surround": ctx.sym("sur"), "discounting": ctx.sym("disc")})
        v, _ = S.ev.eval_body(b, [par])
        from .c08 import _find_apps
        calls = _find_apps(v, lambda nm: nm.startswith("cam16::math::prepare_parameters"))
        ok = isinstance(v, Struct) and len(calls) >= 1 and {"L_A", "Y_b", "sur", "disc", "wp"} <= atoms_of(RatFunc.atom(calls[0], ctx.tab))
        rep.ob("SHAPE-FWD", "BakedParameters::from(Parameters)", ok, "inner = prepare_parameters(parameters.into_any_white_point())", F.loc(b))
        n += 1
    except (Opaque, poly.TooBig, facts.AnchorMissing, KeyError) as ex:
        rep.fail("SHAPE-FWD", "BakedParameters::from(Parameters)", "uninterpretable: %s" % ex)
    rep.floor("parameter plumbing obligations", n, 4)


def check_ucs(F, rep):
    """CAM16-UCS: J' = 1.7 J / (1 + 0.007 J), M' = ln(1 + 0.0228 M) / 0.0228 (Li et al. 2017), hue kept; the inverse undoes it exactly."""
    S = Session(F)
    ctx, R = S.ctx, S.R
    T = "convert::from_into_color_unclamped::FromColorUnclamped"
    fw = bw = None
    for im in F.find_impls(trait=T):
        tgt = im.get("self_adt") or ""
        src = sym._adt_of_type(im["trait_args_s"][0]) or ""
        if tgt.endswith("::Cam16UcsJmh") and src.endswith("::Cam16Jmh"):
            fw = F.impl_method(im, "from_color_unclamped")
        if tgt.endswith("::Cam16Jmh") and src.endswith("::Cam16UcsJmh"):
            bw = F.impl_method(im, "from_color_unclamped")
    if fw is None or bw is None:
        rep.fail("ANCHOR", "ucs", "Cam16Jmh <-> Cam16UcsJmh impls not found")
        return
    J, M, h = ctx.sym("J"), ctx.sym("M"), ctx.sym("h")
    hue = Struct("hues::Cam16Hue", {"0": h})
    try:
        jmh_path = [a["path"] for a in F.adts if a["path"].endswith("::Cam16Jmh")][0]
        ucs_path = [a["path"] for a in F.adts if a["path"].endswith("::Cam16UcsJmh")][0]
        v, _ = S.ev.eval_body(fw, [Struct(jmh_path, {"lightness": J, "colorfulness": M, "hue": hue})])
        exp = Struct(ucs_path, {"lightness": R.div(R.mul("1.7", J), R.add(1, R.mul("0.007", J))),
                                "colorfulness": R.div(R.f("ln", R.add(1, R.mul("0.0228", M))), "0.0228"), "hue": hue})
        check_value(rep, "ALG-REF", "Cam16UcsJmh<-Cam16Jmh", S, fw, v, exp, sample="J' = 1.7J/(1+0.007J), M' = ln(1+0.0228M)/0.0228, h' = h")
        back, _ = S.ev.eval_body(bw, [v])
        check_value(rep, "ALG-LAW", "Cam16Jmh<-Cam16UcsJmh∘Cam16UcsJmh<-Cam16Jmh = id", S, bw, back,
                    Struct(jmh_path, {"lightness": J, "colorfulness": M, "hue": hue}), sample="exact: rational identity for J, exp∘ln for M")
        v2, _ = S.ev.eval_body(bw, [Struct(ucs_path, {"lightness": J, "colorfulness": M, "hue": hue})])
        exp2 = Struct(jmh_path, {"lightness": R.div(J, R.sub("1.7", R.mul("0.007", J))),
                                 "colorfulness": R.div(R.sub(R.f("exp", R.mul("0.0228", M)), 1), "0.0228"), "hue": hue})
        check_value(rep, "ALG-REF", "Cam16Jmh<-Cam16UcsJmh", S, bw, v2, exp2, sample="J = J'/(1.7−0.007J'), M = (exp(0.0228M')−1)/0.0228")
        fwd2, _ = S.ev.eval_body(fw, [v2])
        check_value(rep, "ALG-LAW", "Cam16UcsJmh<-Cam16Jmh∘Cam16Jmh<-Cam16UcsJmh = id", S, fw, fwd2,
                    Struct(ucs_path, {"lightness": J, "colorfulness": M, "hue": hue}), sample="exact: rational identity for J', ln∘exp for M'")
    except (Opaque, poly.TooBig, IndexError) as ex:
        rep.fail("ALG-REF", "ucs", "uninterpretable: %s" % ex, F.loc(fw))
