"""C06 — component number-format conversion saturates, rounds to nearest and round-trips."""
import re
from fractions import Fraction as Fr

from . import alg, sym, poly, facts
from .common import Session, check_value, impl_methods, apps_of, atoms_of
from .sym import Struct, Tuple, Ite, Opaque
from .poly import RatFunc
from .c08 import _find_apps

EXPLANATION = (
    "Static, all-inputs: every IntoStimulus impl (7x7 format pairs) is evaluated symbolically and must have one of the forms whose "
    "range argument is discharged here by interval reasoning on the constants: float->uint = magic-number rounding "
    "cast(saturating_sub(to_bits(2^k + S), bits(2^k))) admissible only when MAX < 2^k, or cast(round(S)) (saturating `as`) for wider targets, "
    "with S = max(min(x·MAX, MAX), 0) in exactly this NaN-safe nesting (min first: NaN -> MAX; then the lower bound: negatives, -inf -> 0); "
    "uint->float = x/MAX (the u8 magic-number form is folded with from_bits(bits(2^k)+t) = 2^k+t for t in [0,255]); widening = (x << BITS) | x "
    "with MAX_target = MAX_source·(2^BITS+1) so that MAX -> MAX and narrowing(widening(x)) = round(x) = x; narrowing = "
    "cast(clamp(round(x·MAXt/MAXs), 0, MAXt)). into_format/from_format of every colour type map each component through FromStimulus/"
    "FromAngle with field correspondence. Not decided: nearest-integer claims that depend on the floating-point rounding of x·MAX."
    " CAST-NARROW: f64 -> f32 only as the last step of a conversion to f32; no u32 -> f32 cast."
)

UINTS = {"u8": 8, "u16": 16, "u32": 32, "u64": 64, "u128": 128}
FLOATS = ("f32", "f64")
K = {23: 0x4B000000, 52: 0x4330000000000000}


def umax(t):
    return 2 ** UINTS[t] - 1


def run(F, rep, tier="quick", extra=None, only=None):
    rep.trusted += ["rustc name resolution / type check", "operator table of rules/sym.py", "IEEE-754: from_bits(bits(2^k)+t) = 2^k+t for integers 0<=t<2^k (Hacker's Delight 17-1)",
                    "Rust semantics: float `min`/`max` return the non-NaN operand, `as` float->int saturates and maps NaN to 0, `clamp` propagates NaN"]
    S = Session(F)
    S.ctx.int_ranges["x"] = (0, 255)
    R = S.R
    x = S.ctx.sym("x")
    pairs = {}
    for im, ms in impl_methods(F, "stimulus::IntoStimulus"):
        src = im["self_s"]
        dst = im["trait_args_s"][0] if im["trait_args_s"] else "?"
        pairs[(src, dst)] = ms.get("into_stimulus")
    n = 0
    for src in list(FLOATS) + list(UINTS):
        for dst in list(FLOATS) + list(UINTS):
            key = "%s->%s" % (src, dst)
            b = pairs.get((src, dst)) or (pairs.get(("T", "T")) if src == dst else None)
            if b is None:
                rep.fail("ANCHOR", "stimulus:" + key, "IntoStimulus<%s> for %s not found" % (dst, src))
                continue
            n += 1
            S.ctx.int_ranges["x"] = (0, umax(src)) if src in UINTS else (0, 0)
            if src not in UINTS:
                S.ctx.int_ranges.pop("x", None)
            try:
                v, _ = S.ev.eval_body(b, [x])
            except (Opaque, poly.TooBig) as ex:
                rep.fail("STIM", "stimulus:" + key, "uninterpretable: %s" % ex, F.loc(b))
                continue
            loc = F.loc(b)
            if src == dst or (src in FLOATS and dst in FLOATS):
                check_value(rep, "STIM-ID", "stimulus:" + key, S, b, v, x, sample="identity / float width change")
            elif src in FLOATS and dst in UINTS:
                check_float_to_uint(rep, S, key, b, v, x, dst, loc)
            elif src in UINTS and dst in FLOATS:
                check_value(rep, "STIM-U2F", "stimulus:" + key, S, b, v, R.div(x, umax(src)), sample="x / MAX (0 -> 0, MAX -> 1 exactly)")
            else:
                check_uint_to_uint(rep, S, F, key, b, v, x, src, dst, loc, pairs)
    rep.floor("format pairs", n, 49)
    check_constants(F, rep, S)
    check_into_format(F, rep)
    check_format_from_impls(F, rep)
    check_cast_ranges(F, rep)
    return {"level": "proof"}


def scaled(R, x, M):
    """S = max(min(x·MAX, MAX), 0): min first (NaN -> MAX), then the lower clamp."""
    return R.max(R.min(R.mul(x, M), M), 0)


def check_float_to_uint(rep, S, key, b, v, x, dst, loc):
    R = S.R
    M = umax(dst)
    # extended-real and end-point runs of the same body (constant folding through the bit manipulation)
    from . import rng
    from .sym import NAN, PINF, NINF
    for name, val, want in (("NaN", NAN, M), ("+inf", PINF, M), ("-inf", NINF, 0), ("0", S.ctx.num(0), 0), ("1", S.ctx.num(1), M),
                            ("-200", S.ctx.num(-200), 0), ("2.5", S.ctx.num(Fr(5, 2)), M), ("0.5", S.ctx.num(Fr(1, 2)), None)):
        try:
            r, _ = S.ev.eval_body(b, [val])
            lo, hi = rng.interval(r, rng.Env())
            if want is None:
                ok = lo == hi and abs(lo - Fr(M, 2)) <= (1 if M < 2 ** 53 else Fr(M, 2 ** 52))
                exp_s = "nearest to MAX/2"
            else:
                ok = lo == hi == want
                exp_s = str(want)
            rep.ob("STIM-ENDS", "stimulus:%s:at:%s" % (key, name), ok, "%s -> %s (expected %s)" % (name, lo if lo == hi else (lo, hi), exp_s), loc)
        except (Opaque, poly.TooBig, rng.Unknown, rng.RangeViolation) as ex:
            rep.fail("STIM-ENDS", "stimulus:%s:at:%s" % (key, name), "not foldable: %s" % ex, loc)
    forms = []
    for k, bits in K.items():
        if M < 2 ** k:  # 2^k + S < 2^(k+1): the low mantissa bits of the sum are the rounded integer
            forms.append(("magic 2^%d" % k, R.f("cast:" + dst, R.f("int.saturating_sub", R.f("to_bits", R.add(2 ** k, scaled(R, x, M))), bits))))
    forms.append(("rounded", R.f("cast:" + dst, R.f("round", scaled(R, x, M)))))
    hit = None
    for name, exp in forms:
        try:
            if not alg.compare(v, exp, S.ctx):
                hit = name
                break
        except (Opaque, poly.TooBig):
            pass
    detail = ("form: %s; S = max(min(x·%d, %d), 0)" % (hit, M, M)) if hit else \
        "code %s is none of the admissible forms for MAX=%d: %s" % (alg._short(v, 260), M, [n_ for n_, _ in forms])
    rep.ob("STIM-F2U", "stimulus:" + key, hit is not None, detail, loc)


def check_uint_to_uint(rep, S, F, key, b, v, x, src, dst, loc, pairs):
    R = S.R
    bs, bd = UINTS[src], UINTS[dst]
    if bd > bs:
        # widening: one doubling step is (x << BITS) | x; longer steps compose through the next width
        if bd == 2 * bs:
            exp = R.f("bitor", R.f("shl", x, bs), x)
            ok = not alg.compare(v, exp, S.ctx)
            rep.ob("STIM-WIDEN", "stimulus:" + key, ok and umax(dst) == umax(src) * (2 ** bs + 1),
                   "(x << %d) | x = x·(2^%d+1); MAX·(2^%d+1) = MAX_target: %s" % (bs, bs, bs, alg._short(v, 160)), loc)
        else:
            # must be widen(next(x)) where next is the doubling step(s): every into_stimulus app in the value goes up the chain
            names = sorted(apps_of(v))
            chain_ok = all(("into_stimulus" in n_) or n_ in ("bitor", "shl") for n_ in names)
            half = "u%d" % (bd // 2)
            outer = R.f("bitor", R.f("shl", S.ctx.sym("h"), bd // 2), S.ctx.sym("h"))
            # structural: v = (h << bd/2) | h with h the conversion to the half width
            hs = _find_apps(v, lambda n_: n_.startswith("stimulus::IntoStimulus::into_stimulus<") and n_.endswith(",%s>" % half))
            ok = chain_ok and len(hs) >= 1
            if ok:
                h = S.ctx.app(hs[0].name, list(hs[0].args))
                exp = R.f("bitor", R.f("shl", h, bd // 2), h)
                ok = not alg.compare(v, exp, S.ctx)
            rep.ob("STIM-WIDEN", "stimulus:" + key, ok, "(h << %d) | h with h = into_stimulus::<%s>: %s" % (bd // 2, half, alg._short(v, 160)), loc)
    else:
        Ms, Mt = umax(src), umax(dst)
        exp = R.f("cast:" + dst, R.min(R.max(R.f("round", R.mul(x, Fr(Mt, Ms))), 0), Mt))
        ok = not alg.compare(v, exp, S.ctx)
        exact = Ms % Mt == 0
        rep.ob("STIM-NARROW", "stimulus:" + key, ok and exact,
               "cast(clamp(round(x·%d/%d), 0, %d)); MAXs/MAXt = %s exactly so narrowing(widening(x)) = round(x) = x: %s" % (Mt, Ms, Mt, Ms // Mt if exact else "not integral", alg._short(v, 160)), loc)


def check_constants(F, rep, S):
    for name, k in (("C23", 23), ("C52", 52)):
        try:
            b = F.fn("stimulus::" + name)
            v, _ = S.eval(b)
            rep.ob("CONST", "stimulus::" + name, isinstance(v, RatFunc) and v.is_const() and v.const_value() == K[k], "%s = bits of 2^%d" % (v, k), F.loc(b))
        except Exception as ex:
            rep.fail("CONST", "stimulus::" + name, "constant not found: %s" % ex)
    # Stimulus::max_intensity: floats 1, uints MAX
    for im, ms in impl_methods(F, "stimulus::Stimulus"):
        t = im["self_s"]
        b = ms.get("max_intensity")
        try:
            v, _ = S.eval(b)
            if t in UINTS:
                ok = isinstance(v, RatFunc) and v.is_const() and v.const_value() == umax(t)
            else:
                ok = isinstance(v, RatFunc) and v.is_const() and v.const_value() == 1
            rep.ob("CONST", "max_intensity[%s]" % t, ok, repr(v)[:80], F.loc(b))
        except (Opaque, poly.TooBig) as ex:
            rep.fail("CONST", "max_intensity[%s]" % t, str(ex), F.loc(b))
    # FromStimulus is the mirror image of IntoStimulus
    for im, ms in impl_methods(F, "stimulus::FromStimulus"):
        b = ms.get("from_stimulus")
        try:
            v, _ = S.eval(b, names=["o"])
            ok = re.match(r"^stimulus::IntoStimulus::into_stimulus<U,T>\(o\)$", repr(v)) is not None
            rep.ob("SHAPE-FWD", "FromStimulus=IntoStimulus", ok, repr(v), F.loc(b))
        except Opaque as ex:
            rep.fail("SHAPE-FWD", "FromStimulus=IntoStimulus", str(ex), F.loc(b))


def check_into_format(F, rep):
    """into_format / from_format: every component through FromStimulus (hue: FromAngle), field to same field."""
    S = Session(F)
    n = 0
    for b in F.bodies:
        if b["name"] not in ("into_format", "from_format"):
            continue
        im = b["_impl"]
        if im is None or im.get("trait"):
            continue
        adt = im.get("self_adt")
        if adt is None or adt not in F.adt_by_path or adt.startswith("hues::"):
            continue
        key = "%s[%s]" % (b["name"], im["self_s"])
        n += 1
        try:
            args = S.args(b, ["c"])
            v, _ = S.ev.eval_body(b, args)
        except (Opaque, poly.TooBig) as ex:
            rep.fail("SHAPE-FIELD", key, "uninterpretable: %s" % ex, F.loc(b))
            continue
        problems = []
        _field_map(v, "c", problems)
        rep.ob("SHAPE-FIELD", key, not problems, "; ".join(problems) if problems else alg._short(v, 200), F.loc(b))
    rep.floor("into_format/from_format methods", n, 34)


CONVERTERS = ("stimulus::FromStimulus::from_stimulus", "stimulus::IntoStimulus::into_stimulus", "angle_cast")


def _field_map(v, prefix, problems):
    if isinstance(v, Struct):
        for k, x in v.fields.items():
            if alg._is_phantom(x):
                continue
            _field_map(x, prefix + "." + k, problems)
        return
    if isinstance(v, RatFunc):
        at = {a for a in atoms_of(v) if not a.startswith("@")}
        aps = apps_of(v)
        if at != {prefix}:
            problems.append("%s is built from %s" % (prefix, sorted(at)))
        elif not aps or not all(a.startswith(CONVERTERS) or "into_format" in a or "from_format" in a for a in aps):
            problems.append("%s is not converted through FromStimulus/FromAngle: %s" % (prefix, sorted(aps)))
        elif len(aps) != 1:
            problems.append("%s is converted in %d steps (%s): every extra format hop rounds again" % (prefix, len(aps), sorted(aps)))
        return
    problems.append("%s: unexpected value %r" % (prefix, v))


PRIMS = ("u8", "u16", "u32", "u64", "u128", "f32", "f64")


def check_format_from_impls(F, rep):
    """FORMAT-HOP: a `From` impl between two number formats of one colour type converts in ONE step: every `into_format`/`from_format` call in
    its body produces the impl's own self type.  A detour through a third format (f64 -> f32 -> u8) rounds twice, which breaks
    `nearest integer to value x MAX` near rounding ties and the 53-bit claim."""
    n = 0
    for b in F.bodies:
        im = b.get("_impl")
        if b["name"] != "from" or not im or not str(im.get("trait")).endswith("convert::From") or not im.get("trait_args_s"):
            continue
        dst, src = im["self_s"], im["trait_args_s"][0]
        # same type constructor, differing only in primitive component types
        strip = lambda t: re.sub(r"\b(%s)\b" % "|".join(PRIMS), "#", re.sub(r"(rgb::rgb::Rgb<\w+)>", r"\1, f32>", t))
        if dst == src or strip(dst) != strip(src) or "#" not in strip(dst) or dst.startswith("std::boxed") or "[" in dst:
            continue
        n += 1
        key = "From<%s> for %s" % (src, dst)
        hops, comp = [], []
        for node in facts.walk_all(b["body"]):
            c = node.get("c") if isinstance(node, dict) else None
            if isinstance(c, dict) and "k" not in c and c.get("n") in ("into_format", "from_format"):
                hops.append((c["n"], F.S[node["t"]]))
            elif isinstance(c, dict) and "k" not in c and c.get("n") in ("into_stimulus", "from_stimulus"):
                comp.append((c["n"], F.S[node["t"]]))
        norm = lambda t: re.sub(r"(rgb::rgb::Rgb<\w+)>", r"\1, f32>", t)
        bad = [h for h in hops if norm(h[1]) != norm(dst)]
        dprims = set(re.findall(r"\b(%s)\b" % "|".join(PRIMS), norm(dst)))
        bad += [h for h in comp if h[1] not in dprims]
        hops = hops or comp
        if not hops:
            rep.ob("FORMAT-HOP", key, False, "no into_format/from_format call found in the body (construct not recognised)", F.loc(b))
        else:
            rep.ob("FORMAT-HOP", key, not bad, ("intermediate format(s): " + ", ".join("%s -> %s" % h for h in bad)) if bad else
                   "one hop: %s -> %s" % hops[0], F.loc(b))
    rep.floor("format From impls", n, 16)


FLOAT_LIMIT = {"f32": (2 - Fr(1, 2 ** 24)) * 2 ** 127, "f64": (2 - Fr(1, 2 ** 53)) * 2 ** 1023}   # values at or above round to infinity
INT_MAX = {"u8": 2 ** 8 - 1, "u16": 2 ** 16 - 1, "u32": 2 ** 32 - 1, "u64": 2 ** 64 - 1, "u128": 2 ** 128 - 1, "usize": 2 ** 64 - 1,
           "i8": 2 ** 7 - 1, "i16": 2 ** 15 - 1, "i32": 2 ** 31 - 1, "i64": 2 ** 63 - 1, "i128": 2 ** 127 - 1, "isize": 2 ** 63 - 1}


def _overflowing_cast(src, dst):
    return src in INT_MAX and dst in FLOAT_LIMIT and INT_MAX[src] >= FLOAT_LIMIT[dst]


def check_cast_ranges(F, rep):
    """CAST-RANGE: the algebra above treats `x as f32` as the identity on the reals.  That is false where the integer type's range exceeds the
    float's: `u128::MAX as f32` is +inf (2^128 - 1 rounds up past f32::MAX), so `x / MAX` would be 0 for every x and NaN at the top.  Every
    integer -> float `as` cast of the stimulus conversions must be between types where the whole integer range stays finite."""
    assert _overflowing_cast("u128", "f32") and not _overflowing_cast("u128", "f64") and not _overflowing_cast("u64", "f32")   # control
    n = 0
    bad = {}
    for b in F.bodies:
        if not b["file"].endswith("stimulus.rs") or "::test" in b["path"]:
            continue
        for node, _p in facts.walk(b["body"]):
            if node.get("k") != "cast" or not isinstance(node.get("e"), dict):
                continue
            dst, src = F.S[node["t"]], F.S[node["e"]["t"]] if isinstance(node["e"].get("t"), int) else "?"
            if src in INT_MAX and dst in FLOAT_LIMIT:
                n += 1
                if _overflowing_cast(src, dst):
                    bad.setdefault(b["path"], F.loc(b, node))
                if (src, dst) == ("u32", "f32"):
                    # 32 bits into a 24-bit significand: u32::MAX as f32 is 2^32.  (The 64/128-bit sources lose bits too, but into f64 and the
                    # property allows exactly that: 53 significant bits.)
                    rep.fail("CAST-RANGE", b["path"] + " u32->f32", "u32 as f32 rounds to 24 bits (u32::MAX becomes 2^32): the 32-bit conversions need f64 arithmetic", F.loc(b, node))
    # CAST-NARROW: the algebra also treats `x as f32` of an f64 as the identity.  A narrowing float cast is harmless only as the last step of a
    # conversion whose *result* is f32; inside a conversion to an integer it rounds the scale factor or the product before the nearest
    # integer is taken (`u32::MAX as f64 as f32` is 2^32, not 2^32 - 1)
    narrow = 0
    for b in F.bodies:
        if not b["file"].endswith("stimulus.rs") or "::test" in b["path"]:
            continue
        for node, _p in facts.walk(b["body"]):
            if node.get("k") == "cast" and isinstance(node.get("e"), dict) and isinstance(node["e"].get("t"), int) \
                    and F.S[node["e"]["t"]] == "f64" and F.S[node["t"]] == "f32":
                narrow += 1
                res_ty = F.ty(b["body"])
                if res_ty != "f32":
                    rep.fail("CAST-NARROW", b["path"], "an f64 value is narrowed to f32 inside a conversion whose result is %s: the value is rounded to 24 bits "
                             "before the integer is formed" % res_ty, F.loc(b, node))
    rep.ob("CAST-NARROW", "f64 -> f32 casts in stimulus.rs", True, "%d narrowing casts, each the last step of a conversion to f32" % narrow)
    rep.floor("f64 -> f32 casts in stimulus.rs", narrow, 4)
    for path, loc in sorted(bad.items()):
        rep.fail("CAST-RANGE", path, "casts u128 to f32: u128::MAX as f32 is +infinity, so the quotient by it is 0 (NaN at the top of the range) instead of x / MAX", loc)
    rep.ob("CAST-RANGE", "integer -> float casts in stimulus.rs", not bad, ("%d casts, none from a type whose maximum rounds to infinity in the target float" % n)
           if not bad else "%d of %d casts overflow" % (len(bad), n))
    rep.floor("integer -> float casts in stimulus.rs", n, 56)
