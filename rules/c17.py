"""C17 — results do not depend on the component representation (scalar f32/f64 vs SIMD lanes)."""
import itertools
import re
from fractions import Fraction as Fr

from . import alg, sym, poly, facts
from .common import Session, check_value, impl_methods, atoms_of, apps_of
from .sym import Struct, Tuple, Array, Ite, Opaque
from .poly import RatFunc

EXPLANATION = (
    "Static. One-lane abstraction: a SIMD vector is modelled by its generic lane and every `wide` primitive by the same-named scalar "
    "operation (trusted, except the primitives listed as approximate, which palette must not call). (NUM-SIB) every num/angle/bool_mask "
    "trait method implemented for f32x4/f32x8/f64x2/f64x4 has the same symbolic normal form as the f32/f64 implementation (lane loops, "
    "masks, is_normal, signum, powi/powu on concrete exponents included); (NUM-DENY) no body of palette reaches an approximate or "
    "NaN-divergent wide intrinsic; (SEL) masks are reduced to one bool only under the TypeId(Mask)==bool arm or in the listed slice "
    "reduction, LazySelect for masks evaluates both sides and blends; (LANES) every [Color<T>; N] <-> Color<V> conversion moves lane i of "
    "field f to element i's field f, hue and alpha included (N = 1, 2, 3); (ARMS) the scalar and the mask-generic arms of Rgb->Hsv and "
    "Rgb->Hsl are equal on every ordering of (r, g, b) (hue modulo 360) and equal the hexcone definition.  Not decided: f32 vs f64 "
    "accuracy, accuracy of wide's transcendental approximations."
    " NUM-SEM (integers): the integer impls of the num traits mean what the trait says (std Ord::min/max/clamp axiomatised). SEL allow-list entries name the reduction and its polarity."
)

SCALARS = ["f32", "f64"]
WIDE = {"wide::f32x4": "f32", "wide::f32x8": "f32", "wide::f64x2": "f64", "wide::f64x4": "f64"}

# wide primitives whose result differs from the exact lane-wise scalar operation (reason per entry)
DENY = {
    "recip": "f32x4/f32x8: rcpps, 12-bit approximation",
    "recip_sqrt": "f32x4/f32x8: rsqrtps, 12-bit approximation",
    "fast_max": "returns the second operand on NaN, unlike f32::max",
    "fast_min": "returns the second operand on NaN, unlike f32::min",
    "fast_round_int": "undefined for out-of-range lanes",
    "fast_trunc_int": "undefined for out-of-range lanes",
}
_W = r"(?:f32x4|f32x8|f64x2|f64x4)"
DENY_RE = re.compile(r"^(?:wide::(?:\w+::)*%s|wide::<impl wide::%s>|<wide::%s as wide::\w+>)::(%s)$" % (_W, _W, _W, "|".join(DENY)))

# mask reductions outside the TypeId(Mask)==bool arm, confirmed by reading
SEL_ALLOW = {   # function -> (the one reduction allowed there, un-negated; reason)
    "<[T] as IsWithinBounds>::is_within_bounds": ("is_false", "early exit once every lane is false: `&=` can only clear lanes, the result is unchanged"),
}


def _trait_of(F, im):
    t = im.get("trait")
    if isinstance(t, int):
        return F.S[t]
    return t


def sibling_groups(F):
    groups = {}
    for im in F.impls:
        st = im["self_s"]
        if st not in SCALARS and st not in WIDE and st != "bool":
            continue
        tr = _trait_of(F, im)
        if not tr or not tr.startswith(("num::", "angle::", "bool_mask::")):
            continue
        if tr.startswith("angle::") and im["trait_args_s"]:
            continue  # FromAngle<u8> etc.: scalar-only conversions (C11)
        for it in im["items"]:
            if it["kind"] == "Fn":
                b = F.body_by_id.get(it["i"])
                if b is not None:
                    groups.setdefault((tr, it["n"]), {}).setdefault(st, []).append(b)
    return groups


def _args_for(S, tr, m, n, variant):
    c = S.ctx
    xs = [c.sym("x%d" % i) for i in range(n)]
    if m == "from_array":
        return [Array([xs[0]])]
    if m in ("powi", "powu"):
        return [xs[0], c.num(variant)]
    if m == "from_bool":
        return [variant]
    return xs


def _variants(m):
    if m == "powi":
        return [-3, -1, 0, 1, 2, 3, 7]
    if m == "powu":
        return [0, 1, 2, 3, 4, 7, 12]
    if m == "from_bool":
        return [True, False]
    return [None]


def check_siblings(F, rep):
    groups = sibling_groups(F)
    n_groups = n_cmp = 0
    for (tr, m), d in sorted(groups.items()):
        wides = [t for t in d if t in WIDE]
        if not wides:
            continue
        n_groups += 1
        for variant in _variants(m):
            S = Session(F)
            S.ctx.expand_minmax = True
            S.ctx.strict_pow_domain = True   # a lane-wise cbrt and pow(x, 1/3) are different functions on negative lanes
            vals = {}
            bad = False
            for st, bs in sorted(d.items()):
                if len(bs) != 1:
                    rep.fail("NUM-SIB", "%s::%s[%s]" % (tr, m, st), "expected one implementation, found %d" % len(bs))
                    bad = True
                    continue
                b = bs[0]
                n = len(b.get("ins", []))
                try:
                    args = _args_for(S, tr, m, n, variant)
                    v, fr = S.ev.eval_body(b, args)
                    if m.endswith("_assign"):
                        v = S.final_self(fr, 0)
                    vals[st] = (v, b)
                except (Opaque, poly.TooBig, ZeroDivisionError, KeyError, IndexError) as ex:
                    rep.fail("NUM-SIB", "%s::%s[%s]" % (tr, m, st), "uninterpretable: %s" % ex, F.loc(b))
                    bad = True
            if bad:
                continue
            for w in wides:
                fam = WIDE[w]
                ref_t = fam if (fam in vals and not tr.startswith("bool_mask::")) else None
                key = "%s::%s[%s%s]" % (tr.split("::")[-1], m, w.split("::")[-1], "" if variant is None else ", %s" % variant)
                wv, wb = vals[w]
                if ref_t is None:
                    # mask-only traits (BoolMask/Select/LazySelect for SIMD masks): fixed lane semantics
                    exp = mask_semantics(S, tr, m, variant)
                    if exp is None:
                        rep.fail("NUM-SIB", key, "no scalar sibling and no lane semantics known for this method", F.loc(wb))
                        continue
                    check_value(rep, "NUM-SIB", key, S, wb, wv, exp, sample="lane semantics: %s" % alg._short(exp, 80))
                    n_cmp += 1
                    continue
                rv, rb = vals[ref_t]
                if m in ("clamp", "clamp_assign"):
                    # f32::clamp panics for min > max: compared on every ordering of (x, min, max) with min <= max
                    ok, det = clamp_regions(F, wb, rb, m)
                    rep.ob("NUM-SIB", key, ok, det, F.loc(wb))
                    n_cmp += 1
                    continue
                check_value(rep, "NUM-SIB", key, S, wb, wv, rv,
                            sample="= %s impl: %s" % (ref_t, alg._short(rv, 80)))
                n_cmp += 1
    rep.floor("num/angle/bool_mask methods implemented for wide types", n_groups, 58)
    rep.floor("wide-vs-scalar sibling comparisons", n_cmp, 276)
    # num::pow is the shared square-and-multiply: x^k for every k it is used with
    S = Session(F)
    b = F.fn("num::pow")
    ok = True
    for k in range(0, 33):
        v, _ = S.ev.eval_body(b, [S.ctx.sym("x"), S.ctx.num(k)])
        ok = ok and isinstance(v, RatFunc) and v.equals(S.ctx.sym("x") ** k)
    rep.ob("NUM-SIB", "num::pow(x, k) = x^k, k = 0..32", ok, "concrete evaluation of the while loops on each exponent", F.loc(b))


def clamp_regions(F, wb, rb, m):
    names = ["x0", "x1", "x2"]
    n = 0
    for lv in weak_orderings(names):
        rank = {nm: i for i, level in enumerate(lv) for nm in level}
        if rank["x1"] > rank["x2"]:
            continue
        pos = {"d%d" % i for i in range(1, len(lv))}
        S = Session(F, positive=pos)
        S.ctx.expand_minmax = True
        val = S.ctx.sym("m")
        vals = {}
        for i, level in enumerate(lv):
            if i > 0:
                val = val + S.ctx.sym("d%d" % i)
            for nm in level:
                vals[nm] = val
        out = []
        for b in (wb, rb):
            v, fr = S.ev.eval_body(b, [vals["x0"], vals["x1"], vals["x2"]])
            if m.endswith("_assign"):
                v = S.final_self(fr, 0)
            out.append(v)
        n += 1
        if not (isinstance(out[0], RatFunc) and isinstance(out[1], RatFunc) and out[0].equals(out[1])):
            return False, "on %s: SIMD impl gives %s, scalar impl %s" % (" < ".join(" = ".join(l) for l in lv), alg._short(out[0], 60), alg._short(out[1], 60))
    return True, "equal on all %d orderings of (x, min, max) with min <= max" % n


def mask_semantics(S, tr, m, variant):
    c = S.ctx
    x = [c.sym("x%d" % i) for i in range(3)]
    if m == "from_bool":
        return c.sym("mask:all-ones") if variant else c.num(0)
    if m == "is_true":
        return S.ev.as_bool(x[0])
    if m == "is_false":
        return sym.b_not(S.ev.as_bool(x[0]))
    if m == "select":
        return sym.mk_ite(S.ev.as_bool(x[0]), x[1], x[2])
    if m == "lazy_select":
        return sym.mk_ite(S.ev.as_bool(x[0]), S.ev.apply(x[1], [], None), S.ev.apply(x[2], [], None))
    return None


# ------------------------------------------------------------------------------------------------ who-may-call
def check_deny(F, rep):
    n_wide = 0
    hits = []
    for b in F.bodies:
        for node, _p in facts.walk(b["body"]):
            c = node.get("c")
            if not (isinstance(c, dict) and "d" in c):
                continue
            for p in {F.S[c["d"]], F.S[c["r"]] if "r" in c else ""}:
                if p.startswith("wide::") or "<wide::" in p or " wide::" in p:
                    n_wide += 1
                m = DENY_RE.search(p)
                if m:
                    hits.append((b["path"], m.group(1), p, F.loc(b, node)))
    for path, prim, p, loc in sorted(set(hits)):
        rep.fail("NUM-DENY", "%s calls wide %s" % (path, prim), "%s — %s; lanes would differ from the scalar result" % (p, DENY[prim]), loc)
    rep.ob("NUM-DENY", "no approximate wide intrinsic reachable", not hits, "%d resolved calls into `wide` scanned; denied: %s" % (n_wide, ", ".join(sorted(DENY))))
    rep.floor("resolved calls into the wide crate", n_wide, 300)
    # the matcher itself: must recognise the spellings rustc prints
    ctl = ["wide::f32x4::recip", "wide::<impl wide::f32x8>::recip_sqrt", "wide::f32x4_::f32x4::fast_max"]
    neg = ["wide::f32x4::sqrt", "num::Recip::recip", "num::wide::<impl num::Recip for wide::f32x4>::recip"]
    rep.ob("NUM-DENY", "matcher self-test", all(DENY_RE.search(x) for x in ctl) and not any(DENY_RE.search(x) for x in neg),
           "positive/negative control strings")


# ------------------------------------------------------------------------------------------------ mask reductions
def _is_typeid_mask_guard(F, ifnode):
    tys = []
    for n, _p in facts.walk(ifnode["c"]):
        c = n.get("c")
        if isinstance(c, dict) and "d" in c and F.S[c["d"]].endswith("any::TypeId::of"):
            tys.append(F.S[c["a"][0]])
    return len(tys) == 2 and "bool" in tys and any(t.endswith("::Mask") or t.endswith("HasBoolMask>::Mask") for t in tys)


def _lanes2(e, x):
    """Value of a boolean expression over a two-lane mask `self` = (x[0], x[1]); None = not understood."""
    k = e.get("k")
    if k == "block" and not e.get("s") and e.get("e"):
        return _lanes2(e["e"], x)
    if k in ("paren", "dropt"):
        return _lanes2(e["e"], x)
    if k == "un" and e.get("op") == "!":
        v = _lanes2(e["e"], x)
        return None if v is None else (not v)
    if k == "bin" and e.get("op") in ("&&", "||", "&", "|", "==", "!="):
        a, b = _lanes2(e["a"][0], x), _lanes2(e["a"][1], x)
        if a is None or b is None:
            return None
        return {"&&": a and b, "&": a and b, "||": a or b, "|": a or b, "==": a == b, "!=": a != b}[e["op"]]
    if k == "lit" and e["lit"]["lk"] == "bool":
        return bool(e["lit"]["v"])
    if k == "mcall" and not e.get("a"):
        r = e.get("r", {})
        if r.get("k") == "path" and r.get("res", {}).get("n") == "self":
            if e["n"] == "all":
                return x[0] and x[1]
            if e["n"] == "any":
                return x[0] or x[1]
            if e["n"] == "none":
                return not (x[0] or x[1])
    return None


def check_reduction_definitions(F, rep):
    """REDUCE: the one-lane abstraction of NUM-SIB cannot tell `none()` from `!all()`.  The two reductions of a SIMD mask are decided on a
    two-lane model instead (4 lane patterns): is_true = every lane set, is_false = NO lane set (`[T]::is_within_bounds` stops early on
    is_false, which is only sound if no lane can still be true)."""
    n = 0
    for im, ms in impl_methods(F, "bool_mask::BoolMask"):
        if im["self_s"] not in WIDE:
            continue
        for m, want, text in (("is_true", lambda a, b: a and b, "all lanes set"), ("is_false", lambda a, b: not (a or b), "no lane set")):
            b = ms.get(m)
            if b is None:
                rep.fail("REDUCE", "%s[%s]" % (m, im["self_s"]), "method missing")
                continue
            n += 1
            bad = []
            unknown = False
            for x in ((False, False), (False, True), (True, False), (True, True)):
                v = _lanes2(b["body"], x)
                if v is None:
                    unknown = True
                    break
                if v != want(*x):
                    bad.append("lanes %s -> %s" % (list(x), v))
            rep.ob("REDUCE", "%s[%s]" % (m, im["self_s"]), not unknown and not bad,
                   "reduction not understood (expected all()/any()/none() of self combined with !, &&, ||)" if unknown else
                   ("%s must mean `%s`: %s" % (m, text, "; ".join(bad)) if bad else "%s = %s on every lane pattern" % (m, text)), F.loc(b))
    rep.floor("SIMD mask reductions", n, 8)


def check_mask_reductions(F, rep):
    n = 0
    guarded = 0
    for b in F.bodies:
        if b["path"].startswith("bool_mask::"):
            continue
        for node, parents in facts.walk(b["body"]):
            c = node.get("c")
            if not (isinstance(c, dict) and "d" in c):
                continue
            d = F.S[c["d"]]
            if not d.endswith(("BoolMask::is_true", "BoolMask::is_false")):
                continue
            n += 1
            chain = list(parents) + [node]
            ok = False
            for i, p in enumerate(chain[:-1]):
                if p.get("k") == "if" and isinstance(p.get("c"), dict) and "k" in p["c"] and _is_typeid_mask_guard(F, p) and chain[i + 1] is p.get("th"):
                    ok = True
            short = b["path"]
            m = re.search(r"<impl (?:[\w:]+::)?(\w+)(?:<.*>)? for (\[T\]|[\w:<>, ]+)>::(\w+)$", b["path"])
            if m:
                short = "<%s as %s>::%s" % (m.group(2), m.group(1), m.group(3))
            if ok:
                guarded += 1
                continue
            negated = bool(parents) and parents[-1].get("k") == "un" and parents[-1].get("op") == "!"
            if short in SEL_ALLOW and d.endswith("::" + SEL_ALLOW[short][0]) and not negated:
                rep.ob("SEL", "%s: %s" % (short, d.split("::")[-1]), True, "allowed: " + SEL_ALLOW[short][1], F.loc(b, node))
                continue
            rep.fail("SEL", "%s reduces a mask with %s" % (short, d.split("::")[-1]),
                     "a mask is collapsed to one bool outside the `TypeId::of::<T::Mask>() == TypeId::of::<bool>()` arm: for SIMD components all "
                     "lanes would follow lane-combined control flow", F.loc(b, node))
    rep.ob("SEL", "mask reductions under the scalar-only arm", True, "%d is_true/is_false calls, %d inside a TypeId(Mask)==bool arm" % (n, guarded))
    rep.floor("is_true/is_false call sites", n, 10)


# ------------------------------------------------------------------------------------------------ lanes <-> array of colours
def _flatten(v, pre=""):
    out = {}
    if isinstance(v, Struct):
        if v.path.endswith("PhantomData"):
            return out
        for k, x in v.fields.items():
            out.update(_flatten(x, pre + "." + k if pre else k))
    else:
        out[pre] = v
    return out


def check_lanes(F, rep, ns=(1, 2, 3)):
    n_fw = n_bw = 0
    for im in F.find_impls(trait="std::convert::From"):
        ss, ta = im["self_s"], im["trait_args_s"][0]
        gens = im.get("generics") or []
        fw = re.match(r"^\[(.*); N\]$", ta)
        bw = re.match(r"^\[(.*); N\]$", ss)
        if not (fw or bw) or ss.startswith("&") or ta.startswith("&"):
            continue
        b = F.impl_method(im, "from")
        if b is None or not b["file"].endswith(".rs"):
            continue
        el = (fw or bw).group(1)
        other = ss if fw else ta
        # only colour <-> colour-array (same ADT on both sides, component type T vs V)
        if sym._adt_of_type(el) != sym._adt_of_type(other) or sym._adt_of_type(el) not in F.adt_by_path:
            continue
        key = "%s <- %s" % (ss, ta)
        ok = True
        det = ""
        try:
            for N in ns:
                S = Session(F)
                if fw:
                    cols = [alg.symbolic_arg(S.ctx, el, "c%d" % i) for i in range(N)]
                    v, _ = S.ev.eval_body(b, [Array(cols)], tsubst={"N": str(N)})
                    got = _flatten(v)
                    want = [_flatten(c_) for c_ in cols]
                    if set(got) != set(want[0]):
                        ok, det = False, "fields %s vs %s" % (sorted(got), sorted(want[0]))
                        break
                    for f, arr in got.items():
                        if not (isinstance(arr, Array) and len(arr.items) == N and all(sym.val_eq(arr.items[i], want[i][f]) for i in range(N))):
                            ok, det = False, "N=%d field %s = %s, expected lanes [c_i.%s]" % (N, f, alg._short(arr, 80), f)
                            break
                else:
                    a = alg.symbolic_arg(S.ctx, other, "v")
                    lanes = {}

                    def widen(x, pre=""):
                        if isinstance(x, Struct):
                            return Struct(x.path, {k: widen(y, pre + "." + k if pre else k) for k, y in x.fields.items()})
                        if isinstance(x, RatFunc):
                            lanes[pre] = [S.ctx.sym("%s#%d" % (pre, i)) for i in range(N)]
                            return Array(lanes[pre])
                        return x
                    v, _ = S.ev.eval_body(b, [widen(a)], tsubst={"N": str(N)})
                    if not (isinstance(v, Array) and len(v.items) == N):
                        ok, det = False, "N=%d result %s" % (N, alg._short(v, 80))
                        break
                    for i, item in enumerate(v.items):
                        got = _flatten(item)
                        if set(got) != set(lanes):
                            ok, det = False, "fields %s vs %s" % (sorted(got), sorted(lanes))
                            break
                        for f, x in got.items():
                            if not sym.val_eq(x, lanes[f][i]):
                                ok, det = False, "N=%d element %d field %s = %s, expected lane %d of %s" % (N, i, f, alg._short(x, 60), i, f)
                                break
                    if not ok:
                        break
                if not ok:
                    break
        except (Opaque, poly.TooBig, KeyError, IndexError) as ex:
            ok, det = False, "uninterpretable: %s" % ex
        if fw:
            n_fw += 1
        else:
            n_bw += 1
        rep.ob("LANES", key, ok, det or "lane i of every field (hue, alpha included) <-> element i, N in %s" % (list(ns),), F.loc(b))
    rep.floor("[Color<T>; N] -> Color<V> impls", n_fw, 60)
    rep.floor("Color<V> -> [Color<T>; N] impls", n_bw, 60)


# ------------------------------------------------------------------------------------------------ scalar arm vs mask-generic arm
def weak_orderings(names):
    """All weak orderings of names as lists of rank levels, e.g. [['red'], ['green','blue']] = red < green = blue."""
    out = []
    n = len(names)
    for ranks in itertools.product(range(n), repeat=n):
        used = sorted(set(ranks))
        if used != list(range(len(used))):
            continue
        out.append([[names[i] for i in range(n) if ranks[i] == lvl] for lvl in used])
    return out


def ordering_cases(ctx, with_negative=False):
    """(label, {channel: value}, positive atom names) covering every sign/ordering region of (red, green, blue) >= 0
    (and, optionally, channels below zero, which the conversions clamp to zero first)."""
    names = ["red", "green", "blue"]
    cases = []
    for base in ("zero", "pos"):
        for lv in weak_orderings(names):
            pos = set()
            val = ctx.num(0)
            if base == "pos":
                val = ctx.sym("m")
                pos.add("m")
            vals = {}
            for i, level in enumerate(lv):
                if i > 0:
                    val = val + ctx.sym("d%d" % i)
                    pos.add("d%d" % i)
                for nm in level:
                    vals[nm] = val
            label = " < ".join(" = ".join(l) for l in lv) + (" (min = 0)" if base == "zero" else " (min > 0)")
            cases.append((label, vals, pos))
    if with_negative:
        for k in (1, 2, 3):
            for neg in itertools.combinations(names, k):
                rest = [n_ for n_ in names if n_ not in neg]
                for base in ("zero", "pos"):
                    for lv in (weak_orderings(rest) if rest else [[]]):
                        pos = set()
                        vals = {}
                        for nm in neg:
                            vals[nm] = ctx.num(0) - ctx.sym("n_" + nm)
                            pos.add("n_" + nm)
                        val = ctx.num(0)
                        if base == "pos":
                            val = ctx.sym("m")
                            pos.add("m")
                        for i, level in enumerate(lv):
                            if i > 0:
                                val = val + ctx.sym("d%d" % i)
                                pos.add("d%d" % i)
                            for nm in level:
                                vals[nm] = val
                        label = "negative %s; " % (",".join(neg),) + " < ".join(" = ".join(l) for l in lv) + (" (min = 0)" if base == "zero" else " (min > 0)")
                        cases.append((label, vals, pos))
    return cases


def hexcone_reference(R, r, g, b, kind):
    """Smith (1978) hexcone RGB -> HSV / HSL on one ordering region (all comparisons decided by the region)."""
    ctx = R.ctx

    def decided(c):
        if c is True or c is False:
            return c
        raise Opaque("comparison not decided inside an ordering region: %r" % (c,))
    r, g, b = (R.max(x, 0) for x in (r, g, b))
    M = r
    for x in (g, b):
        M = x if decided(R.gt(x, M)) else M
    m = r
    for x in (g, b):
        m = x if decided(R.lt(x, m)) else m
    C = R.sub(M, m)
    if decided(R.eq(C, 0)):
        H = R.c(0)
    elif decided(R.eq(M, r)):
        H = R.mul(60, R.div(R.sub(g, b), C))
    elif decided(R.eq(M, g)):
        H = R.mul(60, R.add(R.div(R.sub(b, r), C), 2))
    else:
        H = R.mul(60, R.add(R.div(R.sub(r, g), C), 4))
    if kind == "hsv":
        S = R.c(0) if decided(R.eq(M, 0)) else R.div(C, M)
        return H, S, M
    L = R.div(R.add(M, m), 2)
    if decided(R.eq(C, 0)):
        S = R.c(0)
    else:
        # C / (1 - |2L - 1|): the sign of 2L - 1 is not fixed by the ordering; both forms are given
        S = ("hsl", C, L)
    return H, S, L


def _hue_equal_mod360(a, b):
    if not (isinstance(a, RatFunc) and isinstance(b, RatFunc)):
        return False
    return any(a.equals(b + RatFunc.const(Fr(360 * k), a.tab)) for k in (0, 1, -1))


def check_arms(F, rep, tier):
    from .c02 import conv_impls
    from .c01 import typeid_conds
    impls = conv_impls(F)
    for tgt, kind, third in (("hsv::Hsv", "hsv", "value"), ("hsl::Hsl", "hsl", "lightness")):
        lst = impls.get((tgt, "rgb::rgb::Rgb"), [])
        if len(lst) != 1:
            rep.fail("ANCHOR", "arms:%s<-Rgb" % kind, "expected one hand-written impl, found %d" % len(lst))
            continue
        im, b = lst[0]
        n_ok = 0
        probe = Session(F)
        cases = ordering_cases(probe.ctx, with_negative=(tier == "thorough"))
        for label, _vals, _pos in cases:
            S = Session(F, positive=_pos)
            S.ctx.expand_minmax = True
            # rebuild the case values in this session's atom table
            vals = {}
            for nm, rf in _vals.items():
                vals[nm] = _rebuild(S.ctx, rf)
            rgb = Struct("rgb::rgb::Rgb", {"red": vals["red"], "green": vals["green"], "blue": vals["blue"], "standard": Struct("PhantomData", {})})
            key = "%s<-Rgb [%s]" % (tgt.split("::")[-1], label)
            try:
                v, _ = S.ev.eval_body(b, [rgb])
                conds = typeid_conds(v)
                if len(conds) > 1:
                    rep.fail("ARMS", key, "expected one TypeId(Mask)==bool dispatch, found %d" % len(conds), F.loc(b))
                    continue
                if conds:
                    (c, _pair), = conds.items()
                    arms = {"scalar": sym.restrict(v, c, True), "mask-generic": sym.restrict(v, c, False)}
                else:
                    arms = {"scalar = mask-generic": v}  # both arms normalise to the same value on this region
                Href, Sref, Tref = hexcone_reference(S.R, vals["red"], vals["green"], vals["blue"], kind)
                bad = []
                for an, av in arms.items():
                    av = _push_down(av)
                    if not isinstance(av, Struct):
                        bad.append("%s arm: not a colour value (%s)" % (an, alg._short(av, 80)))
                        continue
                    h = av.fields["hue"].fields["0"] if isinstance(av.fields["hue"], Struct) else av.fields["hue"]
                    s_, t_ = av.fields["saturation"], av.fields[third]
                    if not _leafwise(h, lambda x: _hue_equal_mod360(x, Href)):
                        bad.append("%s arm: hue %s, hexcone %s" % (an, alg._short(h, 80), alg._short(Href, 60)))
                    if not _sat_equal(S, s_, Sref):
                        bad.append("%s arm: saturation %s, hexcone %s" % (an, alg._short(s_, 80), Sref if not isinstance(Sref, RatFunc) else alg._short(Sref, 60)))
                    if not _leafwise(t_, lambda x: isinstance(x, RatFunc) and x.equals(Tref)):
                        bad.append("%s arm: %s %s, hexcone %s" % (an, third, alg._short(t_, 80), alg._short(Tref, 60)))
                if bad:
                    rep.fail("ARMS", key, "; ".join(bad), F.loc(b))
                else:
                    n_ok += 1
                    rep.ob("ARMS", key, True, "both arms: H = %s (mod 360), S, %s equal the hexcone definition" % (alg._short(Href, 50), third), F.loc(b))
            except (Opaque, poly.TooBig, KeyError) as ex:
                rep.fail("ARMS", key, "uninterpretable: %s" % ex, F.loc(b))
        rep.floor("ordering regions of (r,g,b) for %s" % tgt, len(cases), 26)


def _push_down(v):
    """ite(c, Struct{f: a}, Struct{f: b}) -> Struct{f: ite(c, a, b)}"""
    if isinstance(v, Ite):
        t, f = _push_down(v.t), _push_down(v.f)
        if isinstance(t, Struct) and isinstance(f, Struct) and t.path == f.path and t.fields.keys() == f.fields.keys():
            return Struct(t.path, {k: _push_down(sym.mk_ite_c(v.c, t.fields[k], f.fields[k])) for k in t.fields})
        return v
    return v


def _rebuild(ctx, rf):
    """Re-create a linear combination of named atoms in another context."""
    out = ctx.num(0)
    d = poly.p_const_value(rf.den)
    for m, c in rf.num.items():
        t = ctx.num(Fr(c) / d)
        for k, e in m:
            t = t * (ctx.sym(poly.atom_by_id(k).name) ** e)
        out = out + t
    return out


def _leafwise(v, pred):
    if isinstance(v, Ite):
        return _leafwise(v.t, pred) and _leafwise(v.f, pred)
    return pred(v)


def _sat_equal(S, s_, Sref):
    R = S.R
    if not isinstance(Sref, RatFunc):
        _tag, C, L = Sref
        # C / (1 - |2L - 1|)  =  C / (2L) for 2L <= 1,  C / (2 - 2L) otherwise
        Sref = R.ite(R.le(R.mul(2, L), 1), R.div(C, R.mul(2, L)), R.div(C, R.sub(2, R.mul(2, L))))
    try:
        return not alg.compare(s_, Sref, S.ctx)
    except (Opaque, poly.TooBig):
        return False


# ------------------------------------------------------------------------------------------------ scalar impls vs their meaning
THOROUGH_CONFIGS = ["nostd"]

LIBM = {"sinf": "sin", "cosf": "cos", "tanf": "tan", "asinf": "asin", "acosf": "acos", "atanf": "atan", "atan2f": "atan2", "atan2": "atan2",
        "fabsf": "abs", "fabs": "abs", "sqrtf": "sqrt", "cbrtf": "cbrt", "powf": "powf", "pow": "powf", "expf": "exp", "logf": "ln", "log": "ln",
        "roundf": "round", "floorf": "floor", "ceilf": "ceil", "hypotf": "hypot", "fmaf": "mul_add", "fma": "mul_add", "copysignf": "copysign",
        "sincosf": "sin_cos", "sincos": "sin_cos",
        # f64 spellings
        "sin": "sin", "cos": "cos", "tan": "tan", "asin": "asin", "acos": "acos", "atan": "atan", "sqrt": "sqrt", "cbrt": "cbrt", "exp": "exp",
        "round": "round", "floor": "floor", "ceil": "ceil", "hypot": "hypot", "copysign": "copysign"}


def scalar_meaning(S, tr, m, x):
    """What a num/angle trait method means on a real number (the reference the scalar impls, std or libm, must have)."""
    R = S.R
    t = tr.split("::")[-1]
    one = {"sin": "sin", "cos": "cos", "tan": "tan", "asin": "asin", "acos": "acos", "atan": "atan", "abs": "abs", "sqrt": "sqrt", "cbrt": "cbrt",
           "exp": "exp", "ln": "ln", "round": "round", "floor": "floor", "ceil": "ceil", "signum": "signum"}
    if m in one and t in ("Trigonometry", "Abs", "Sqrt", "Cbrt", "Exp", "Ln", "Round", "Signum"):
        return R.f(one[m], x[0])
    if (t, m) == ("Trigonometry", "atan2"):
        return R.f("atan2", x[0], x[1])
    if (t, m) == ("Trigonometry", "sin_cos"):
        return Tuple([R.f("sin", x[0]), R.f("cos", x[0])])
    if (t, m) == ("Powf", "powf"):
        return R.powf(x[0], x[1])
    if (t, m) == ("Recip", "recip"):
        return R.div(1, x[0])
    if (t, m) == ("Hypot", "hypot"):
        return R.sqrt(R.add(R.mul(x[0], x[0]), R.mul(x[1], x[1])))
    if (t, m) == ("MulAdd", "mul_add"):
        return R.add(R.mul(x[0], x[1]), x[2])
    if (t, m) == ("MulSub", "mul_sub"):
        return R.sub(R.mul(x[0], x[1]), x[2])
    if (t, m) == ("MinMax", "min"):
        return R.min(x[0], x[1])
    if (t, m) == ("MinMax", "max"):
        return R.max(x[0], x[1])
    if (t, m) == ("Clamp", "clamp_min"):
        return R.max(x[0], x[1])
    if (t, m) == ("Clamp", "clamp_max"):
        return R.min(x[0], x[1])
    if (t, m) == ("Zero", "zero"):
        return R.c(0)
    if (t, m) == ("One", "one"):
        return R.c(1)
    if (t, m) in (("Real", "from_f64"), ("FromScalar", "from_scalar")):
        return x[0]
    if t == "PartialCmp":
        op = {"lt": "<", "lt_eq": "<=", "eq": "==", "neq": "!=", "gt_eq": ">=", "gt": ">"}.get(m)
        return S.ctx.cmp(op, x[0], x[1]) if op else None
    if (t, m) == ("RealAngle", "degrees_to_radians"):
        return R.f("deg2rad", x[0])
    if (t, m) == ("RealAngle", "radians_to_degrees"):
        return R.f("rad2deg", x[0])
    if (t, m) == ("HalfRotation", "half_rotation"):
        return R.c(180)
    if (t, m) == ("FullRotation", "full_rotation"):
        return R.c(360)
    return None


def libm_hook(spath, rpath, args, c, ev, fr):
    m = re.match(r"^libm::(?:\w+::)*(\w+)$", spath)
    if not m or m.group(1) not in LIBM:
        return NotImplemented
    op = LIBM[m.group(1)]
    ctx = ev.ctx
    a = [ev.deref(x) for x in args]
    if op == "sin_cos":
        return Tuple([ctx.sapp("sin", [a[0]]), ctx.sapp("cos", [a[0]])])
    if op == "hypot":
        return ctx.sapp("sqrt", [ev.binop("+", ev.binop("*", a[0], a[0]), ev.binop("*", a[1], a[1]))])
    if op == "mul_add":
        return ev.binop("+", ev.binop("*", a[0], a[1]), a[2])
    if op == "copysign":
        return ev.binop("*", ctx.sapp("abs", [a[0]]), ctx.sapp("signum", [a[1]]))
    return ctx.sapp(op, a)


def check_scalar_semantics(F, rep, label):
    """f32/f64 implementations of the num/angle traits (std methods, or libm functions in the no_std configuration) mean what the trait says."""
    groups = sibling_groups(F)
    n = 0
    for (tr, m), d in sorted(groups.items()):
        for st in SCALARS:
            for b in d.get(st, []):
                S = Session(F)
                S.ctx.expand_minmax = False
                S.ctx.call_hook = libm_hook
                nin = len(b.get("ins", []))
                x = [S.ctx.sym("x%d" % i) for i in range(nin)]
                exp = scalar_meaning(S, tr, m, x)
                if exp is None:
                    continue
                key = "%s::%s[%s, %s]" % (tr.split("::")[-1], m, st, label)
                try:
                    v, _ = S.ev.eval_body(b, x)
                    check_value(rep, "NUM-SEM", key, S, b, v, exp, sample="= %s" % alg._short(exp, 60))
                    n += 1
                except (Opaque, poly.TooBig, KeyError, IndexError) as ex:
                    rep.fail("NUM-SEM", key, "uninterpretable: %s" % ex, F.loc(b))
    return n


INTS = ("u8", "u16", "u32", "u64", "u128", "i8", "i16", "i32", "i64", "i128", "usize", "isize")


def ord_hook(spath, rpath, args, c, ev, fr):
    """std's total order on integers: Ord::min / max / clamp (trusted as documented)"""
    import re
    m = re.search(r"cmp::(?:Ord|impls::<impl std::cmp::Ord for \w+>)::(min|max|clamp)$", spath) or re.search(r"cmp::(?:Ord|impls::<impl (?:std|core)::cmp::Ord for \w+>)::(min|max|clamp)$", rpath or "")
    if not m:
        return NotImplemented
    a = [ev.deref(x) for x in args]
    ctx = ev.ctx
    if m.group(1) == "clamp":
        return ctx.sapp("min", [ctx.sapp("max", [a[0], a[1]]), a[2]])
    return ctx.sapp(m.group(1), a)


def int_meaning(S, tr, m, x):
    R = S.R
    t = tr.split("::")[-1]
    if (t, m) == ("Clamp", "clamp"):
        return R.min(R.max(x[0], x[1]), x[2])
    if (t, m) == ("MinMax", "min_max"):
        return alg.mk_ite(R.gt(x[0], x[1]), Tuple([x[1], x[0]]), Tuple([x[0], x[1]]))   # (smaller, larger)
    if (t, m) == ("IsValidDivisor", "is_valid_divisor"):
        return S.ctx.cmp("!=", x[0], S.ctx.num(0))
    if (t, m) == ("SaturatingAdd", "saturating_add"):
        return R.f("int.saturating_add", x[0], x[1])
    if (t, m) == ("SaturatingSub", "saturating_sub"):
        return R.f("int.saturating_sub", x[0], x[1])
    return scalar_meaning(S, tr, m, x)


def check_integer_semantics(F, rep):
    """NUM-SEM (integers): integer components (Srgb<u8>, packed colours, clamping and bounds of integer colours) go through palette's own
    `num` impls for the integer types; each means what the trait says (min is min, clamp is max-then-min, a valid divisor is non-zero)."""
    n = 0
    for im in F.impls:
        st = im["self_s"]
        tr = _trait_of(F, im)
        if st not in INTS or not tr or not tr.startswith("num::"):
            continue
        for it in im["items"]:
            b = F.body_by_id.get(it["i"]) if it["kind"] == "Fn" else None
            if b is None:
                continue
            m = it["n"]
            S = Session(F)
            S.ctx.expand_minmax = False
            S.ctx.call_hook = ord_hook
            nin = len(b.get("ins", []))
            x = [S.ctx.sym("x%d" % i) for i in range(nin)]
            if m in ("from_array", "into_array", "powu", "clamp_assign", "clamp_min_assign", "clamp_max_assign"):
                continue   # lane plumbing (C17 LANES) / assigning twins (C10) / integer power (not used by a conversion)
            exp = int_meaning(S, tr, m, x)
            key = "%s::%s[%s]" % (tr.split("::")[-1], m, st)
            if exp is None:
                rep.fail("NUM-SEM", key, "integer impl of a num trait method without a stated meaning", F.loc(b))
                continue
            try:
                v, _ = S.ev.eval_body(b, x)
                check_value(rep, "NUM-SEM", key, S, b, v, exp, sample="= %s" % alg._short(exp, 60))
                n += 1
            except (Opaque, poly.TooBig, KeyError, IndexError) as ex:
                rep.fail("NUM-SEM", key, "uninterpretable: %s" % ex, F.loc(b))
    rep.floor("integer num impls with a stated meaning", n, 80)


def run(F, rep, tier="quick", extra=None, only=None):
    rep.trusted += ["rustc name resolution / type check", "operator table of rules/sym.py",
                    "one-lane abstraction: every primitive of the `wide` crate that palette calls (listed in evidence) acts lane by lane as the same-named "
                    "scalar operation; masks are all-ones / zero lanes; Into between a vector and the array of its lanes preserves lane order",
                    "Smith (1978) hexcone model as transcribed in rules/c17.py"]
    check_siblings(F, rep)
    check_deny(F, rep)
    check_mask_reductions(F, rep)
    check_reduction_definitions(F, rep)
    check_lanes(F, rep, ns=(1, 2, 3) if tier == "thorough" else (2,))
    check_arms(F, rep, tier)
    n = check_scalar_semantics(F, rep, "std")
    rep.floor("scalar trait methods with a stated meaning (std)", n, 60)
    for tag, F2 in (extra or {}).items():
        n2 = check_scalar_semantics(F2, rep, tag)
        rep.floor("scalar trait methods with a stated meaning (%s)" % tag, n2, 60)
    check_integer_semantics(F, rep)
    return {"level": "other", "explanation": EXPLANATION}
