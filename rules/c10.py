"""C10 — colour operators obey their algebra and all their variants agree."""
import re
from fractions import Fraction as Fr

from . import alg, sym, poly
from .common import Session, check_value, impl_methods, apps_of, atoms_of
from .sym import Struct, Tuple, Ite, Opaque
from .poly import RatFunc
from .c03 import app_canon
from .c08 import _find_apps

EXPLANATION = (
    "Static, all-inputs: every operator body (macro output, resolved HIR) is evaluated symbolically. VAR: for each by-value/assigning trait "
    "pair on the same type the final *self of the assigning form must equal the by-value result as exact rational normal forms; wrappers "
    "(Alpha, PreAlpha, slices, blanket Darken/Desaturate) must forward to the same-named operator with the same (or negated) argument and "
    "leave alpha alone. REF: mix = a+(b-a)·clamp(f,0,1) with the hue along normalize_signed(b.h-a.h); lighten/saturate = "
    "clamp(c + max(0,(f>=0 ? max-c : c))·f, min, max) with min/max the type's accessors, fixed forms clamp(c + max·amount); HWB moves "
    "whiteness and blackness in opposite directions; colour-scheme helpers use the documented hue shifts; arithmetic impls apply the "
    "trait's operator to every component. Not decided: monotonicity/boundedness under rounding."
    " Colour schemes on Alpha equal the bare colour's scheme result by result; SaturatingAdd/Sub apply the same-named scalar operation to every component."
)

PAIRS = [
    ("Mix", "MixAssign", [("mix", "mix_assign")]),
    ("Lighten", "LightenAssign", [("lighten", "lighten_assign"), ("lighten_fixed", "lighten_fixed_assign")]),
    ("Saturate", "SaturateAssign", [("saturate", "saturate_assign"), ("saturate_fixed", "saturate_fixed_assign")]),
    ("ShiftHue", "ShiftHueAssign", [("shift_hue", "shift_hue_assign")]),
    ("WithHue", "SetHue", [("with_hue", "set_hue")]),
    ("Clamp", "ClampAssign", [("clamp", "clamp_assign")]),
    ("std::ops::Add", "std::ops::AddAssign", [("add", "add_assign")]),
    ("std::ops::Sub", "std::ops::SubAssign", [("sub", "sub_assign")]),
    ("std::ops::Mul", "std::ops::MulAssign", [("mul", "mul_assign")]),
    ("std::ops::Div", "std::ops::DivAssign", [("div", "div_assign")]),
    ("num::SaturatingAdd", None, []),
]


def short(p):
    return (p or "").split("::")[-1]


def accessor_values(F, S, adt):
    acc = {}
    for b in F.bodies:
        im = b["_impl"]
        if im is None or im.get("trait") or im.get("self_adt") != adt:
            continue
        m = re.match(r"^(min|max)(?:_srgb)?_(\w+)$", b["name"])
        if m and not b.get("params"):
            try:
                v, _ = S.eval(b)
                if isinstance(v, RatFunc):
                    acc.setdefault(m.group(2), {}).setdefault(m.group(1), v)
            except (Opaque, poly.TooBig):
                pass
    return acc


def _limits_from_bounds(F, S, adt, acc):
    """Components without min_/max_ accessors take their limits from IsWithinBounds' thresholds."""
    from .c03 import thresholds
    for im, ms in impl_methods(F, "IsWithinBounds"):
        if im.get("self_adt") != adt:
            continue
        b = ms.get("is_within_bounds")
        try:
            S.ctx.expand_minmax = True
            B = S.eval(b, names=["c"])[0]
        except (Opaque, poly.TooBig):
            return
        finally:
            S.ctx.expand_minmax = False
        for atom, ts in thresholds(B, S).items():
            fld = atom.split(".", 1)[1] if "." in atom else atom
            if fld not in acc and len(ts) == 2:
                acc[fld] = {"min": S.ctx.num(min(ts)), "max": S.ctx.num(max(ts))}


def is_scalar_field(v):
    return isinstance(v, RatFunc)


SAT = {"num::SaturatingAdd": "saturating_add", "num::SaturatingSub": "saturating_sub"}

def check_saturating(F, rep, S):
    """SHAPE-OP (saturating): `SaturatingAdd/SaturatingSub` on a colour, a hue or an Alpha apply the scalar operation *of the same name* to
    every component with the matching component (or the scalar) of the other operand, in that operand order."""
    n = 0
    for tr, m in SAT.items():
        for im, ms in impl_methods(F, tr):
            adt = im.get("self_adt")
            if adt not in F.adt_by_path or adt.startswith(("cast::", "convert::")):
                continue
            b = ms.get(m)
            if b is None:
                continue
            key = "%s[%s%s]" % (tr.split("::")[-1], im["self_s"], "," + im["trait_args_s"][0] if im["trait_args_s"] else "")
            n += 1
            try:
                args = S.args(b, ["a", "b"])
                v, _ = S.ev.eval_body(b, args)
            except (Opaque, poly.TooBig) as ex:
                rep.fail("SHAPE-OP", key, "uninterpretable: %s" % ex, F.loc(b))
                continue
            a, o = args
            problems = []

            def walk(va, aa, oo, path):
                if alg._is_phantom(aa):
                    return
                if isinstance(aa, Struct) and not isinstance(va, Struct) and aa.path.startswith("hues::"):
                    # the hue newtype's own saturating impl (checked as its own instance), applied to the two hues / the hue and the scalar
                    r = repr(va)
                    hue_a = "%s{0: %s}" % (aa.path.split("::")[-1], repr(aa.fields["0"]))
                    hue_o = ("%s{0: %s}" % (oo.path.split("::")[-1], repr(oo.fields["0"]))) if isinstance(oo, Struct) else repr(oo)
                    if not re.match(r"^(?:[\w:<> ,]*::)?%s(?:<[^()]*>)?\(%s, %s\)$" % (m, re.escape(hue_a), re.escape(hue_o)), r):
                        problems.append("%s = %s, expected %s(%s, %s)" % (path, r[:100], m, hue_a, hue_o))
                    return
                if isinstance(aa, Struct):
                    if not isinstance(va, Struct) or set(va.fields) != set(aa.fields):
                        problems.append("%s: result is not a %s literal" % (path or "self", aa.path.split("::")[-1]))
                        return
                    for k, x in aa.fields.items():
                        y = oo.fields[k] if isinstance(oo, Struct) and k in oo.fields else oo
                        walk(va.fields[k], x, y, (path + "." + k) if path else k)
                    return
                r = repr(va)
                mm = re.match(r"^(?:[\w:<> ,]*::)?(saturating_\w+)(?:<[^()]*>)?\((.*)\)$", r)
                # uninterpreted scalar op: name and the two operands in order
                want_args = "%s, %s" % (repr(aa), repr(oo))
                if not mm or mm.group(1) != m or mm.group(2) != want_args:
                    problems.append("%s = %s, expected %s(%s)" % (path, r[:80], m, want_args))
            walk(v, a, o, "")
            rep.ob("SHAPE-OP", key, not problems, "; ".join(problems[:3]) if problems else "every component: %s with the matching component" % m, F.loc(b), nontrivial=False)
    rep.floor("saturating impls on colours, hues and Alpha", n, 100)


def run(F, rep, tier="quick", extra=None, only=None):
    rep.trusted += ["rustc name resolution / type check", "operator table of rules/sym.py", "formulas of DESIGN Appendix A.10 as transcribed in rules/c10.py"]
    rep.assumptions += ["generic float component type: Stimulus::max_intensity() = 1 (checked by C03 STIM-MAX)"]
    S = Session(F, app_canon=app_canon, positive=("wp.x", "wp.y", "wp.z"))
    check_variants(F, rep, S)
    check_mix(F, rep, S)
    check_increase(F, rep, S)
    check_blankets(F, rep, S)
    check_wrappers(F, rep, S)
    check_schemes(F, rep, S)
    check_arith(F, rep, S)
    check_saturating(F, rep, Session(F))
    return {"level": "other"}


# ------------------------------------------------------------------------------ VAR-1
def check_variants(F, rep, S):
    n = 0
    for tr, atr, methods in PAIRS:
        if atr is None:
            continue
        vals = impl_methods(F, tr)
        assigns = impl_methods(F, atr)
        by_self = {}
        for im, ms in assigns:
            by_self.setdefault((im["self_s"], tuple(im["trait_args_s"])), []).append((im, ms))
        for im, ms in vals:
            self_s = im["self_s"]
            if self_s.startswith("&") or not (im.get("self_adt") in F.adt_by_path):
                continue
            if im.get("self_adt", "").startswith(("cast::", "convert::", "blend::blend")):
                continue
            cands = by_self.get((self_s, tuple(im["trait_args_s"])), [])
            if len(cands) != 1:
                # hue types and a few scalars have no assigning twin on the same argument type
                continue
            aim, ams = cands[0]
            for m, am in methods:
                bv, ba = ms.get(m), ams.get(am)
                if bv is None or ba is None:
                    rep.fail("ANCHOR", "var:%s:%s" % (self_s, m), "method missing in pair")
                    continue
                key = "%s::%s≡%s [%s%s]" % (short(tr), m, am, self_s, ("<" + ",".join(im["trait_args_s"]) + ">") if im["trait_args_s"] else "")
                n += 1
                try:
                    args = S.args(bv)
                    V = S.ev.eval_body(bv, args)[0]
                    _, fr = S.ev.eval_body(ba, args)
                    VA = S.final_self(fr)
                except (Opaque, poly.TooBig) as ex:
                    rep.fail("VAR-1", key, "uninterpretable: %s" % ex, F.loc(ba))
                    continue
                # Alpha / generic wrappers: the assigning form shows up as `mut0:<Trait>Assign::<m>_assign` of the same args
                V2 = _canon_assign_names(V)
                VA2 = _canon_assign_names(VA)
                check_value(rep, "VAR-1", key, S, ba, VA2, V2, sample="final *self of the assigning form = by-value result")
    rep.floor("by-value/assign pairs", n, 150)


_ASSIGN_RENAMES = [
    (r"mut0:(\w+)Assign::(\w+)_assign<", r"\1::\2<"),
    (r"mut0:SetHue::set_hue<", r"WithHue::with_hue<"),
    (r"mut0:std::ops::(\w+)Assign::(\w+)_assign<", r"std::ops::\1::\2<"),
]


def _canon_assign_names(v):
    """Map the uninterpreted update `mut0:XAssign::m_assign<..>(self, args)` produced by a wrapper's
    assigning form onto the by-value operator name `X::m<..>(self, args)` (frozen rename table)."""
    def ren(name):
        for pat, rep_ in _ASSIGN_RENAMES:
            name2 = re.sub(pat, rep_, name)
            if name2 != name:
                return name2
        return name

    def conv(x):
        if isinstance(x, RatFunc):
            return _rename_apps(x, ren)
        if isinstance(x, Ite):
            return sym.mk_ite_c(x.c, conv(x.t), conv(x.f))
        if isinstance(x, Struct):
            return Struct(x.path, {k: conv(y) for k, y in x.fields.items()})
        if isinstance(x, Tuple):
            return Tuple([conv(y) for y in x.items])
        if isinstance(x, sym.Array):
            return sym.Array([conv(y) for y in x.items])
        return x
    return conv(v)


def _rename_apps(rf, ren):
    """Rebuild a RatFunc with application atoms renamed (top-level atoms only)."""
    tab = rf.tab
    ids = rf.atoms()
    sub = {}
    for i in ids:
        a = poly.atom_by_id(i)
        if a.args:
            nn = ren(a.name)
            if nn != a.name:
                na = tab.app(nn, list(a.args))
                poly.register_atom(na)
                sub[i] = na.id
    if not sub:
        return rf

    def conv(p):
        r = {}
        for m, c in p.items():
            m2 = tuple(sorted((sub.get(k, k), e) for k, e in m))
            r[m2] = r.get(m2, 0) + c
        return {m: c for m, c in r.items() if c != 0}
    return RatFunc(conv(rf.num), conv(rf.den), tab)


# ------------------------------------------------------------------------------ mix
def check_mix(F, rep, S):
    R = S.R
    n = 0
    for im, ms in impl_methods(F, "Mix"):
        adt = im.get("self_adt")
        if adt not in F.adt_by_path or short(adt) in ("Alpha", "PreAlpha"):
            continue
        b = ms.get("mix")
        key = "mix:" + short(adt)
        n += 1
        try:
            args = S.args(b, ["a", "b", "f"])
            a, o, f = args
            V = S.ev.eval_body(b, args)[0]
        except (Opaque, poly.TooBig) as ex:
            rep.fail("ALG-REF", key, "uninterpretable: %s" % ex, F.loc(b))
            continue
        t = R.clamp(f, 0, 1)
        exp = {}
        for k, x in a.fields.items():
            y = o.fields[k]
            if alg._is_phantom(x):
                exp[k] = x
            elif isinstance(x, Struct) and set(x.fields) == {"0"}:  # hue: shorter way round
                d = R.f("norm_signed", R.sub(y.fields["0"], x.fields["0"]))
                exp[k] = Struct(x.path, {"0": R.add(x.fields["0"], R.mul(d, t))})
            else:
                exp[k] = R.add(x, R.mul(R.sub(y, x), t))
        check_value(rep, "ALG-REF", key, S, b, V, Struct(a.path, exp), sample="a + (b-a)·clamp(f,0,1); hue along normalize_signed(b.h - a.h)")
        # ends: f=0 -> a ; f=1 -> b (hue congruent: a.h + signed(b.h-a.h))
        try:
            V0 = S.ev.eval_body(b, [a, o, S.ctx.num(0)])[0]
            check_value(rep, "ALG-LAW", key + ":f=0", S, b, V0, a, sample="mix(a,b,0) = a")
            Vneg = S.ev.eval_body(b, [a, o, S.ctx.num(-3)])[0]
            check_value(rep, "ALG-LAW", key + ":f<0", S, b, Vneg, a, sample="mix(a,b,-3) = a")
            V1 = S.ev.eval_body(b, [a, o, S.ctx.num(1)])[0]
            V2 = S.ev.eval_body(b, [a, o, S.ctx.num(2)])[0]
            check_value(rep, "ALG-LAW", key + ":f>1", S, b, V2, V1, sample="mix(a,b,2) = mix(a,b,1)")
        except (Opaque, poly.TooBig) as ex:
            rep.fail("ALG-LAW", key + ":ends", "uninterpretable: %s" % ex, F.loc(b))
    rep.floor("Mix impls", n, 20)


# ------------------------------------------------------------------------------ lighten / saturate
def check_increase(F, rep, S):
    R = S.R
    n = 0
    for tr, m, mf in (("Lighten", "lighten", "lighten_fixed"), ("Saturate", "saturate", "saturate_fixed")):
        for im, ms in impl_methods(F, tr):
            adt = im.get("self_adt")
            if adt not in F.adt_by_path or short(adt) in ("Alpha", "PreAlpha"):
                continue
            acc = accessor_values(F, S, adt)
            _limits_from_bounds(F, S, adt, acc)
            for meth, fixed in ((m, False), (mf, True)):
                b = ms.get(meth)
                key = "%s:%s" % (meth, short(adt))
                n += 1
                try:
                    args = S.args(b, ["c", "f"])
                    c, f = args
                    V = S.ev.eval_body(b, args)[0]
                except (Opaque, poly.TooBig) as ex:
                    rep.fail("ALG-REF", key, "uninterpretable: %s" % ex, F.loc(b))
                    continue
                if not isinstance(V, Struct):
                    rep.fail("ALG-REF", key, "result is not a struct: %r" % (V,), F.loc(b))
                    continue
                if short(adt) in ("Hwb", "Okhwb") and tr == "Lighten":
                    w, k = c.fields["whiteness"], c.fields["blackness"]
                    if fixed:
                        ew = R.max(R.add(w, f), 0)
                        ek = R.max(R.sub(k, f), 0)
                    else:
                        ew = R.max(R.add(w, R.mul(R.ite(R.ge(f, 0), R.max(R.sub(1, w), 0), R.max(w, 0)), f)), 0)
                        ek = R.max(R.sub(k, R.mul(R.ite(R.ge(f, 0), R.max(k, 0), R.max(R.sub(1, k), 0)), f)), 0)
                    exp = dict(c.fields)
                    exp["whiteness"], exp["blackness"] = ew, ek
                    check_value(rep, "ALG-REF", key, S, b, V, Struct(c.path, exp), sample="HWB: whiteness and blackness move in opposite directions")
                    continue
                changed = [k for k, x in c.fields.items() if not alg._is_phantom(x) and not sym.val_eq(V.fields.get(k), x)]
                if not changed:
                    rep.fail("ALG-REF", key, "operator leaves every component unchanged", F.loc(b))
                    continue
                exp = dict(c.fields)
                ok_bounds = True
                for k in changed:
                    a = acc.get(k)
                    if not a or "min" not in a or "max" not in a:
                        ok_bounds = False
                        break
                    lo, hi, x = a["min"], a["max"], c.fields[k]
                    if fixed:
                        exp[k] = R.clamp(R.add(x, R.mul(hi, f)), lo, hi)
                    else:
                        diff = R.ite(R.ge(f, 0), R.sub(hi, x), x)
                        exp[k] = R.clamp(R.add(x, R.mul(R.max(diff, 0), f)), lo, hi)
                if not ok_bounds:
                    rep.fail("ALG-REF", key, "changed component %s has no min_/max_ accessor to take its limits from" % changed, F.loc(b))
                    continue
                check_value(rep, "ALG-REF", key, S, b, V, Struct(c.path, exp),
                            sample="%s: clamp(c + %s, min, max) on %s, limits = accessors" % (meth, "max·amount" if fixed else "max(0,(f>=0?max-c:c))·f", changed))
    rep.floor("lighten/saturate methods", n, 54)


# ------------------------------------------------------------------------------ blankets
def check_blankets(F, rep, S):
    table = [("Darken", "darken", "Lighten::lighten<"), ("Darken", "darken_fixed", "Lighten::lighten_fixed<"),
             ("Desaturate", "desaturate", "Saturate::saturate<"), ("Desaturate", "desaturate_fixed", "Saturate::saturate_fixed<"),
             ("DarkenAssign", "darken_assign", "mut0:LightenAssign::lighten_assign<"), ("DarkenAssign", "darken_fixed_assign", "mut0:LightenAssign::lighten_fixed_assign<"),
             ("DesaturateAssign", "desaturate_assign", "mut0:SaturateAssign::saturate_assign<"), ("DesaturateAssign", "desaturate_fixed_assign", "mut0:SaturateAssign::saturate_fixed_assign<")]
    for tr, m, want in table:
        ims = [x for x in impl_methods(F, tr) if x[0]["self_s"] in ("T", "[T]") or re.match(r"^[A-Z]$", x[0]["self_s"])]
        ims = [x for x in ims if x[0]["self_s"] != "[T]"]
        if len(ims) != 1:
            rep.fail("ANCHOR", "blanket:%s" % tr, "blanket impl count %d" % len(ims))
            continue
        b = ims[0][1].get(m)
        key = "blanket:%s::%s" % (tr, m)
        try:
            args = S.args(b, ["c", "f"])
            v, fr = S.ev.eval_body(b, args)
            if m.endswith("_assign"):
                v = S.final_self(fr)
            neg = S.R.neg(args[1])
            exp = S.ev.uninterpreted(_first_app_name(v) or "?", [args[0], neg])
            ok_name = (_first_app_name(v) or "").startswith(want)
            mm = alg.compare(v, exp, S.ctx)
            rep.ob("SHAPE-FWD", key, ok_name and not mm, "%s  (expected %s…(c, -f))" % (repr(v)[:200], want), F.loc(b))
        except (Opaque, poly.TooBig) as ex:
            rep.fail("SHAPE-FWD", key, "uninterpretable: %s" % ex, F.loc(b))
    # slices: every element, same method, same argument
    n = 0
    for tr in ("LightenAssign", "DarkenAssign", "SaturateAssign", "DesaturateAssign", "ShiftHueAssign", "SetHue", "MixAssign", "ClampAssign"):
        for im, ms in impl_methods(F, tr):
            if im["self_s"] != "[T]":
                continue
            for m, b in ms.items():
                key = "slice:%s::%s" % (tr, m)
                n += 1
                try:
                    args = S.args(b, ["s", "x", "y"])
                    _, fr = S.ev.eval_body(b, args)
                    v = S.final_self(fr)
                    ok = isinstance(v, Struct) and v.path == "<elementwise>"
                    detail = repr(v)[:240]
                    if ok:
                        el = v.fields["elem"]
                        nm = _first_app_name(el) or ""
                        ok = nm.startswith("mut0:%s::%s<" % (tr, m))
                        at = _find_apps(el, lambda n_: n_ == nm)
                        if ok and at:
                            a0 = at[0].args
                            want = [S.ctx.sym("s[i]")] + [x for x in args[1:]]
                            ok = len(a0) == len(want) and all(sym.val_eq(p, q) for p, q in zip(a0, want))
                    rep.ob("SHAPE-FWD", key, ok, detail, F.loc(b))
                except (Opaque, poly.TooBig) as ex:
                    rep.fail("SHAPE-FWD", key, "uninterpretable: %s" % ex, F.loc(b))
    rep.floor("slice operator impls", n, 7)


def _first_app_name(v):
    aps = _find_apps(v, lambda n: True)
    # outermost application = the one that is not an argument of another
    if isinstance(v, RatFunc):
        from .sym import _single_atom
        a = _single_atom(v)
        if a is not None and a.args:
            return a.name
    return aps[0].name if aps else None


# ------------------------------------------------------------------------------ Alpha / PreAlpha wrappers
WRAP = [("Lighten", ["lighten", "lighten_fixed"], "keep"), ("Saturate", ["saturate", "saturate_fixed"], "keep"),
        ("ShiftHue", ["shift_hue"], "keep"), ("WithHue", ["with_hue"], "keep"), ("Mix", ["mix"], "mix"),
        ("LightenAssign", ["lighten_assign", "lighten_fixed_assign"], "keep"), ("SaturateAssign", ["saturate_assign", "saturate_fixed_assign"], "keep"),
        ("ShiftHueAssign", ["shift_hue_assign"], "keep"), ("SetHue", ["set_hue"], "keep"), ("MixAssign", ["mix_assign"], "mix"),
        ("GetHue", ["get_hue"], None)]


def check_wrappers(F, rep, S):
    R = S.R
    n = 0
    for tr, methods, alpha_mode in WRAP:
        for im, ms in impl_methods(F, tr):
            if short(im.get("self_adt")) != "Alpha":
                continue
            for m in methods:
                b = ms.get(m)
                if b is None:
                    rep.fail("ANCHOR", "alpha:%s::%s" % (tr, m), "method missing")
                    continue
                key = "Alpha:%s::%s" % (tr, m)
                n += 1
                try:
                    args = S.args(b, ["c", "x", "y"])
                    v, fr = S.ev.eval_body(b, args)
                    assign = m.endswith("_assign") or m == "set_hue"
                    if assign:
                        v = S.final_self(fr)
                    if alpha_mode is None:
                        nm = _first_app_name(v) or ""
                        rep.ob("SHAPE-FWD", key, nm.startswith("%s::%s<" % (tr, m)) and {a for a in atoms_of(v) if not a.startswith("@")} == {"c.color"}, repr(v)[:200], F.loc(b))
                        continue
                    ok = isinstance(v, Struct) and set(v.fields) == {"color", "alpha"}
                    detail = repr(v)[:260]
                    if ok:
                        col = v.fields["color"]
                        nm = _first_app_name(col) or ""
                        want = ("mut0:%s::%s<" % (tr, m)) if assign else ("%s::%s<" % (tr, m))
                        ok = nm.startswith(want)
                        aps = _find_apps(col, lambda n_: n_ == nm)
                        if ok and aps:
                            a0 = list(aps[0].args)
                            exp_args = [args[0].fields["color"]] + [(x.fields["color"] if isinstance(x, Struct) and "color" in x.fields else x) for x in args[1:]]
                            ok = len(a0) == len(exp_args) and all(sym.val_eq(p, q) or (alpha_mode == "mix" and isinstance(q, RatFunc) and sym.val_eq(p, R.clamp(q, 0, 1)))
                                                                  for p, q in zip(a0, exp_args))
                        if ok:
                            ca = args[0].fields["alpha"]
                            if alpha_mode == "keep":
                                ok = sym.val_eq(v.fields["alpha"], ca)
                            else:
                                oa = args[1].fields["alpha"]
                                exp_a = R.add(ca, R.mul(R.sub(oa, ca), R.clamp(args[2], 0, 1)))
                                ok = not alg.compare(v.fields["alpha"], exp_a, S.ctx)
                    rep.ob("SHAPE-FWD", key, ok, detail, F.loc(b))
                except (Opaque, poly.TooBig, KeyError, AttributeError) as ex:
                    rep.fail("SHAPE-FWD", key, "uninterpretable: %s" % ex, F.loc(b))
    rep.floor("Alpha operator forwarders", n, 14)


# ------------------------------------------------------------------------------ colour schemes
SCHEMES = {
    "Complementary": {"complementary": [180]},
    "SplitComplementary": {"split_complementary": [150, 210]},
    "Analogous": {"analogous": [330, 30], "analogous_secondary": [300, 60]},
    "Triadic": {"triadic": [120, 240]},
    "Tetradic": {"tetradic": [90, 180, 270]},
}


def check_schemes(F, rep, S):
    n = 0
    for tr, methods in SCHEMES.items():
        for im, ms in impl_methods(F, "color_theory::" + tr):
            self_s = im["self_s"]
            for m, degs in methods.items():
                b = ms.get(m)
                if b is None:
                    continue
                key = "scheme:%s::%s[%s]" % (tr, m, self_s)
                n += 1
                try:
                    args = S.args(b, ["c"])
                    v, _ = S.ev.eval_body(b, args)
                except (Opaque, poly.TooBig) as ex:
                    rep.fail("ALG-REF", key, "uninterpretable: %s" % ex, F.loc(b))
                    continue
                c = args[0]
                if re.match(r"^[A-Z]$", self_s):
                    # blanket over ShiftHue: shift by the documented angles
                    outs = [v] if len(degs) == 1 else (v.items if isinstance(v, Tuple) else [])
                    ok = len(outs) == len(degs)
                    if ok:
                        for o, d in zip(outs, degs):
                            aps = _find_apps(o, lambda n_: n_.startswith("ShiftHue::shift_hue<"))
                            ok = ok and len(aps) == 1 and isinstance(aps[0].args[1], RatFunc) and aps[0].args[1].is_const() and aps[0].args[1].const_value() == d \
                                and sym.val_eq(aps[0].args[0], c)
                    rep.ob("ALG-REF", key, ok, "%s, documented shifts %s" % (repr(v)[:200], degs), F.loc(b))
                elif short(im.get("self_adt")) == "Alpha":
                    aps = {a.split("<")[0] for a in apps_of(v)}
                    plain = {a for a in atoms_of(v) if not a.startswith("@")}
                    ok = (any(a.endswith("%s::%s" % (tr, m)) for a in aps) and plain <= {"c.color", "c.alpha"}) \
                        or (not aps and all(a == "c.alpha" or a.startswith("c.color.") for a in plain))  # inner impl inlined (checked on its own)
                    alphas = [v.fields["alpha"]] if isinstance(v, Struct) else [x.fields["alpha"] for x in getattr(v, "items", []) if isinstance(x, Struct)]
                    ok = ok and alphas and all(sym.val_eq(a_, c.fields["alpha"]) for a_ in alphas)
                    rep.ob("SHAPE-FWD", key, ok, repr(v)[:200], F.loc(b))
                    # the form on a colour wrapped with alpha gives exactly the by-value form on the bare colour, result by result, in the
                    # same order: evaluate the bare colour's impl on c.color and wrap each result with c.alpha
                    inner_ty = self_s[len("alpha::alpha::Alpha<"):].rsplit(",", 1)[0].strip()
                    inner = [ms2.get(m) for im2, ms2 in impl_methods(F, "color_theory::" + tr) if im2["self_s"] == inner_ty]
                    if len(inner) == 1 and inner[0] is not None:
                        try:
                            iv, _ = S.ev.eval_body(inner[0], [c.fields["color"]])
                            wrap = lambda x: Struct(c.path, {"color": x, "alpha": c.fields["alpha"]})
                            exp = Tuple([wrap(x) for x in iv.items]) if isinstance(iv, Tuple) else wrap(iv)
                            check_value(rep, "ALG-SIB", key + " = bare", S, b, v, exp, sample="each result = the bare colour's result with self.alpha, same order")
                        except (Opaque, poly.TooBig, AttributeError, KeyError) as ex:
                            rep.fail("ALG-SIB", key + " = bare", "uninterpretable: %s" % ex, F.loc(b))
                    else:
                        rep.fail("ALG-SIB", key + " = bare", "no impl of %s for the bare colour %s to compare with" % (tr, inner_ty), F.loc(b))
                else:
                    # Lab-like: complementary negates (a, b); tetradic rotates (a,b)->(-b,a)
                    fa, fb = ("a", "b") if "a" in c.fields else ("u", "v")

                    def mk(a_, b_):
                        f = dict(c.fields)
                        f[fa], f[fb] = a_, b_
                        return Struct(c.path, f)
                    A, B = c.fields[fa], c.fields[fb]
                    R = S.R
                    if m == "complementary":
                        exp = mk(R.neg(A), R.neg(B))
                    elif m == "tetradic":
                        exp = Tuple([mk(R.neg(B), A), mk(R.neg(A), R.neg(B)), mk(B, R.neg(A))])
                    else:
                        rep.fail("ALG-REF", key, "no reference for this scheme on a rectangular space", F.loc(b))
                        continue
                    check_value(rep, "ALG-REF", key, S, b, v, exp, sample="rectangular form of the %s° rotation(s)" % degs)
    rep.floor("colour scheme impls", n, 12)


# ------------------------------------------------------------------------------ arithmetic
OPS = {"std::ops::Add": ("add", "+"), "std::ops::Sub": ("sub", "-"), "std::ops::Mul": ("mul", "*"), "std::ops::Div": ("div", "/")}


def check_arith(F, rep, S):
    n = 0
    for tr, (m, op) in OPS.items():
        for im, ms in impl_methods(F, tr):
            adt = im.get("self_adt")
            if adt not in F.adt_by_path or adt.startswith(("cast::", "convert::", "hues::")) or short(adt) in ("Alpha", "PreAlpha"):
                continue
            if im["self_s"].startswith("&"):
                continue
            b = ms.get(m)
            key = "%s[%s%s]" % (short(tr), im["self_s"], "," + im["trait_args_s"][0] if im["trait_args_s"] else "")
            n += 1
            try:
                args = S.args(b, ["a", "b"])
                v, _ = S.ev.eval_body(b, args)
            except (Opaque, poly.TooBig) as ex:
                rep.fail("SHAPE-OP", key, "uninterpretable: %s" % ex, F.loc(b))
                continue
            a, o = args
            if not isinstance(a, Struct):
                continue
            exp = {}
            for k, x in a.fields.items():
                if alg._is_phantom(x):
                    exp[k] = x
                    continue
                y = o.fields[k] if isinstance(o, Struct) else o
                if isinstance(x, Struct):  # hue newtype
                    yy = y.fields["0"] if isinstance(y, Struct) else y
                    exp[k] = Struct(x.path, {"0": S.ev.binop(op, x.fields["0"], yy)})
                else:
                    exp[k] = S.ev.binop(op, x, y)
            check_value(rep, "SHAPE-OP", key, S, b, v, Struct(a.path, exp), sample="every component combined with `%s`" % op)
    rep.floor("arithmetic impls on colours", n, 60)
