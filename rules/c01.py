"""C01 — conversions invert and commute (ROUTE, TypeId guards, ALG-LAW inverse pairs, alpha)."""
import re
from fractions import Fraction as Fr

from . import alg, sym, poly, consts
from .common import Session, check_value, apps_of, atoms_of, one
from .sym import Struct, Tuple, Ite, Opaque, restrict
from .poly import RatFunc
from .c02 import app_canon, conv_impls

EXPLANATION = (
    "Static: (ROUTE) the derived FromColorUnclamped impls are expanded from the resolved callees of the macro output into chains of "
    "hand-written hops and must terminate, be loop-free, symmetric (B->A retraces A->B), coherent on sub-paths and never pass through the "
    "single-channel Luma; (GUARD) every TypeId shortcut compares the type arguments that justify its arm; (ALG-LAW) each algebraic hop "
    "composed with its reverse normalises to the identity (exact rational functions, cbrt/sqrt axioms, monotone-cbrt rewriting of "
    "thresholds); (ALPHA) alpha is split off, passed through unchanged and never enters the colour. Not decided: the size of the "
    "floating-point round-trip error, trigonometric hops (polar forms), Okhsl/Okhsv/HSLuv searches."
    " ALPHA per type: with_alpha / without_alpha / split of each bare colour type are the struct literal / identity / (self, full opacity). GammaFn pair mutually inverse. ALIAS: the alpha aliases are Alpha<the colour their name says, T>."
)

T_FCU = "convert::from_into_color_unclamped::FromColorUnclamped"

# hand-written edges confirmed by reading (src, tgt) short names; self edges omitted.
# A change of this set changes the routes every derive takes and must be re-confirmed.
HAND_EDGES = {
    ("Xyz", "Yxy"), ("Yxy", "Xyz"), ("Xyz", "Lab"), ("Lab", "Xyz"), ("Xyz", "Luv"), ("Luv", "Xyz"),
    ("Xyz", "Rgb"), ("Rgb", "Xyz"), ("Xyz", "Lms"), ("Lms", "Xyz"), ("Xyz", "Oklab"), ("Oklab", "Xyz"),
    ("Xyz", "Luma"), ("Luma", "Xyz"), ("Yxy", "Luma"), ("Luma", "Yxy"), ("Luma", "Rgb"),
    ("Lab", "Lch"), ("Lch", "Lab"), ("Luv", "Lchuv"), ("Lchuv", "Luv"), ("Lchuv", "Hsluv"), ("Hsluv", "Lchuv"),
    ("Rgb", "Hsl"), ("Hsl", "Rgb"), ("Rgb", "Hsv"), ("Hsv", "Rgb"), ("Hsl", "Hsv"), ("Hsv", "Hsl"),
    ("Hsv", "Hwb"), ("Hwb", "Hsv"), ("Rgb", "Oklab"), ("Oklab", "Rgb"),
    ("Oklab", "Oklch"), ("Oklch", "Oklab"), ("Oklab", "Okhsl"), ("Okhsl", "Oklab"), ("Oklab", "Okhsv"), ("Okhsv", "Oklab"),
    ("Okhsv", "Okhwb"), ("Okhwb", "Okhsv"),
    ("Cam16", "Cam16Jch"), ("Cam16", "Cam16Jmh"), ("Cam16", "Cam16Jsh"), ("Cam16", "Cam16Qch"), ("Cam16", "Cam16Qmh"), ("Cam16", "Cam16Qsh"),
    ("Cam16Jmh", "Cam16UcsJmh"), ("Cam16UcsJmh", "Cam16Jmh"), ("Cam16UcsJab", "Cam16UcsJmh"), ("Cam16UcsJmh", "Cam16UcsJab"),
}
LOSSY = {"Luma"}


def short(p):
    return p.split("::")[-1]


def route_graph(F, S, rep):
    hand, derived = set(), {}
    for im in F.find_impls(trait=T_FCU):
        b = F.impl_method(im, "from_color_unclamped")
        if b is None:
            continue
        tgt = im.get("self_adt") or im["self_s"]
        src = sym._adt_of_type(im["trait_args_s"][0])
        if not (tgt in F.adt_by_path and src in F.adt_by_path):
            continue  # blanket impls (Alpha<C2,T> <- C1, Vec, Box) are handled elsewhere
        if short(src) == "Alpha" or short(tgt) == "Alpha":
            continue
        if not im["derived"]:
            hand.add((short(src), short(tgt)))
            continue
        try:
            v, _ = S.eval(b)
        except (Opaque, poly.TooBig) as ex:
            rep.fail("ROUTE", "derived:%s->%s" % (short(src), short(tgt)), "derived impl uninterpretable: %s" % ex, F.loc(b))
            continue
        inter = None
        shape_ok = False
        for n in apps_of(v):
            m = re.match(r".*FromColorUnclamped::from_color_unclamped<(.*)>$", n)
            if m:
                args = alg.split_type("X<" + m.group(1) + ">")[1]
                inter = short(sym._adt_of_type(args[0]))
                shape_ok = short(sym._adt_of_type(args[1])) == short(src)
        derived[(short(src), short(tgt))] = (inter, shape_ok, b)
    return hand, derived


def expand(a, b, hand, derived, depth=0):
    if a == b:
        return [a]
    if (a, b) in hand:
        return [a, b]
    if depth > 8 or (a, b) not in derived:
        return None
    i = derived[(a, b)][0]
    if i is None or i == a or i == b:
        return None
    p1 = expand(a, i, hand, derived, depth + 1)
    p2 = expand(i, b, hand, derived, depth + 1)
    if p1 is None or p2 is None:
        return None
    return p1 + p2[1:]


def check_routes(F, rep, S):
    hand, derived = route_graph(F, S, rep)
    hand_ns = {e for e in hand if e[0] != e[1]}
    for e in sorted(hand_ns - HAND_EDGES):
        rep.fail("ROUTE", "hand-edge:%s->%s" % e, "new hand-written conversion edge not in the confirmed table (routes of derived impls change; confirm consistency with the tree route and add it)")
    for e in sorted(HAND_EDGES - hand_ns):
        rep.fail("ROUTE", "hand-edge:%s->%s" % e, "hand-written conversion edge of the confirmed table is missing")
    n = 0
    routes = {}
    for (a, b), (inter, shape_ok, body) in sorted(derived.items()):
        key = "%s->%s" % (a, b)
        n += 1
        if not shape_ok or inter is None:
            rep.fail("ROUTE", "route:" + key, "derived impl is not `I::from_color_unclamped(source).into_color_unclamped()`", F.loc(body))
            continue
        r = expand(a, b, hand, derived)
        if r is None:
            rep.fail("ROUTE", "route:" + key, "route via %s does not terminate in hand-written hops" % inter, F.loc(body))
            continue
        routes[(a, b)] = r
        problems = []
        if len(set(r)) != len(r):
            problems.append("visits a space twice: %s" % "→".join(r))
        if any(x in LOSSY for x in r[1:-1]):
            problems.append("passes through single-channel %s: %s" % (LOSSY, "→".join(r)))
        rep.ob("ROUTE", "route:" + key, not problems, "; ".join(problems) if problems else "→".join(r), F.loc(body))
    for (a, b), r in sorted(routes.items()):
        # symmetry
        back = routes.get((b, a)) or ([b, a] if (b, a) in hand else None)
        if back is not None and a not in LOSSY and b not in LOSSY:
            rep.ob("ROUTE-SYM", "sym:%s<->%s" % (a, b), back == r[::-1], "%s vs reverse %s" % ("→".join(r), "→".join(back)), nontrivial=len(r) > 2)
        # coherence: the rest of the route after the first hop is the route from that node
        if len(r) > 2:
            sub = routes.get((r[1], b)) or ([r[1], b] if (r[1], b) in hand else None)
            rep.ob("ROUTE-COH", "coherent:%s->%s" % (a, b), sub == r[1:], "%s ; from %s: %s" % ("→".join(r), r[1], "→".join(sub) if sub else None))
    rep.floor("derived routes", n, 200)
    return hand, derived, routes


# ---------------------------------------------------------------------------- TypeId guards
def typeid_conds(v, out=None):
    if out is None:
        out = {}
    if isinstance(v, Ite):
        d = sym.Ctx._cond_rf.get(v.c)
        if isinstance(d, RatFunc):
            names = [poly.atom_by_id(a).name for a in d.atoms()]
            if names and all(n.startswith("std::any::TypeId::of<") or n.startswith("core::any::TypeId::of<") for n in names):
                out[v.c] = sorted(n[n.index("<") + 1:-1] for n in names)
        typeid_conds(v.t, out)
        typeid_conds(v.f, out)
    elif isinstance(v, Struct):
        for x in v.fields.values():
            typeid_conds(x, out)
    elif isinstance(v, (Tuple, sym.Array)):
        for x in v.items:
            typeid_conds(x, out)
    return out


def norm_generics(s, im):
    """Rename impl generics by position in target/source types: T0,T1.. / S0,S1.."""
    _, targs = alg.split_type(im["self_s"])
    _, sargs = alg.split_type(im["trait_args_s"][0])
    m = {}
    for i, a in enumerate(sargs):
        if re.match(r"^[A-Za-z_][A-Za-z0-9_]*$", a):
            m.setdefault(a, "src%d" % i)
    for i, a in enumerate(targs):
        if re.match(r"^[A-Za-z_][A-Za-z0-9_]*$", a):
            if a in m and m[a].startswith("src"):
                m[a] = "both%d" % i
            else:
                m.setdefault(a, "tgt%d" % i)
    return re.sub(r"\b[A-Za-z_][A-Za-z0-9_]*\b", lambda mo: m.get(mo.group(0), mo.group(0)), s)


PRIM = "<<%s as rgb::RgbStandard>::Space as rgb::RgbSpace>::Primaries"
# (target, source) -> set of frozensets of normalised compared types; confirmed by reading:
#  whole standard equal -> reinterpret; primaries equal (white point equal by bound) -> transfer function only;
#  transfer functions equal -> copy luma; Space == Srgb -> direct Oklab matrices; Mask == bool -> scalar hexcone arm.
GUARDS = {
    ("Hsl", "Hsl"): [{"src0", "tgt0"}],
    ("Hsv", "Hsv"): [{"src0", "tgt0"}],
    ("Hwb", "Hwb"): [{"src0", "tgt0"}],
    ("Luma", "Luma"): [{"src0", "tgt0"}],
    ("Rgb", "Rgb"): [{"src0", "tgt0"}, {PRIM % "src0", PRIM % "tgt0"}],
    ("Rgb", "Luma"): [{"<tgt0 as rgb::RgbStandard>::TransferFn", "<src0 as luma::LumaStandard>::TransferFn"}],
    ("Oklab", "Rgb"): [{"<src0 as rgb::RgbStandard>::Space", "encoding::srgb::Srgb"}],
    ("Rgb", "Oklab"): [{"<tgt0 as rgb::RgbStandard>::Space", "encoding::srgb::Srgb"}],
    ("Hsv", "Rgb"): [{"<both1 as bool_mask::HasBoolMask>::Mask", "bool"}],
    ("Hsl", "Rgb"): [{"<both1 as bool_mask::HasBoolMask>::Mask", "bool"}],
}


def opaque_conversion_session(F):
    """Session in which the conversions called by the analysed body itself stay uninterpreted
    (the route / guard / alpha rules look at which conversion is called, not at its value)."""
    S = Session(F, app_canon=app_canon)

    def keep_conversions_opaque(rpath, c, ev, fr):
        if c["n"] in ("from_color_unclamped", "into_color_unclamped") and fr.depth == 0:
            return ev.app_name(rpath, c, fr)
        return None
    S.ctx.force_uninterp = keep_conversions_opaque
    return S


def check_guards(F, rep, S):
    # only the guards of the body itself: nested conversions stay uninterpreted
    S = opaque_conversion_session(F)
    impls = conv_impls(F)
    seen = 0
    for (tgt, src), lst in sorted(impls.items()):
        if tgt not in F.adt_by_path or src not in F.adt_by_path:
            continue
        for im, b in lst:
            key = "%s<-%s" % (short(tgt), short(src))
            try:
                v, _ = S.eval(b)
            except (Opaque, poly.TooBig):
                v = None
            if v is None:
                # fall back to a syntactic scan of TypeId::of callee type arguments
                tys = []
                for n, _p in __import__("rules.facts", fromlist=["walk"]).walk(b["body"]):
                    c = n.get("c")
                    if isinstance(c, dict) and "d" in c and F.S[c["d"]].endswith("any::TypeId::of"):
                        tys.append(F.S[c["a"][0]])
                if tys or (short(tgt), short(src)) in GUARDS:
                    got = [set(norm_generics(t, im) for t in tys)] if tys else []
                    exp = [set(x) for x in GUARDS.get((short(tgt), short(src)), [])]
                    flat_g = set().union(*got) if got else set()
                    flat_e = set().union(*exp) if exp else set()
                    seen += 1
                    rep.ob("GUARD", "typeid:" + key, flat_g == flat_e, "TypeId::of arguments %s, expected %s" % (sorted(flat_g), sorted(flat_e)), F.loc(b))
                continue
            conds = typeid_conds(v)
            got = [set(norm_generics(t, im) for t in pair) for pair in conds.values()]
            exp = [set(x) for x in GUARDS.get((short(tgt), short(src)), [])]
            if not got and not exp:
                continue
            seen += 1
            ok = sorted(map(sorted, got)) == sorted(map(sorted, exp))
            rep.ob("GUARD", "typeid:" + key, ok, "compares %s; confirmed table: %s" % (sorted(map(sorted, got)), sorted(map(sorted, exp))), F.loc(b))
            # semantic part: an arm that returns the input's components unchanged requires the whole type parameters equal
            args = S.args(b)
            for c, pair in conds.items():
                vt = restrict(v, c, True)
                if _is_identity(vt, args[0]):
                    whole = all(re.match(r"^(src|tgt)\d+$", norm_generics(t, im)) for t in pair)
                    rep.ob("GUARD-ID", "reinterpret-needs-whole-type:" + key, whole,
                           "arm returns the components unchanged under TypeId equality of %s" % (pair,), F.loc(b))
    rep.floor("TypeId guards", seen, 10)


def _is_identity(v, inp):
    if not (isinstance(v, Struct) and isinstance(inp, Struct)):
        return False
    for k, x in inp.fields.items():
        if alg._is_phantom(x):
            continue
        if k not in v.fields or not sym.val_eq(v.fields[k], x):
            return False
    return True


# ---------------------------------------------------------------------------- inverse laws
INVERSE_PAIRS = [
    ("xyz::Xyz", "yxy::Yxy"), ("xyz::Xyz", "lab::Lab"), ("hsv::Hsv", "hwb::Hwb"), ("okhsv::Okhsv", "okhwb::Okhwb"),
]
# one direction only: Hsl→Hsv→Hsl needs non-linear case reasoning (not decided)
ONE_WAY = [("hsv::Hsv", "hsl::Hsl")]


def assume_valid(v):
    """Restrict to the region where every is_valid_divisor guard holds (the non-degenerate colours)."""
    changed = True
    while changed:
        changed = False
        for c in list(_conds(v)):
            if c[0] == "pred" and c[1] == "valid_divisor":
                v = restrict(v, c, True)
                changed = True
                break
    return v


def _conds(v, out=None):
    if out is None:
        out = set()
    if isinstance(v, Ite):
        out.add(v.c)
        _conds(v.t, out)
        _conds(v.f, out)
    elif isinstance(v, Struct):
        for x in v.fields.values():
            _conds(x, out)
    elif isinstance(v, (Tuple, sym.Array)):
        for x in v.items:
            _conds(x, out)
    return out


def check_inverses(F, rep, S):
    impls = conv_impls(F)
    for a, b in INVERSE_PAIRS + ONE_WAY:
        for x, y in (((a, b), (b, a)) if (a, b) not in ONE_WAY else ((a, b),)):
            key = "%s→%s→%s" % (short(x), short(y), short(x))
            f = impls.get((y, x), [])
            g = impls.get((x, y), [])
            if len(f) != 1 or len(g) != 1:
                rep.fail("ANCHOR", "inverse:" + key, "hand-written pair not found")
                continue
            fb, gb = f[0][1], g[0][1]
            try:
                args = S.args(fb, ["c"])
                mid, _ = S.ev.eval_body(fb, args)
                back, _ = S.ev.eval_body(gb, [mid])
                back = assume_valid(back)
            except (Opaque, poly.TooBig, ZeroDivisionError) as ex:
                rep.fail("ALG-LAW", "inverse:" + key, "uninterpretable: %s" % ex, F.loc(gb))
                continue
            dom = None
            if (short(x), short(y)) == ("Hsv", "Hsl") or (short(x), short(y)) == ("Hsl", "Hsv"):
                # inside the nominal ranges
                c = args[0]
                cons = []
                for fld in c.fields.values():
                    if isinstance(fld, RatFunc):
                        cons += [(fld, ">=", 0), (fld, "<=", 1)]
                dom = S.domain(cons)
            check_value(rep, "ALG-LAW", "inverse:" + key, S, gb, back, args[0], domain=dom,
                        sample="%s∘%s normalises to the identity on non-degenerate colours" % (short(x) + "<-" + short(y), short(y) + "<-" + short(x)))


# direct hand-written edge (a -> c) next to a hand-written two-hop path (a -> b -> c)
TRIANGLES = [
    ("luma::luma::Luma", "xyz::Xyz", "yxy::Yxy"),
    ("luma::luma::Luma", "yxy::Yxy", "xyz::Xyz"),
    ("xyz::Xyz", "yxy::Yxy", "luma::luma::Luma"),
    ("yxy::Yxy", "xyz::Xyz", "luma::luma::Luma"),
]


def _with_unit_luminance(S, v):
    """Substitute wp.y = 1 (every white point is normalised to Y = 1: CONST-WP)."""
    wy = S.ctx.sym("wp.y")
    (mono, _c), = wy.num.items()
    (aid, _e), = mono
    if isinstance(v, RatFunc):
        return alg.deep_subst(v, {aid: 1}, S.ctx)
    if isinstance(v, Struct):
        return Struct(v.path, {k: _with_unit_luminance(S, x) for k, x in v.fields.items()})
    if isinstance(v, Tuple):
        return Tuple([_with_unit_luminance(S, x) for x in v.items])
    raise Opaque("case split left after assuming non-degenerate colours: %s" % alg._short(v, 120))


def check_commute(F, rep, S):
    """COMMUTE: where a direct hand-written conversion a -> c exists beside a hand-written path a -> b -> c, the two agree (on non-degenerate
    colours, for a white point normalised to Y = 1).  The derived routes never contain such a choice (ROUTE), these four triangles do."""
    impls = conv_impls(F)
    n = 0
    for a, b, c in TRIANGLES:
        key = "%s→%s = %s→%s→%s" % (short(a), short(c), short(a), short(b), short(c))
        f1, f2, g = impls.get((b, a), []), impls.get((c, b), []), impls.get((c, a), [])
        if len(f1) != 1 or len(f2) != 1 or len(g) != 1:
            rep.fail("ANCHOR", "commute:" + key, "hand-written edges of the triangle not found")
            continue
        n += 1
        try:
            args = S.args(g[0][1], ["c"])
            direct, _ = S.ev.eval_body(g[0][1], args)
            mid, _ = S.ev.eval_body(f1[0][1], args)
            via, _ = S.ev.eval_body(f2[0][1], [mid])
            direct, via = assume_valid(direct), assume_valid(via)
        except (Opaque, poly.TooBig, ZeroDivisionError) as ex:
            rep.fail("COMMUTE", key, "uninterpretable: %s" % ex, F.loc(g[0][1]))
            continue
        try:
            direct, via = _with_unit_luminance(S, direct), _with_unit_luminance(S, via)
        except Opaque as ex:
            rep.fail("COMMUTE", key, "uninterpretable: %s" % ex, F.loc(g[0][1]))
            continue
        check_value(rep, "COMMUTE", key, S, g[0][1], direct, via,
                    sample="direct and two-hop conversion normalise to the same value (wp.y = 1, non-degenerate colours)")
    rep.floor("commuting triangles", n, 4)


def check_polar_inverses(F, rep):
    """Rectangular <-> polar pairs (Lab/Lch, Luv/Lchuv, Oklab/Oklch, CAM16-UCS Jab/Jmh) invert each other, using the trigonometric axioms
    cos^2 + sin^2 = 1, cos/sin(atan2(y, x)) = x, y / sqrt(x^2 + y^2), atan2(r sin t, r cos t) = t (r > 0, mod 2 pi), the pi shift, and
    deg2rad / rad2deg being inverse; chroma > 0 and (a, b) != (0, 0) (the non-degenerate colours); hue equality is modulo 360 degrees."""
    from . import c02
    impls = conv_impls(F)
    n = 0
    for polar, rect, _huety, _fa, _fb, _keep, chroma, _ph in c02.POLAR:
        for x, y in ((polar, rect), (rect, polar)):
            key = "%s→%s→%s" % (short(x), short(y), short(x))
            f = impls.get((y, x), [])
            g = impls.get((x, y), [])
            if len(f) != 1 or len(g) != 1:
                rep.fail("ANCHOR", "inverse:" + key, "hand-written pair not found")
                continue
            S = Session(F, app_canon=c02.app_canon)
            S.ctx.trig_axioms = True
            S.ctx.expand_minmax = True
            fb, gb = f[0][1], g[0][1]
            try:
                args = S.args(fb, ["c"])
                S.ctx.positive = {a for a in atoms_of(args[0]) if a.endswith("." + chroma)}
                mid, _ = S.ev.eval_body(fb, args)
                back, _ = S.ev.eval_body(gb, [mid])
            except (Opaque, poly.TooBig, ZeroDivisionError) as ex:
                rep.fail("ALG-LAW", "inverse:" + key, "uninterpretable: %s" % ex, F.loc(gb))
                continue
            check_value(rep, "ALG-LAW", "inverse:" + key, S, gb, back, args[0],
                        sample="identity on non-degenerate colours (trigonometric axioms; hue modulo 360)")
            n += 1
    rep.floor("polar inverse laws", n, 8)


# ---------------------------------------------------------------------------- alpha
def check_alpha(F, rep, S):
    # impl FromColorUnclamped<C1> for Alpha<C2, T>
    ims = [im for im in F.find_impls(trait=T_FCU) if not im["derived"] and short(im.get("self_adt") or "") == "Alpha"]
    if len(ims) != 1:
        rep.fail("ANCHOR", "alpha:into", "impl FromColorUnclamped<C1> for Alpha<C2,T>: %d" % len(ims))
    else:
        b = F.impl_method(ims[0], "from_color_unclamped")
        try:
            v, _ = S.eval(b, names=["other"])
            ok = isinstance(v, Struct) and set(v.fields) == {"color", "alpha"}
            detail = repr(v)[:300]
            if ok:
                ca = apps_of(v.fields["color"])
                aa = apps_of(v.fields["alpha"])
                # colour = into_color_unclamped(split(other).0); alpha = split(other).1, untouched
                ok = any("IntoColorUnclamped::into_color_unclamped" in n for n in ca) and any("WithAlpha::split" in n for n in ca) \
                    and "proj.0" in ca and "proj.1" not in ca \
                    and aa == {n for n in aa if "WithAlpha::split" in n or n == "proj.1"} and "proj.1" in aa
            rep.ob("ALPHA", "alpha:attach", ok, detail, F.loc(b))
        except Opaque as ex:
            rep.fail("ALPHA", "alpha:attach", "uninterpretable: %s" % ex, F.loc(b))
    # derived impls from Alpha<_C,_A>: the colour part only, alpha dropped
    n = 0
    for im in F.find_impls(trait=T_FCU, derived=True):
        if short(sym._adt_of_type(im["trait_args_s"][0])) != "Alpha":
            continue
        b = F.impl_method(im, "from_color_unclamped")
        n += 1
        try:
            v, _ = S.eval(b, names=["other"])
            at = {a for a in atoms_of(v) if not a.startswith("@")}
            ok = at == {"other.color"} and all("IntoColorUnclamped::into_color_unclamped" in x for x in apps_of(v))
            rep.ob("ALPHA", "alpha:strip:%s" % short(im.get("self_adt") or im["self_s"]), ok, repr(v)[:200], F.loc(b), nontrivial=False)
        except Opaque as ex:
            rep.fail("ALPHA", "alpha:strip:%s" % im["self_s"], "uninterpretable: %s" % ex, F.loc(b))
    rep.floor("derived from-Alpha impls", n, 25)
    # WithAlpha for Alpha: pure projections
    for im in F.find_impls(trait="alpha::WithAlpha", self_adt="alpha::alpha::Alpha"):
        for name, exp in (("with_alpha", lambda a: Struct("alpha::alpha::Alpha", {"color": a[0].fields["color"], "alpha": a[1]})),
                          ("without_alpha", lambda a: a[0].fields["color"]),
                          ("split", lambda a: Tuple([a[0].fields["color"], a[0].fields["alpha"]]))):
            b = F.impl_method(im, name)
            if b is None:
                rep.fail("ANCHOR", "alpha:" + name, "method missing")
                continue
            try:
                args = S.args(b, ["c", "alpha"])
                v, _ = S.ev.eval_body(b, args)
                check_value(rep, "ALPHA", "alpha:" + name, S, b, v, exp(args))
            except Opaque as ex:
                rep.fail("ALPHA", "alpha:" + name, "uninterpretable: %s" % ex, F.loc(b))


def check_with_alpha_impls(F, rep, S):
    """ALPHA (per colour type): attaching alpha to a bare colour is the struct literal Alpha { color: self, alpha }, removing it from a
    bare colour is the identity, and splitting a bare colour yields (self, full opacity); the provided methods opaque() / transparent()
    attach max_intensity() / zero()."""
    n = 0
    for im in F.find_impls(trait="alpha::WithAlpha"):
        if (im.get("self_adt") or "").endswith("alpha::alpha::Alpha"):
            continue
        key = im["self_s"].split("<")[0].split("::")[-1]
        for name in ("with_alpha", "without_alpha", "split"):
            b = F.impl_method(im, name)
            if b is None:
                rep.fail("ANCHOR", "alpha:%s[%s]" % (name, key), "method missing")
                continue
            n += 1
            try:
                args = S.args(b, ["c", "alpha"])
                v, _ = S.ev.eval_body(b, args)
                c = args[0]
                if name == "with_alpha":
                    exp = Struct("alpha::alpha::Alpha", {"color": c, "alpha": args[1]})
                    check_value(rep, "ALPHA", "alpha:%s[%s]" % (name, key), S, b, v, exp)
                elif name == "without_alpha":
                    check_value(rep, "ALPHA", "alpha:%s[%s]" % (name, key), S, b, v, c)
                else:
                    ok = isinstance(v, Tuple) and len(v.items) == 2 and sym.val_eq(v.items[0], c) and re.match(r"^stimulus::Stimulus::max_intensity<\w+>$", repr(v.items[1])) is not None
                    rep.ob("ALPHA", "alpha:%s[%s]" % (name, key), ok, repr(v)[:160], F.loc(b), nontrivial=False)
            except (Opaque, poly.TooBig, KeyError) as ex:
                rep.fail("ALPHA", "alpha:%s[%s]" % (name, key), "uninterpretable: %s" % ex, F.loc(b))
    rep.floor("WithAlpha methods of bare colours", n, 75)
    for name, want in (("opaque", r"^stimulus::Stimulus::max_intensity<\w+>$"), ("transparent", r"^0$")):
        try:
            b = F.fn("alpha::WithAlpha::" + name)
            S2 = Session(F, no_inline={"alpha::WithAlpha::with_alpha"})
            v, _ = S2.ev.eval_body(b, S2.args(b, ["c"]))
            from .c08 import _find_apps
            aps = _find_apps(v, lambda nm: "with_alpha" in nm) if not isinstance(v, Struct) else []
            ok = len(aps) == 1 and repr(aps[0].args[0]) == "c" and re.match(want, repr(aps[0].args[1])) is not None if aps else False
            rep.ob("ALPHA", "alpha:" + name, ok, repr(v)[:200], F.loc(b))
        except (facts.AnchorMissing, Opaque, poly.TooBig) as ex:
            rep.fail("ALPHA", "alpha:" + name, "uninterpretable: %s" % ex)


def run(F, rep, tier="quick", extra=None, only=None):
    rep.trusted += ["rustc name resolution / type check (resolved callees of derive output)", "operator table of rules/sym.py",
                    "axioms cbrt(x)^3=x, sqrt(x)^2=x; cbrt strictly monotone (threshold rewriting)", "hand-edge and TypeId guard tables confirmed by reading (rules/c01.py)"]
    S = Session(F, app_canon=app_canon, positive=("wp.x", "wp.y", "wp.z"))
    rep.assumptions.append("white point tristimulus values wp.x, wp.y, wp.z are positive (CONST-WP checks the literals)")
    SO = opaque_conversion_session(F)
    check_routes(F, rep, SO)
    check_guards(F, rep, S)
    check_inverses(F, rep, S)
    check_polar_inverses(F, rep)
    check_commute(F, rep, S)
    check_alpha(F, rep, SO)
    # matrix pairs: every hard-coded pair is a mutual inverse (shared with C02/C14)
    consts.check_rgb_spaces(F, rep, S)
    consts.check_oklab_matrices(F, rep, S)
    # transfer functions: every Rgb <-> Xyz round trip passes through encode/decode; an unclamped conversion of an in-range colour of a wider
    # space hands them negative and > 1 values, so the pair has to be inverse on the whole real line: both are compared, piece by piece, with
    # the published pair (which is mutually inverse with the linear segment extended through the origin)
    consts.check_transfer_functions(F, rep, S)
    from . import aliasrule
    aliasrule.check(F, rep, "C01", 39)
    check_with_alpha_impls(F, rep, Session(F))
    return {"level": "other"}
