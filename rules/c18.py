"""C18 — struct-of-arrays collections behave like a vector of colours: the lockstep invariant.

Every collection operation of a colour whose components are collections is generated code of one shape: apply the *same-named* operation,
with the same arguments, to *every* component collection (hue and alpha included, recursively through `Alpha { color, alpha }` and the hue
newtype), and assemble the results field by field.  That shape is the inductive invariant "all component collections have equal length and
element i of component f is colour i's f" — a violation (an operation skipping a component, using a different operation or argument for
one component, or assembling results into the wrong field) breaks the equivalence with Vec<Color> on a history that reaches it.
"""
import re

from . import facts, alg

EXPLANATION = (
    "Static dataflow lint over the type-checked HIR of every struct-of-arrays method (macro expansions for all colour types, Alpha, the hue "
    "newtypes and their iterators): (COVER) each non-phantom component field of Self is operated on; (UNIFORM) all components receive the "
    "operation of the same name with the same arguments, modulo the component's own field in arguments such as `value.<f>`; (NAME) that "
    "operation is the one the method stands for (next_back -> next_back, pop -> pop, …); (ASSEMBLE) every field of the returned "
    "colour/iterator is computed from the same-named component only.  This is the inductive step of the equal-length / same-order "
    "invariant; base cases (with_capacity, from_iter, Default) build every component with the same constructor call.  Not decided: "
    "histories in which a caller desynchronises the public component fields by hand; behaviour of std's Vec/slice operations themselves."
    " REFCOMP: copied / cloned / as_refs / set are field-wise over every component. Closed world: iterator / collection trait impls may only contain methods with a lockstep entry."
)

# method -> names a component operation may have
ALLOWED = {
    "next": {"next"}, "next_back": {"next_back"}, "size_hint": {"size_hint"}, "count": {"count"}, "len": {"len"},
    "push": {"push"}, "pop": {"pop"}, "clear": {"clear"}, "drain": {"drain"}, "with_capacity": {"with_capacity"},
    "get": {"get"}, "get_mut": {"get_mut"}, "extend": {"extend"},
    "from_iter": {"default", "from_iter", "extend"},
    "into_iter": {"into_iter", "iter", "iter_mut"},
    "iter": {"into_iter", "iter"}, "iter_mut": {"into_iter", "iter_mut"},
    # overrides of provided iterator methods (none on the pinned tree; if one appears it is held to the same lockstep rule)
    "nth": {"nth"}, "nth_back": {"nth_back"}, "last": {"last"},
}
ITER_TRAITS = ("Iterator", "DoubleEndedIterator", "ExactSizeIterator", "Extend", "FromIterator", "IntoIterator", "FusedIterator")
# adapters that do not change which collection is operated on
ADAPTERS = {"as_ref", "as_mut", "clone", "borrow", "borrow_mut", "by_ref", "deref", "deref_mut"}
# wrappers around results that keep the component (Option::map(Hue), `?`)
FILES = ("palette/src/macros/struct_of_arrays.rs", "palette/src/alpha/alpha.rs", "palette/src/hues.rs")


def _is_phantom_ty(F, t):
    s = F.S[t] if isinstance(t, int) else str(t)
    return "PhantomData" in s


def components(F, adt_path):
    adt = F.adt_by_path.get(adt_path)
    if adt is None or len(adt["variants"]) != 1:
        return None
    return [f["n"] for f in adt["variants"][0]["f"] if not _is_phantom_ty(F, f["t"])]


def _adt_of(ty):
    t = ty.strip()
    while t.startswith("&"):
        t = t[1:].strip()
        t = re.sub(r"^'\w+\s+", "", t)
        if t.startswith("mut "):
            t = t[4:]
    i = t.find("<")
    return t if i < 0 else t[:i]


class Flow:
    """Origins of values inside one body: which component fields of `self` (or of the local named `result`) a value derives from."""

    def __init__(self, F, body, root_names):
        self.F = F
        self.body = body
        self.roots = set(root_names)
        self.bind = {}      # local hir id -> expression it is bound from (whole)
        self.bind_pos = {}  # local hir id -> expression it is bound from (positional refinement)
        self._collect(body["body"])

    # ---- bindings
    def _pat_binds(self, pat, init):
        """Associate every binding in `pat` with the sub-expression of `init` it destructures, when positional."""
        if pat is None:
            return
        k = pat.get("k")
        if k == "bind":
            self.bind[pat["h"]] = init
            if pat.get("sub"):
                self._pat_binds(pat["sub"], init)
            return
        if k == "tuple":
            items = pat.get("a", [])
            if init is not None and init.get("k") == "tup" and len(init.get("a", [])) == len(items):
                for p, e in zip(items, init["a"]):
                    self._pat_binds(p, e)
            else:
                for p in items:
                    self._pat_binds(p, init)
            return
        if k in ("tstruct",):
            for p in pat.get("a", []):
                self._pat_binds(p, init)
            return
        if k == "struct":
            for _n, p in pat.get("f", []):
                self._pat_binds(p, init)
            return
        if k in ("ref", "deref", "box"):
            self._pat_binds(pat.get("p"), init)
            return
        if k == "or":
            for p in pat.get("a", []):
                self._pat_binds(p, init)
            return
        if k == "slice":
            for p in pat.get("b", []) + pat.get("a", []):
                self._pat_binds(p, init)
            if isinstance(pat.get("mid"), dict):
                self._pat_binds(pat["mid"], init)

    def _collect(self, node):
        for n, _parents in facts.walk(node):
            k = n.get("k")
            if k == "let" and "pat" in n:
                self._pat_binds(n["pat"], n.get("init"))
            elif k == "letexpr":
                self._pat_binds(n["pat"], n.get("init"))
            elif k == "match":
                for arm in n.get("arms", []):
                    self._pat_binds(arm["pat"], n["e"])
            elif k == "mcall":
                # closures passed to an adapter (`opt.map(|x| …)`, `a.zip(b).map(|(a, b)| …)`): parameters derive from the receiver
                for a in n.get("a", []):
                    if isinstance(a, dict) and a.get("k") == "closure":
                        src = self._zip_as_tuple(n["r"])
                        for p in a.get("params", []):
                            self._pat_binds(p, src)

    def _zip_as_tuple(self, e):
        if isinstance(e, dict) and e.get("k") == "mcall" and e.get("n") == "zip" and len(e.get("a", [])) == 1:
            return {"k": "tup", "a": [self._zip_as_tuple(e["r"]), e["a"][0]]}
        return e

    # ---- places
    def place(self, e):
        """Component path of a place expression rooted at a root local: 'f' for root.f; None otherwise.  Adapters/refs are stripped."""
        while True:
            k = e.get("k")
            if k == "ref" or (k == "un" and e.get("op") == "*") or k == "paren":
                e = e["e"]
                continue
            if k == "mcall" and e.get("n") in ADAPTERS and not e.get("a"):
                e = e["r"]
                continue
            break
        if e.get("k") == "field":
            base = e["e"]
            while base.get("k") in ("ref", "paren") or (base.get("k") == "un" and base.get("op") == "*"):
                base = base["e"]
            if base.get("k") == "path" and base["res"].get("k") == "local" and base["res"]["n"] in self.roots:
                return e["n"]
        return None

    def origins(self, e, seen=None):
        """Set of root components the value of `e` derives from."""
        if seen is None:
            seen = set()
        out = set()
        if not isinstance(e, dict):
            return out
        p = self.place(e) if e.get("k") in ("field", "ref", "un", "mcall", "paren") else None
        if p is not None:
            return {p}
        k = e.get("k")
        if k == "path" and e["res"].get("k") == "local":
            h = e["res"]["h"]
            if h in seen:
                return out
            seen.add(h)
            if h in self.bind and self.bind[h] is not None:
                return self.origins(self.bind[h], seen)
            return out
        if k == "closure":
            return out
        for key, v in e.items():
            if key in ("c", "pat", "res"):
                if key == "c" and isinstance(v, dict) and "k" in v:
                    out |= self.origins(v, seen)
                continue
            if isinstance(v, dict):
                out |= self.origins(v, seen)
            elif isinstance(v, list):
                for x in v:
                    if isinstance(x, dict):
                        out |= self.origins(x, seen)
                    elif isinstance(x, list):
                        for y in x:
                            if isinstance(y, dict):
                                out |= self.origins(y, seen)
        return out

    # ---- rendering of arguments, with the component's own field abstracted
    def render(self, e, comp):
        k = e.get("k")
        if k in ("ref", "paren"):
            return self.render(e["e"], comp)
        if k == "un":
            return e.get("op", "") + self.render(e["e"], comp)
        if k == "path":
            r = e["res"]
            if r.get("k") == "local":
                return r["n"]
            return "def"
        if k == "field":
            nm = e["n"]
            return "%s.%s" % (self.render(e["e"], comp), "<F>" if nm == comp else nm)
        if k == "mcall":
            if e["n"] in ("clone", "into_inner", "into") and not e.get("a"):
                return self.render(e["r"], comp)  # by-value adapters: same argument
            return "%s.%s(%s)" % (self.render(e["r"], comp), e["n"], ", ".join(self.render(a, comp) for a in e.get("a", [])))
        if k == "call":
            c = e.get("c")
            nm = c["n"] if isinstance(c, dict) and "n" in c else ("ctor" if "ctor" in e else "fn")
            return "%s(%s)" % (nm, ", ".join(self.render(a, comp) for a in e.get("a", [])))
        if k == "lit":
            return str(e.get("v"))
        return k or "?"


def op_sites(flow, node):
    """(component, operation name, rendered args, node) for every call whose receiver / first argument is a component place."""
    out = []
    for n, _p in facts.walk(node):
        k = n.get("k")
        if k == "mcall":
            if n.get("n") in ADAPTERS and not n.get("a"):
                continue
            comp = flow.place(n["r"])
            if comp is not None:
                out.append((comp, n["n"], tuple(flow.render(a, comp) for a in n.get("a", [])), n))
        elif k == "call" and isinstance(n.get("c"), dict) and "n" in n["c"] and n.get("a"):
            comp = flow.place(n["a"][0])
            if comp is not None:
                out.append((comp, n["c"]["n"], tuple(flow.render(a, comp) for a in n["a"][1:]), n))
    return out


def struct_literals(F, node, adts):
    for n, _p in facts.walk(node):
        if n.get("k") == "struct" and isinstance(n.get("t"), int) and _adt_of(F.S[n["t"]]) in adts:
            yield n
        # tuple-struct constructor of a hue newtype / hue iterator: Name(expr)
        # (a single component: assembled trivially)


def self_adt_of(F, b):
    im = b.get("_impl")
    if im is not None:
        a = im.get("self_adt")
        if a:
            return a
        return _adt_of(im["self_s"])
    return None


def run(F, rep, tier="quick", extra=None, only=None):
    rep.trusted += ["rustc name resolution / type check (field names, ADT definitions, resolved method names)",
                    "std's Vec/slice/iterator operations behave as documented; equal-length components + same-name operations give Vec<Color> behaviour"]
    per_method = {}
    n_bodies = 0
    soa_adts = set()
    cands = []
    for b in F.bodies:
        if b["file"] not in FILES or b.get("name") not in ALLOWED:
            continue
        adt = self_adt_of(F, b)
        if adt is None:
            continue
        comps = components(F, adt)
        if not comps:
            continue
        if b["file"].endswith("hues.rs") and not (adt.startswith("hues::")):
            continue
        cands.append((b, adt, comps))
        soa_adts.add(adt)
    # closed world: an iterator / collection trait impl of a struct-of-arrays type must not contain a method the lockstep rule has no
    # entry for (an `nth_back` or `fold` override is new behaviour nobody compared with Vec<Color>)
    for im in F.impls:
        tr = (im.get("trait") or "").split("::")[-1]
        if tr not in ITER_TRAITS:
            continue
        for it in im["items"]:
            b2 = F.body_by_id.get(it["i"]) if it["kind"] == "Fn" else None
            if b2 is None or b2["file"] not in FILES or "::test" in b2["path"]:
                continue
            if it["n"] not in ALLOWED:
                rep.fail("NAME", b2["path"], "`%s` is overridden in a struct-of-arrays %s impl, but there is no lockstep rule for it" % (it["n"], tr), F.loc(b2))
    # result ADTs: the colours themselves, their Iter types, Alpha, alpha::Iter, hue newtypes and hue iterators
    for a in F.adts:
        if a["path"].endswith("::Iter") or a["path"].startswith("hues::"):
            soa_adts.add(a["path"])
    for b, adt, comps in cands:
        m = b["name"]
        has_self = bool(b.get("params")) and b["params"][0].get("n") == "self"
        roots = ["self"] if has_self else []
        if m == "from_iter":
            roots = ["result"]
        flow = Flow(F, b, roots)
        key = b["path"]
        loc = F.loc(b)
        n_bodies += 1
        per_method[m] = per_method.get(m, 0) + 1
        sites = op_sites(flow, b["body"])
        lits = list(struct_literals(F, b["body"], soa_adts))
        # ---- constructors without a receiver: every component built by the same call
        if not roots or (m == "from_iter"):
            ctor_ok = True
            det = ""
            built = [l for l in lits if _adt_of(F.S[l["t"]]) == adt]
            if m in ("with_capacity", "from_iter"):
                if not built and len(comps) == 1:
                    # hue newtype: Self(Vec::with_capacity(capacity))
                    rep.ob("UNIFORM", key, True, "single-component newtype", loc)
                else:
                    if len(built) != 1:
                        ctor_ok, det = False, "expected one %s literal, found %d" % (adt, len(built))
                    else:
                        sig = {}
                        for fname, fe in built[0]["f"]:
                            if fname in comps:
                                sig[fname] = _ctor_sig(flow, fe)
                        if set(sig) != set(comps):
                            ctor_ok, det = False, "components built %s, declared %s" % (sorted(sig), comps)
                        elif len({_norm_ctor(s) for s in sig.values()}) != 1 and m == "with_capacity":
                            ctor_ok, det = False, "components are built by different calls: %s" % sig
                        elif m == "from_iter" and not all(_norm_ctor(s)[0] in ALLOWED["from_iter"] for s in sig.values()):
                            ctor_ok, det = False, "components are built by %s" % sig
                        elif not all(_norm_ctor(s)[0] in ALLOWED[m] for s in sig.values()):
                            ctor_ok, det = False, "constructor calls %s are not %s" % (sig, sorted(ALLOWED[m]))
                    rep.ob("UNIFORM", key, ctor_ok, det or "every component built by %s" % (sorted({_norm_ctor(s)[0] for s in sig.values()}) if ctor_ok and built else "-"), loc)
            if m != "from_iter":
                continue
        if m in ("iter", "iter_mut") and not sites:
            whole = [n for n, _p in facts.walk(b["body"]) if n.get("k") == "mcall" and n.get("n") == "into_iter"
                     and n["r"].get("k") == "path" and n["r"]["res"].get("n") == "self"]
            rep.ob("COVER", key, len(whole) == 1, "delegates to IntoIterator for the reference to the whole value", loc)
            continue
        # ---- COVER / UNIFORM / NAME
        by_comp = {}
        for comp, name, args, node in sites:
            by_comp.setdefault(comp, []).append((name, args))
        if m == "from_iter" and not sites:
            # delegates to Extend: `result.extend(iter)` on the whole value
            whole = [(n, _p) for n, _p in facts.walk(b["body"]) if n.get("k") == "mcall" and n.get("n") == "extend"]
            # ... unconditionally, and with the iterator it was given: a collect that extends only "when there is something to extend"
            # (size_hint, peeking) drops every item of an iterator that cannot tell its length
            cond = [p_.get("k") for n_, ps in whole for p_ in ps if p_.get("k") in ("if", "match", "loop", "closure")]
            rep.ob("COVER", key, bool(whole) and not cond,
                   "delegates to Extend::extend on the whole value" + ("" if not cond else ", but under %s: some iterators are not collected" % sorted(set(cond))), loc)
            continue
        missing = [c for c in comps if c not in by_comp]
        extra_ = [c for c in by_comp if c not in comps]
        if missing or extra_:
            rep.fail("COVER", key, "component(s) %s of %s are not operated on by `%s` (operated: %s)" % (missing or extra_, adt, m, sorted(by_comp)), loc)
            continue
        rep.ob("COVER", key, True, "all of %s" % comps, loc)
        sigs = {c: tuple(sorted(v)) for c, v in by_comp.items()}
        ref = sigs[comps[0]]
        diff = [c for c in comps if sigs[c] != ref]
        if diff:
            rep.fail("UNIFORM", key, "component `%s` gets %s but `%s` gets %s" % (diff[0], _show(sigs[diff[0]]), comps[0], _show(ref)), loc)
        else:
            rep.ob("UNIFORM", key, True, "each component: %s" % _show(ref), loc)
        names = {n for v in by_comp.values() for n, _a in v}
        bad = names - ALLOWED[m]
        if bad:
            rep.fail("NAME", key, "`%s` applies `%s` to its components (expected %s)" % (m, sorted(bad), sorted(ALLOWED[m])), loc)
        else:
            rep.ob("NAME", key, True, "%s -> %s" % (m, sorted(names)), loc)
        # arguments must not mention another component by name
        leak = []
        for c, v in by_comp.items():
            for _n, args in v:
                for a in args:
                    for other in comps:
                        if other != c and re.search(r"\.%s\b" % re.escape(other), a):
                            leak.append((c, a))
        if leak:
            rep.fail("UNIFORM", key + " args", "operation on `%s` takes `%s`" % leak[0], loc)
        # ---- ASSEMBLE
        res_lits = [l for l in lits]
        for l in res_lits:
            ladt = _adt_of(F.S[l["t"]])
            lcomps = components(F, ladt) or []
            wrong = []
            for fname, fe in l["f"]:
                if fname not in lcomps:
                    continue
                o = flow.origins(fe)
                if fname in comps:
                    if not o and (m == "from_iter" or not roots):
                        continue  # constructor expression (checked by UNIFORM)
                    if o != {fname}:
                        wrong.append("%s <- %s" % (fname, sorted(o)))
                elif o and len(comps) > 1:
                    wrong.append("%s <- %s" % (fname, sorted(o)))
            if set(lcomps) == set(comps) or set(lcomps) <= set(comps):
                if wrong:
                    rep.fail("ASSEMBLE", key, "%s literal: field(s) built from another component: %s" % (ladt.split("::")[-1], "; ".join(wrong)), F.loc(b, l))
                else:
                    rep.ob("ASSEMBLE", key, True, "%s{%s} each from the same-named component" % (ladt.split("::")[-1], ", ".join(lcomps)), F.loc(b, l))
    # floors: counted on the pinned tree
    rep.floor("struct-of-arrays method bodies", n_bodies, 1423)
    for m, want in (("next", 32), ("next_back", 32), ("size_hint", 32), ("count", 32), ("len", 32), ("push", 57), ("pop", 57), ("clear", 57),
                    ("drain", 57), ("with_capacity", 57), ("get", 57), ("get_mut", 57), ("extend", 32), ("from_iter", 27), ("into_iter", 741),
                    ("iter", 32), ("iter_mut", 32)):
        rep.floor("bodies named %s" % m, per_method.get(m, 0), want)
    rep.note("per-method body counts: %s" % sorted(per_method.items()))
    check_shadowing(F, rep)
    check_reference_components(F, rep)
    return {"level": "other", "explanation": EXPLANATION}


# ------------------------------------------------------------------------------------------ REFCOMP
# An indexed read of a struct-of-arrays colour (`get`, `get_mut`, iteration) yields a colour of *references*; the value is read with
# `.copied()` / `.cloned()` / `.as_refs()` and written with `.set(value)` (macros/reference_component.rs, and the same four methods of the
# hue newtypes).  Each is field-wise: component f of the result comes from component f of the receiver (and of `value` for `set`), every
# non-phantom component is covered, and nothing else happens.  A swapped pair here is a wrong read / write at one index of one type.
REF_OPS = {"copied": {"copied", "<deref>"}, "cloned": {"cloned", "clone"}, "as_refs": {"as_refs", "as_ref", "<deref>"}, "as_ref": {"<deref>"},
           "set": {"set", "<assign>"}}


def _proj_fields(node, roots):
    """names of fields projected directly from one of the locals in `roots` inside node"""
    out = []
    for n, _p in facts.walk(node):
        if n.get("k") == "field":
            e = n.get("e") or {}
            if e.get("k") == "path" and isinstance(e.get("res"), dict) and e["res"].get("k") == "local" and e["res"].get("n") in roots:
                out.append((e["res"]["n"], n["n"]))
    return out


def _ops_in(F, node):
    ops = []
    for n, _p in facts.walk(node):
        c = n.get("c")
        if isinstance(c, dict) and "d" in c:
            ops.append(F.S[c["d"]].split("::")[-1])
        elif n.get("k") == "un" and n.get("op") == "*":
            ops.append("<deref>")
        elif n.get("k") not in ("field", "path", "ref", "un", "struct", "call", "mcall", "block", "semi", "assign"):
            ops.append("<%s>" % n.get("k"))
    return ops


def check_reference_components(F, rep):
    n = 0
    for b in F.bodies:
        in_macro = b["file"].endswith("macros/reference_component.rs")
        in_hues = b["file"].endswith("palette/src/hues.rs") and b["name"] in ("copied", "cloned", "set", "as_ref") and b["_impl"] is not None \
            and not b["_impl"].get("trait")
        if not (in_macro or in_hues) or b["dk"] not in ("Fn", "AssocFn") or "::test" in b["path"]:
            continue
        m = b["name"]
        key = "%s[%s]" % (m, b["_impl"]["self_s"] if b["_impl"] else b["path"])
        if m not in REF_OPS:
            rep.fail("REFCOMP", key, "method of a reference-component impl without a rule", F.loc(b))
            continue
        adt = self_adt_of(F, b)
        comps = components(F, adt)
        if not comps:
            rep.fail("REFCOMP", key, "cannot list the components of %s" % adt, F.loc(b))
            continue
        n += 1
        body = b["body"]
        problems = []
        pairs = []   # (target field, expression)
        if m == "set":
            if body.get("e") is not None:
                problems.append("set has a tail expression")
            for st in body.get("s", []):
                e = st.get("e") if st.get("k") == "semi" else None
                if e is None:
                    problems.append("statement %s" % st.get("k"))
                    continue
                if e.get("k") == "assign":
                    lhs, rhs = e["a"]
                    lf = _proj_fields(lhs, {"self"})
                    if len(lf) != 1 or not (lhs.get("k") == "un" and lhs.get("op") == "*"):
                        problems.append("assignment target is not `*self.<f>`")
                        continue
                    pairs.append((lf[0][1], rhs))
                elif e.get("k") == "mcall" and e.get("n") == "set":
                    lf = _proj_fields(e["r"], {"self"})
                    if len(lf) != 1 or len(e.get("a", [])) != 1:
                        problems.append("nested set is not `self.<f>.set(value.<f>)`")
                        continue
                    pairs.append((lf[0][1], e["a"][0]))
                else:
                    problems.append("statement is neither `*self.f = value.f` nor `self.f.set(value.f)`")
            src_root = "value"
        else:
            tail = body.get("e")
            if body.get("s") or tail is None:
                problems.append("body is not a single constructor expression")
            elif tail.get("k") == "struct":
                for fname, fe in tail["f"]:
                    if fname in comps:
                        pairs.append((fname, fe))
            elif tail.get("k") == "call" and "ctor" in tail and len(tail.get("a", [])) == len(comps):
                for fname, fe in zip(comps, tail["a"]):
                    pairs.append((fname, fe))
            else:
                problems.append("result is not the struct literal / constructor of %s" % adt)
            src_root = "self"
        seen = [f for f, _e in pairs]
        if sorted(seen) != sorted(comps):
            problems.append("components written %s, components of %s are %s" % (sorted(seen), adt.split("::")[-1], sorted(comps)))
        for f, e in pairs:
            pf = _proj_fields(e, {"self", "value"})
            if pf != [(src_root, f)]:
                problems.append("%s <- %s" % (f, ["%s.%s" % x for x in pf]))
            ops = [o for o in _ops_in(F, e) if o not in REF_OPS[m]]
            if m in ("copied", "cloned", "as_refs", "as_ref") and ops:
                problems.append("%s: unexpected operation(s) %s" % (f, sorted(set(ops))))
            if m == "set" and [o for o in ops if o != "<deref>"]:
                problems.append("%s: unexpected operation(s) %s" % (f, sorted(set(ops))))
        rep.ob("REFCOMP", key, not problems, "; ".join(problems[:4]) if problems else "%s field by field over %s" % (m, ", ".join(comps)), F.loc(b), nontrivial=False)
    rep.floor("reference-component methods", n, 342)


SOA_METHODS = {"get", "get_mut", "set", "as_refs", "copied", "cloned", "with_capacity", "push", "pop", "clear", "drain"}


def check_shadowing(F, rep):
    """SOA-SHADOW: `Alpha` derefs to its colour, and the colour has collection methods of the same names (`clear`, `pop`, `drain`, `get`, ...).
    If the Alpha-level impl does not apply to some `Alpha<X<Vec<T>>, Vec<A>>` the call still compiles, runs the colour's method and leaves the
    alpha collection untouched (lengths diverge, later colours pair with the wrong alpha).  So every collection impl on Alpha must cover ALL
    alpha collections: the alpha argument of its self type is built from an impl parameter that occurs nowhere in the colour argument and
    carries no bound."""
    n = 0
    for im in F.impls:
        if im.get("trait") is not None or not im["self_s"].startswith("alpha::alpha::Alpha<"):
            continue
        names = {i["n"] for i in im["items"]}
        if not (names & SOA_METHODS):
            continue
        base, args = alg.split_type(im["self_s"])
        if len(args) != 2:
            continue
        colour, alpha = args
        n += 1
        gens = im.get("generics") or []
        m = re.fullmatch(r"(?:&(?:mut )?|std::vec::Vec<|\[)?\s*(\w+)\s*(?:>|; \w+\])?", alpha)
        g = m.group(1) if m else None
        problems = []
        if g is None or g not in gens:
            problems.append("the alpha collection `%s` is not built from an impl parameter" % alpha)
        else:
            if re.search(r"\b%s\b" % re.escape(g), colour):
                problems.append("the alpha element parameter `%s` is shared with the colour `%s`: mixed element types fall through Deref to the colour's method" % (g, colour))
            extra = [p_ for p_ in im.get("preds", []) if re.match(r"^%s\b" % re.escape(g), p_) and "Sized" not in p_]
            if extra:
                problems.append("the alpha parameter carries bounds %s: alpha collections outside them fall through Deref" % extra)
        rep.ob("SOA-SHADOW", "%s {%s}" % (im["self_s"], ", ".join(sorted(names & SOA_METHODS))), not problems,
               "; ".join(problems) if problems else "applies to every alpha collection of this shape (free parameter %s)" % g,
               "%s:%s" % (F.S[im["loc"][0]], im["loc"][1]))
    rep.floor("collection impls on Alpha", n, 104)



def _ctor_sig(flow, e):
    while e.get("k") in ("ref", "paren") or (e.get("k") == "mcall" and e.get("n") in ("into",) and not e.get("a")):
        e = e["e"] if e.get("k") in ("ref", "paren") else e["r"]  # `.into()` wraps the collection into the hue newtype
    if e.get("k") == "call" and isinstance(e.get("c"), dict) and "n" in e["c"]:
        return (e["c"]["n"], tuple(flow.render(a, None) for a in e.get("a", [])))
    if e.get("k") == "mcall":
        return (e["n"], tuple(flow.render(a, None) for a in e.get("a", [])))
    if e.get("k") == "path" and e["res"].get("k") == "local":
        h = e["res"]["h"]
        if h in flow.bind and flow.bind[h] is not None:
            return _ctor_sig(flow, flow.bind[h])
    return (flow.render(e, None), ())


def _norm_ctor(s):
    return s


def _show(sig):
    return "; ".join("%s(%s)" % (n, ", ".join(a)) for n, a in sig)
