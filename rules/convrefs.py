"""Published definitions of the directly implemented conversions, transcribed independently
of the code (DESIGN Appendix A).  Each reference takes the reference DSL `R` and the symbolic
source colour (a sym.Struct whose fields are the public field names) and returns the target.
"""
from fractions import Fraction as Fr

from .sym import Struct, Tuple

PH = Struct("PhantomData", {})


def wp(R):
    """White point tristimulus values as symbols wp.x, wp.y, wp.z."""
    return R.s("wp.x"), R.s("wp.y"), R.s("wp.z")


def hue_struct(path, v):
    return Struct(path, {"0": v})


# ---- CIE xyY ------------------------------------------------------------------
def yxy_from_xyz(R, c):
    X, Y, Z = c.fields["x"], c.fields["y"], c.fields["z"]
    s = R.add(X, Y, Z)
    ok = R.valid(s)
    return Struct("yxy::Yxy", {"x": R.ite(ok, R.div(X, s), 0), "y": R.ite(ok, R.div(Y, s), 0), "luma": Y, "white_point": PH})


def xyz_from_yxy(R, c):
    x, y, Y = c.fields["x"], c.fields["y"], c.fields["luma"]
    ok = R.valid(y)
    return Struct("xyz::Xyz", {"x": R.ite(ok, R.div(R.mul(x, Y), y), 0), "y": Y,
                               "z": R.ite(ok, R.div(R.mul(R.sub(R.sub(1, x), y), Y), y), 0), "white_point": PH})


# ---- CIE L*a*b* -----------------------------------------------------------------
EPS = Fr(6, 29) ** 3          # (6/29)^3
KAPPA_LAB = Fr(841, 108)      # 1/3 (29/6)^2
DELTA = Fr(4, 29)


def lab_f(R, t):
    return R.ite(R.gt(t, EPS), R.cbrt(t), R.add(R.mul(KAPPA_LAB, t), DELTA))


def lab_from_xyz(R, c):
    xn, yn, zn = wp(R)
    fx, fy, fz = lab_f(R, R.div(c.fields["x"], xn)), lab_f(R, R.div(c.fields["y"], yn)), lab_f(R, R.div(c.fields["z"], zn))
    return Struct("lab::Lab", {"l": R.sub(R.mul(116, fy), 16), "a": R.mul(500, R.sub(fx, fy)), "b": R.mul(200, R.sub(fy, fz)), "white_point": PH})


def lab_g(R, s):
    return R.ite(R.gt(s, Fr(6, 29)), R.pow(s, 3), R.mul(Fr(108, 841), R.sub(s, DELTA)))


def xyz_from_lab(R, c):
    xn, yn, zn = wp(R)
    fy = R.div(R.add(c.fields["l"], 16), 116)
    fx = R.add(fy, R.div(c.fields["a"], 500))
    fz = R.sub(fy, R.div(c.fields["b"], 200))
    return Struct("xyz::Xyz", {"x": R.mul(xn, lab_g(R, fx)), "y": R.mul(yn, lab_g(R, fy)), "z": R.mul(zn, lab_g(R, fz)), "white_point": PH})


# ---- CIE L*u*v* -------------------------------------------------------------------
KAPPA_LUV = Fr(29, 3) ** 3


def uv_prime(R, X, Y, Z):
    d = R.add(X, R.mul(15, Y), R.mul(3, Z))
    return R.div(R.mul(4, X), d), R.div(R.mul(9, Y), d), d


def luv_from_xyz(R, c):
    X, Y, Z = c.fields["x"], c.fields["y"], c.fields["z"]
    xn, yn, zn = wp(R)
    up, vp, d = uv_prime(R, X, Y, Z)
    un, vn, _ = uv_prime(R, xn, yn, zn)
    yr = R.div(Y, yn)
    L = R.ite(R.gt(yr, EPS), R.sub(R.mul(116, R.cbrt(yr)), 16), R.mul(KAPPA_LUV, yr))
    zero = R.c(0)
    body = Struct("luv::Luv", {"l": L, "u": R.mul(13, L, R.sub(up, un)), "v": R.mul(13, L, R.sub(vp, vn)), "white_point": PH})
    black = Struct("luv::Luv", {"l": zero, "u": zero, "v": zero, "white_point": PH})
    return R.ite(R.eq(d, 0), black, body)


def xyz_from_luv(R, c):
    L, u, v = c.fields["l"], c.fields["u"], c.fields["v"]
    xn, yn, zn = wp(R)
    un, vn, _ = uv_prime(R, xn, yn, zn)
    Y = R.mul(yn, R.ite(R.gt(L, 8), R.pow(R.div(R.add(L, 16), 116), 3), R.div(L, KAPPA_LUV)))
    up = R.add(R.div(u, R.mul(13, L)), un)
    vp = R.add(R.div(v, R.mul(13, L)), vn)
    X = R.div(R.mul(Y, 9, up), R.mul(4, vp))
    Z = R.div(R.mul(Y, R.sub(R.sub(12, R.mul(3, up)), R.mul(20, vp))), R.mul(4, vp))
    zero = R.c(0)
    black = Struct("xyz::Xyz", {"x": zero, "y": zero, "z": zero, "white_point": PH})
    # palette's documented cut: L < 1e-5 is black
    return R.ite(R.lt(L, Fr(1, 100000)), black, Struct("xyz::Xyz", {"x": X, "y": Y, "z": Z, "white_point": PH}))


# ---- polar forms ---------------------------------------------------------------------
def polar_from_rect(R, path, huepath, a, b, **rest):
    """C = sqrt(a^2+b^2); h = pi + atan2(-b, -a) in degrees (palette's normalised atan2)."""
    hue = R.f("rad2deg", R.add(R.s("pi"), R.f("atan2", R.neg(b), R.neg(a))))
    f = dict(rest)
    f["chroma_value"] = R.sqrt(R.add(R.pow(a, 2), R.pow(b, 2)))
    f["hue_value"] = hue_struct(huepath, hue)
    return f


def rect_from_polar(R, chroma, hue0):
    c = R.max(chroma, 0)
    h = R.f("deg2rad", hue0)
    return R.mul(c, R.f("cos", h)), R.mul(c, R.f("sin", h))


# ---- hexcone ---------------------------------------------------------------------------
def rgb_from_hexcone(R, hue0, C, m):
    """(R,G,B) = m + (C,X,0),(X,C,0),(0,C,X),(0,X,C),(X,0,C),(C,0,X) on H' in [0,1),...,[5,6)."""
    h = R.div(R.f("norm_unsigned", hue0), 60)
    hmod2 = R.sub(h, R.mul(2, R.f("floor", R.div(h, 2))))
    X = R.mul(C, R.sub(1, R.abs(R.sub(hmod2, 1))))
    zero = R.c(0)
    table = [(C, X, zero), (X, C, zero), (zero, C, X), (zero, X, C), (X, zero, C), (C, zero, X)]

    def comp(i):
        v = table[5][i]
        for k in (4, 3, 2, 1, 0):
            v = R.ite(R.and_(R.ge(h, k), R.lt(h, k + 1)), table[k][i], v)
        return R.add(v, m)
    return comp(0), comp(1), comp(2)


def rgb_from_hsv(R, c):
    V, S = c.fields["value"], c.fields["saturation"]
    C = R.mul(V, S)
    r, g, b = rgb_from_hexcone(R, c.fields["hue"].fields["0"], C, R.sub(V, C))
    return Struct("rgb::rgb::Rgb", {"red": r, "green": g, "blue": b, "standard": PH})


def rgb_from_hsl(R, c):
    L, S = c.fields["lightness"], c.fields["saturation"]
    C = R.mul(R.sub(1, R.abs(R.sub(R.mul(2, L), 1))), S)
    r, g, b = rgb_from_hexcone(R, c.fields["hue"].fields["0"], C, R.sub(L, R.div(C, 2)))
    return Struct("rgb::rgb::Rgb", {"red": r, "green": g, "blue": b, "standard": PH})


def hsv_from_hsl(R, c):
    L, S = c.fields["lightness"], c.fields["saturation"]
    x = R.mul(S, R.ite(R.lt(L, Fr(1, 2)), L, R.sub(1, L)))      # S * min(L, 1-L)
    V = R.add(L, x)
    return Struct("hsv::Hsv", {"hue": c.fields["hue"], "saturation": R.ite(R.valid(V), R.div(R.mul(2, x), V), 0), "value": V, "standard": PH})


def hsl_from_hsv(R, c):
    V, S = c.fields["value"], c.fields["saturation"]
    x = R.mul(R.sub(2, S), V)
    L = R.div(x, 2)
    den = R.ite(R.lt(x, 1), x, R.sub(2, x))
    sat = R.ite(R.not_(R.valid(V)), 0,
                R.ite(R.lt(x, 1),
                      R.ite(R.valid(x), R.div(R.mul(S, V), x), 0),
                      R.ite(R.valid(R.sub(2, x)), R.div(R.mul(S, V), R.sub(2, x)), 0)))
    return Struct("hsl::Hsl", {"hue": c.fields["hue"], "saturation": sat, "lightness": L, "standard": PH})


def hwb_from_hsv(R, c, path="hwb::Hwb", extra=True):
    V, S = c.fields["value"], c.fields["saturation"]
    f = {"hue": c.fields["hue"], "whiteness": R.mul(R.sub(1, S), V), "blackness": R.sub(1, V)}
    if extra:
        f["standard"] = PH
    return Struct(path, f)


def hsv_from_hwb(R, c, path="hsv::Hsv", extra=True):
    W, B = c.fields["whiteness"], c.fields["blackness"]
    V = R.sub(1, B)
    f = {"hue": c.fields["hue"], "saturation": R.ite(R.valid(V), R.sub(1, R.div(W, V)), 0), "value": V}
    if extra:
        f["standard"] = PH
    return Struct(path, f)
