"""C12 — hex strings, colour names and packed integers round-trip and parse strictly."""
import os
import re

from . import alg, sym, poly, facts
from .common import Session, check_value, impl_methods, apps_of, atoms_of
from .sym import Struct, Tuple, Array, Ite, Opaque, Bottom, StrVal
from .poly import RatFunc
from .c08 import _find_apps

EXPLANATION = (
    "Static. HEX-1 (path rule on the symbolically evaluated helpers of rgb/hex.rs): on every path, before any byte-range slice of the "
    "string or any from_str_radix, the *whole* argument has passed validate_hex_digits (ASCII hex digits only) - so slicing cannot hit a "
    "char boundary and no sign reaches the integer parser; validate_hex_digits is `bytes().all(is_ascii_hexdigit)`. HEX-2: the decision "
    "tree of every FromStr impl (10) is enumerated: the accepted (digit count -> helper/bit depth) table equals the documented one, the "
    "argument is the string with at most one '#' stripped, every other length is an error; each helper's slices tile [0,len) in equal "
    "widths in r,g,b(,a) order and 4-bit digits are ×17. HEX-3: LowerHex/UpperHex write red,green,blue (Alpha: colour then alpha) zero "
    "padded to 2·size_of::<T>(). PACK: for every ComponentOrder impl unpack∘pack is the identity as normal forms and pack's order spells the "
    "type's name; integer forms pair from_be_bytes with to_be_bytes; From<u32> uses ARGB for Rgb and RGBA for Rgba in both directions. "
    "NAMED: every line of codegen/res/svg_colors.txt has a constant with its bytes and a map entry name -> that constant, keys lower case "
    "and unique, and nothing else."
    " PACK-FWD: the packing API around ComponentOrder as terms over uninterpreted O::pack / O::unpack, documented default orders of the bare-integer forms. ALIAS: Packed* aliases name their order."
)

DIGITS = {  # (channels, component type) -> {digit count: bits per component}
    (3, "u8"): {3: 4, 6: 8}, (4, "u8"): {4: 4, 8: 8},
    (3, "u16"): {3: 4, 6: 8, 12: 16}, (4, "u16"): {4: 4, 8: 8, 16: 16},
    (3, "u32"): {3: 4, 6: 8, 12: 16, 24: 32}, (4, "u32"): {4: 4, 8: 8, 16: 16, 32: 32},
    (3, "f32"): {3: 4, 6: 8, 12: 16}, (4, "f32"): {4: 4, 8: 8, 16: 16},
    (3, "f64"): {3: 4, 6: 8, 12: 16, 24: 32}, (4, "f64"): {4: 4, 8: 8, 16: 16, 32: 32},
}
VALIDATE = "rgb::hex::validate_hex_digits"


def run(F, rep, tier="quick", extra=None, only=None):
    rep.trusted += ["rustc name resolution / type check", "path conditions of the symbolic evaluator (`?` and early returns)",
                    "len(s.strip_prefix('#').unwrap()) = len(s) - 1", "the documented digit-count table (rules/c12.py)"]
    check_hex_helpers(F, rep)
    check_from_str(F, rep)
    check_fmt(F, rep)
    check_from_hex(F, rep)
    check_pack(F, rep)
    check_pack_forwarders(F, rep)
    check_named(F, rep)
    from . import aliasrule
    aliasrule.check(F, rep, "C12", 6)
    return {"level": "other"}


# ------------------------------------------------------------------------------------ HEX-1 + helper tiling
def check_hex_helpers(F, rep):
    S = Session(F, no_inline={VALIDATE})
    helpers = [b for b in F.bodies if b["path"].startswith("rgb::hex::") and b["dk"] == "Fn" and b["path"] != VALIDATE]
    rep.floor("hex helpers", len(helpers), 8)
    for b in helpers:
        name = b["name"]
        m = re.match(r"^(rgba?)_from_hex_(\d+)bit$", name)
        key = "helper:" + name
        try:
            v, _ = S.eval(b, names=["hex"])
            v = sym.hoist(v)
        except (Opaque, poly.TooBig) as ex:
            rep.fail("HEX-1", key, "uninterpretable: %s" % ex, F.loc(b))
            continue
        problems = []
        n_ok = 0
        for path, leaf in sym.leaves(v):
            ok, _ = alg.feasible(path, S.ctx)
            if not ok:
                continue
            validated = False
            for c, pol in path:
                txt = sym.show_cond(c)
                if c[0] == "pred" and c[1] == "is_ok" and c[3][0] == VALIDATE + "<>(hex)":
                    if pol:
                        validated = True
                    continue
                if ("index(" in txt or "from_str_radix" in txt) and not validated:
                    problems.append("string is sliced / parsed before the whole argument passed validate_hex_digits: %s" % txt[:120])
                    break
            if isinstance(leaf, Struct) and leaf.path.split("::")[-1] == "Ok":
                n_ok += 1
                if not validated:
                    problems.append("a success path does not validate the whole string")
                if m:
                    problems += tiling(leaf.fields["0"], 4 if m.group(1) == "rgba" else 3, int(m.group(2)))
        if n_ok != 1:
            problems.append("%d success paths" % n_ok)
        rep.ob("HEX-1", key, not problems, "; ".join(problems[:3]) if problems else "validated before every slice/parse; slices tile the string in r,g,b(,a) order", F.loc(b))
    # validate_hex_digits itself
    try:
        b = F.fn(VALIDATE)
        S2 = Session(F)
        v, _ = S2.eval(b, names=["hex"])
        txt = repr(v)
        ok = isinstance(v, Ite) and "Iterator>::all" in txt and "::bytes<>(hex)" in txt and isinstance(v.t, Struct) and v.t.path.endswith("Ok") \
            and isinstance(v.f, Struct) and v.f.path.endswith("Err")
        calls = [F.S[n["c"]["d"]] for n, _p in facts.walk(b["body"]) if isinstance(n.get("c"), dict) and "d" in n["c"]]
        ok = ok and any(c.endswith("is_ascii_hexdigit") for c in calls)
        rep.ob("HEX-1", "validate_hex_digits", ok, "Ok iff bytes().all(is_ascii_hexdigit): %s" % txt[:200], F.loc(b))
    except (facts.AnchorMissing, Opaque) as ex:
        rep.fail("HEX-1", "validate_hex_digits", "validation function missing or uninterpretable: %s" % ex)


def tiling(tup, channels, bits):
    problems = []
    if not isinstance(tup, Tuple) or len(tup.items) != channels:
        return ["result is not a %d-tuple" % channels]
    w = bits // 4
    for i, comp in enumerate(tup.items):
        if not isinstance(comp, RatFunc):
            problems.append("component %d not scalar" % i)
            continue
        idx = _find_apps(comp, lambda n: n == "index")
        if len(idx) != 1:
            problems.append("component %d reads %d slices" % (i, len(idx)))
            continue
        rng_ = repr(idx[0].args[1])
        mm = re.match(r"^mk:Range\{end,start\}\((\d+), (\d+)\)$", rng_) or re.match(r"^mk:RangeTo\{end\}\((\d+)\)$", rng_)
        if not mm:
            problems.append("component %d slice %s" % (i, rng_))
            continue
        end = int(mm.group(1))
        start = int(mm.group(2)) if mm.lastindex == 2 else 0
        if (start, end) != (i * w, (i + 1) * w):
            problems.append("component %d reads [%d..%d), expected [%d..%d)" % (i, start, end, i * w, (i + 1) * w))
        # scale: 4-bit digits are replicated (×17)
        atom = RatFunc.atom(_find_apps(comp, lambda n: n == "ok_value")[0], comp.tab) if _find_apps(comp, lambda n: n == "ok_value") else None
        want = 17 if bits == 4 else 1
        if atom is None or not comp.equals(atom * RatFunc.const(want, comp.tab)):
            problems.append("component %d is not %s× the parsed digits" % (i, want))
    return problems


# ------------------------------------------------------------------------------------ HEX-2
def check_from_str(F, rep):
    helpers = {b["path"] for b in F.bodies if b["path"].startswith("rgb::hex::")}
    S = Session(F, no_inline=helpers)
    n = 0
    for im, ms in impl_methods(F, "std::str::FromStr"):
        s = im["self_s"]
        m = re.match(r"^(?:rgb::rgb::Rgb<S(?:, (\w+))?>|alpha::alpha::Alpha<rgb::rgb::Rgb<S(?:, (\w+))?>, (\w+)>)$", s)
        if not m:
            continue
        ch = 4 if s.startswith("alpha::") else 3
        comp = (m.group(2) if ch == 4 else m.group(1)) or "f32"  # the default component type is elided in the printed type
        key = "from_str[%s]" % s
        b = ms.get("from_str")
        n += 1
        try:
            v, _ = S.eval(b, names=["hex"])
            v = sym.hoist(v)
        except (Opaque, poly.TooBig) as ex:
            rep.fail("HEX-2", key, "uninterpretable: %s" % ex, F.loc(b))
            continue
        table = {}
        problems = []
        for path, leaf in sym.leaves(v):
            ok, ivs = alg.feasible(path, S.ctx)
            if not ok or isinstance(leaf, Bottom):
                continue
            if not (isinstance(leaf, Struct) and leaf.path.split("::")[-1] == "Ok"):
                continue
            hs = _find_apps(leaf, lambda nme: nme.startswith("rgb::hex::rgb"))
            names = {h.name for h in hs}
            args = {repr(h.args[0]) for h in hs}
            if len(names) != 1 or len(args) != 1:
                problems.append("success path uses helpers %s on %s" % (sorted(names), sorted(args)))
                continue
            hm = re.match(r"^rgb::hex::(rgba?)_from_hex_(\d+)bit<>$", names.pop())
            arg = args.pop()
            strips = arg.count("strip_prefix")
            if strips > 1 or not (arg == "hex" or arg.startswith("payload:Some.0(") and arg.endswith("(hex, str:#))")):
                problems.append("accepts a string with %d prefixes stripped: %s" % (strips, arg[:80]))
            # digit count: the length literal on the path for this argument
            ln = None
            for p_, iv in (ivs or {}).items():
                pt = iv.point()
                if pt is not None:
                    ln = int(pt) - strips if strips and _is_len_of_hex(p_) else int(pt)
            if ln is None or hm is None:
                problems.append("cannot determine the digit count of a success path")
                continue
            if (hm.group(1) == "rgba") != (ch == 4):
                problems.append("%d digits parsed with %s helper" % (ln, hm.group(1)))
            table.setdefault(ln, set()).add(int(hm.group(2)))
        exp = DIGITS[(ch, comp)]
        got = {k: sorted(vs) for k, vs in table.items()}
        if got != {k: [b_] for k, b_ in exp.items()}:
            problems.append("accepted (digits -> bits) %s, documented %s" % (got, exp))
        rep.ob("HEX-2", key, not problems, "; ".join(problems[:3]) if problems else "accepted digit counts %s; everything else is an error" % sorted(got), F.loc(b))
    rep.floor("FromStr impls", n, 10)


def _is_len_of_hex(pkey):
    try:
        (mono, coef), = pkey
        a = poly.atom_by_id(mono[0][0])
        return repr(a) == "str::len(hex)"
    except Exception:
        return False


# ------------------------------------------------------------------------------------ HEX-3
def check_fmt(F, rep):
    for tr, ctor in (("std::fmt::LowerHex", "new_lower_hex"), ("std::fmt::UpperHex", "new_upper_hex")):
        for im, ms in impl_methods(F, tr):
            adt = (im.get("self_adt") or "").split("::")[-1]
            if adt not in ("Rgb", "Alpha", "Luma"):
                continue
            b = ms.get("fmt")
            fields, ctors, two, sizeof = [], [], False, False
            for n, parents in facts.walk(b["body"]):
                if n.get("k") == "field" and n["e"].get("k") == "path" and n["e"]["res"].get("n") == "self":
                    fields.append(n["n"])
                c = n.get("c")
                if isinstance(c, dict) and "d" in c:
                    q = F.S[c["d"]]
                    if "Argument" in q and q.split("::")[-1].startswith("new_"):
                        ctors.append(q.split("::")[-1])
                    if q.endswith("mem::size_of"):
                        sizeof = [F.S[a] for a in c["a"]] == ["T"]
                if n.get("k") == "lit" and n["lit"].get("v") == "2" and any(p.get("k") == "bin" and p.get("op") == "*" for p in parents[-2:]):
                    two = True
            want = {"Rgb": ["red", "green", "blue"], "Alpha": ["color", "alpha"], "Luma": ["luma"]}[adt]
            hexc = [c for c in ctors if c in ("new_lower_hex", "new_upper_hex")]
            ok = fields == want and hexc == [ctor] * len(want) and two and sizeof
            rep.ob("HEX-3", "%s[%s]" % (tr.split("::")[-1], im["self_s"]), ok,
                   "writes %s with %s, width 2*size_of::<T>(): %s" % (fields, hexc, two and sizeof), F.loc(b))


# ------------------------------------------------------------------------------------ PACK
def check_pack(F, rep):
    S = Session(F)
    n = 0
    for im, ms in impl_methods(F, "cast::packed::ComponentOrder"):
        order = im["self_s"].split("::")[-1]
        pk, un = ms.get("pack"), ms.get("unpack")
        targ = im["trait_args_s"]
        key = "ComponentOrder[%s<%s>]" % (im["self_s"], ",".join(targ))
        if im["self_s"] == "T":
            # integer forms: from_be_bytes(T::pack(c)) / T::unpack(x.to_be_bytes())
            n += 1
            pc = [F.S[n_["c"]["d"]].split("::")[-1] for n_, _p in facts.walk(pk["body"]) if isinstance(n_.get("c"), dict) and "d" in n_["c"]]
            uc = [F.S[n_["c"]["d"]].split("::")[-1] for n_, _p in facts.walk(un["body"]) if isinstance(n_.get("c"), dict) and "d" in n_["c"]]
            if targ[1] == "u8":
                ok = pc == ["pack"] and uc == ["unpack"]
            else:
                ok = sorted(pc) == ["from_be_bytes", "pack"] and sorted(uc) == ["to_be_bytes", "unpack"]
            rep.ob("PACK", key, ok, "pack calls %s, unpack calls %s" % (pc, uc), F.loc(pk))
            continue
        n += 1
        try:
            args = S.args(pk, ["c"])
            c = args[0]
            pv, _ = S.ev.eval_body(pk, [c])
            uv, _ = S.ev.eval_body(un, [pv])
            check_value(rep, "PACK", "unpack∘pack:" + key, S, un, uv, c, sample="unpack(pack(c)) = c")
            # order spells the name
            comps = {"r": "red", "g": "green", "b": "blue", "a": "alpha", "l": "luma"}
            letters = re.findall(r"[A-Z][a-z]*", order)
            seq = [ch for ch in order.lower()] if len(order) <= 5 else None
            if seq and isinstance(pv, Array):
                col = c.fields["color"] if "color" in c.fields else c
                want = []
                for ch in order.lower():
                    if order.lower().startswith("la") or order.lower().startswith("al"):
                        want.append(c.fields["alpha"] if ch == "a" else col.fields["luma"])
                    else:
                        want.append(c.fields["alpha"] if ch == "a" else col.fields[comps[ch]])
                ok = len(want) == len(pv.items) and all(sym.val_eq(x, y) for x, y in zip(pv.items, want))
                rep.ob("PACK", "order-spells-name:" + key, ok, "pack = %r" % (pv,), F.loc(pk))
        except (Opaque, poly.TooBig, KeyError) as ex:
            rep.fail("PACK", key, "uninterpretable: %s" % ex, F.loc(pk))
    rep.floor("ComponentOrder impls", n, 11)
    # From<u32>: Rgb uses ARGB, Rgba uses RGBA, in both directions
    S2 = Session(F)
    for im, ms in impl_methods(F, "std::convert::From"):
        s, a = im["self_s"], (im["trait_args_s"][0] if im["trait_args_s"] else "")
        pair = None
        if a == "u32" and s.startswith(("rgb::rgb::Rgb<", "alpha::alpha::Alpha<rgb::rgb::Rgb<")):
            pair = ("from-u32", s)
        if s == "u32" and a.startswith(("rgb::rgb::Rgb<", "alpha::alpha::Alpha<rgb::rgb::Rgb<")):
            pair = ("into-u32", a)
        if pair is None:
            continue
        b = ms.get("from")
        want = "rgb::channels::Rgba" if pair[1].startswith("alpha::") else "rgb::channels::Argb"
        orders = set()
        for n_, _p in facts.walk(b["body"]):
            c = n_.get("c")
            if isinstance(c, dict) and "d" in c:
                for t in [F.S[x] for x in c["a"]]:
                    if t.startswith("rgb::channels::"):
                        orders.add(t)
        rep.ob("PACK", "%s[%s]" % pair, orders == {want}, "channel order %s (expected %s)" % (sorted(orders), want), F.loc(b))


# ------------------------------------------------------------------------------------ HEX-FWD
def check_from_hex(F, rep):
    """HEX-FWD: `Rgb::from_hex` / `Rgba::from_hex` are documented as `hex.parse()`: the strictness decided for FromStr (HEX-1/2) holds for them
    only if they hand the string to `parse` untouched (no trim, no case folding, no prefix handling of their own)."""
    n = 0
    for b in F.bodies:
        if b["name"] != "from_hex" or not b["file"].endswith("rgb/rgb.rs") or "::test" in b["path"]:
            continue
        n += 1
        calls, other = [], []
        recv_ok = False
        for node, _p in facts.walk(b["body"]):
            c = node.get("c")
            if isinstance(c, dict) and "d" in c:
                calls.append(F.S[c["d"]].split("::")[-1])
                if (node.get("k") == "mcall" and node.get("n") == "parse") or (node.get("k") == "call" and calls[-1] == "from_str" and node.get("a")):
                    r = node["r"] if node.get("k") == "mcall" else node["a"][0]   # hex.parse() or Self::from_str(hex): the same strict parser
                    recv_ok = r.get("k") == "path" and isinstance(r.get("res"), dict) and r["res"].get("k") == "local" and r["res"].get("n") == (b["params"][0].get("n") if b.get("params") else None)
            elif node.get("k") not in ("path", "block", "mcall", "call"):
                other.append("<%s>" % node.get("k"))
        ok = calls in (["parse"], ["from_str"]) and recv_ok and not other
        rep.ob("HEX-FWD", "from_hex[%s]" % (b["_impl"]["self_s"] if b["_impl"] else b["path"]), ok,
               "calls %s on %s%s" % (calls, "the argument itself" if recv_ok else "something other than the argument", (" " + " ".join(other)) if other else ""), F.loc(b), nontrivial=False)
    rep.floor("from_hex constructors", n, 2)


# ------------------------------------------------------------------------------------ PACK-FWD
# The public packing API around ComponentOrder: into_u32 / from_u32 (u16 for luma), From between colours and Packed, Packed::pack/unpack,
# From between colours and bare integers.  Each is the order's pack / unpack applied to the colour itself (opaque colours get full alpha
# going in and drop alpha coming out); the integer forms use the documented default order.  Evaluated symbolically with O::pack / O::unpack
# left uninterpreted, the result is inspected as a term.
def _tree(v):
    if isinstance(v, RatFunc):
        ats = list(v.atoms())
        if len(ats) == 1 and repr(v) == repr(poly.atom_by_id(ats[0])):
            a = poly.atom_by_id(ats[0])
            if a.args:
                return (a.name, [_tree(x) for x in a.args])
            return a.name
        return repr(v)
    if isinstance(v, Struct):
        return ("struct:" + v.path.split("::")[-1], {k: _tree(x) for k, x in v.fields.items()})
    if isinstance(v, Array):
        return ("array", [_tree(x) for x in v.items])
    return repr(v)


def _is_input_colour(t, root, alpha):
    """t is the scalarised struct of the input colour: mk:Alpha{alpha,color}(alpha, mk:C{fields}(root.f..))"""
    def colour(tc, base):
        if isinstance(tc, str):
            return tc == base   # the colour passed through whole
        if not (isinstance(tc, tuple) and tc[0].startswith("mk:")):
            return False
        names = re.match(r"mk:\w+\{([^}]*)\}", tc[0]).group(1).split(",")
        if len(names) != len(tc[1]):
            return False
        return all(a == "%s.%s" % (base, n) or (isinstance(a, str) and a.startswith("unit:")) for n, a in zip(names, tc[1]))
    if alpha == "none":
        return colour(t, root)
    if isinstance(t, str):
        return alpha == "own" and t == root
    if not (isinstance(t, tuple) and t[0] == "mk:Alpha{alpha,color}" and len(t[1]) == 2):
        return False
    a, c = t[1]
    if alpha == "own":
        return a == root + ".alpha" and colour(c, root + ".color")
    return isinstance(a, str) and a.startswith("stimulus::Stimulus::max_intensity") and colour(c, root)


DEFAULT_ORDER = {"Rgb": "argb", "Rgba": "rgba", "Luma": "al", "Lumaa": "la"}   # documented defaults of the bare-integer forms
LETTER = {"r": "red", "g": "green", "b": "blue", "l": "luma"}


def check_pack_forwarders(F, rep):
    S = Session(F)
    n = 0
    for b in F.bodies:
        im = b["_impl"]
        if b["dk"] not in ("Fn", "AssocFn") or "::test" in b["path"] or not b["file"].endswith(("rgb/rgb.rs", "luma/luma.rs", "cast/packed.rs")):
            continue
        nm = b["name"]
        self_s = im["self_s"] if im else ""
        arg_s = (im["trait_args_s"][0] if im and im.get("trait_args_s") else "")
        tr = (im.get("trait") or "").split("::")[-1] if im else ""
        kind = None
        if nm in ("into_u32", "into_u16", "from_u32", "from_u16"):
            kind = nm[:4]
        elif nm in ("pack", "unpack") and b["path"].startswith("cast::packed::Packed"):
            kind = "packed_" + nm
        elif nm == "from" and tr == "From":
            if self_s.startswith("cast::packed::Packed<"):
                kind = "into_packed"
            elif arg_s.startswith("cast::packed::Packed<"):
                kind = "from_packed"
            elif self_s in ("u32", "u16") and ("Rgb<" in arg_s or "Luma<" in arg_s) and arg_s.endswith("u8>"):
                kind = "into_int"
            elif arg_s in ("u32", "u16") and ("Rgb<" in self_s or "Luma<" in self_s) and self_s.endswith("u8>"):
                kind = "from_int"
        if kind is None:
            continue
        key = "%s[%s%s]" % (nm, self_s or b["path"], ("<-" + arg_s) if arg_s else "")
        colour_ty = arg_s if kind in ("into_packed", "into_int") else self_s
        has_alpha = colour_ty.startswith("alpha::alpha::Alpha<")
        n += 1
        try:
            v, _fr = S.eval(b, names=["x"])
        except (Opaque, poly.TooBig) as ex:
            if kind == "from_int" and has_alpha and "Luma" in colour_ty:
                # Lumaa <- u16 goes through the array cast of the La order; covered by the order rule above
                calls = {F.S[n_["c"]["a"][0]] for n_, _p in facts.walk(b["body"]) if isinstance(n_.get("c"), dict) and n_["c"].get("a")}
                rep.ob("PACK-FWD", key, "luma::channels::La" in calls, "default order of Lumaa <- u16: %s" % sorted(calls), F.loc(b), nontrivial=False)
                continue
            rep.fail("PACK-FWD", key, "uninterpretable: %s" % ex, F.loc(b))
            continue
        t = _tree(v)
        if kind == "from_int" and not (isinstance(t, tuple) and t[0].startswith("struct:")):
            # the order's unpack goes through the array cast (`packed.into()`), which stays opaque: decide by the order named in the call
            calls = {F.S[a_] for n_, _p in facts.walk(b["body"]) if isinstance(n_.get("c"), dict) for a_ in n_["c"].get("a", [])}
            cname = ("Luma" if "Luma<" in colour_ty else "Rgb") + ("a" if has_alpha else "")
            want = {"argb": "rgb::channels::Argb", "rgba": "rgb::channels::Rgba", "al": "luma::channels::Al", "la": "luma::channels::La"}[DEFAULT_ORDER[cname]]
            orders = {c_ for c_ in calls if "::channels::" in c_}
            rep.ob("PACK-FWD", key, orders == {want}, "default order %s (documented: %s)" % (sorted(orders), want), F.loc(b), nontrivial=False)
            continue
        ok, why = False, "term " + repr(v)[:200]
        alpha_mode = "own" if has_alpha else "max"
        if kind in ("into", "into_packed"):
            inner = t
            if kind == "into_packed":
                inner = t[1].get("color") if isinstance(t, tuple) and t[0] == "struct:Packed" else None
            if isinstance(inner, tuple) and inner[0].startswith("cast::packed::ComponentOrder::pack<O,") and len(inner[1]) == 1:
                a = inner[1][0]
                if isinstance(a, tuple) and a[0].startswith("std::convert::From::from<alpha::alpha::Alpha<") and len(a[1]) == 1:
                    ok = _is_input_colour(a[1][0], "x", "none")   # Rgba::from(rgb): the generic opaque -> alpha conversion
                else:
                    ok = _is_input_colour(a, "x", alpha_mode)
                why = "O::pack of %s" % (a,)
        elif kind in ("from", "from_packed"):
            src = "x" if kind == "from" else "x.color"
            inner = t
            if not has_alpha:
                inner = t[1][0] if isinstance(t, tuple) and t[0] == "proj.color" and len(t[1]) == 1 else None
            ok = isinstance(inner, tuple) and inner[0].startswith("cast::packed::ComponentOrder::unpack<O,") and inner[1] == [src]
            why = "O::unpack(%s)%s" % (src, "" if has_alpha else ".color")
        elif kind == "packed_pack":
            inner = t[1].get("color") if isinstance(t, tuple) and t[0] == "struct:Packed" else None
            ok = isinstance(inner, tuple) and inner[0].startswith("cast::packed::ComponentOrder::pack<O,") and inner[1] == ["x"]
        elif kind == "packed_unpack":
            ok = isinstance(t, tuple) and t[0].startswith("cast::packed::ComponentOrder::unpack<O,") and t[1] == ["x.color"]
        elif kind in ("into_int", "from_int"):
            cname = ("Luma" if "Luma<" in colour_ty else "Rgb") + ("a" if has_alpha else "")
            order = DEFAULT_ORDER[cname]
            base = "x.color" if has_alpha else "x"
            if kind == "into_int":
                want = []
                for ch in order:
                    want.append(("x.alpha" if has_alpha else None) if ch == "a" else "%s.%s" % (base, LETTER[ch]))
                items = t[1] if isinstance(t, tuple) and t[0] == "array" else None
                ok = items is not None and len(items) == len(want) and all(
                    (w is None and isinstance(i, str) and i.startswith("stimulus::Stimulus::max_intensity")) or i == w for i, w in zip(items, want))
                why = "big-endian bytes %s, documented order %s" % (items, order.upper())
            else:
                col = t
                if has_alpha and isinstance(t, tuple) and t[0] == "struct:Alpha":
                    col = t[1].get("color")
                flds = dict(col[1]) if isinstance(col, tuple) and isinstance(col[1], dict) else {}
                ok = bool(flds)
                for i, ch in enumerate(order):
                    if ch == "a":
                        if has_alpha:
                            ok = ok and t[1].get("alpha") == "x[%d]" % i
                    else:
                        ok = ok and flds.get(LETTER[ch]) == "x[%d]" % i
                why = "%s from bytes in the documented order %s" % (flds, order.upper())
        rep.ob("PACK-FWD", key, ok, why if ok else "not the forwarder expected here: " + why + " — got " + repr(v)[:200], F.loc(b), nontrivial=False)
    rep.floor("packing forwarders", n, 26)


# ------------------------------------------------------------------------------------ NAMED
def check_named(F, rep):
    path = os.path.join(facts.REPO, "codegen", "res", "svg_colors.txt")
    try:
        lines = [l.strip() for l in open(path) if l.strip()]
    except OSError as ex:
        rep.fail("NAMED", "svg_colors.txt", "cannot read %s: %s" % (path, ex))
        return
    src = {}
    for l in lines:
        parts = l.split("\t") if "\t" in l else l.split()
        name = parts[0]
        rgb = [int(x) for x in re.findall(r"\d+", " ".join(parts[1:]))][:3]
        src[name] = tuple(rgb)
    S = Session(F)
    consts = {}
    for b in F.bodies:
        if b["path"].startswith("named::") and b["dk"].startswith("Const") and b["name"].isupper():
            try:
                v, _ = S.eval(b)
                if isinstance(v, Struct) and {"red", "green", "blue"} <= set(v.fields):
                    consts[b["name"]] = tuple(int(v.fields[k].const_value()) for k in ("red", "green", "blue"))
            except (Opaque, AttributeError):
                pass
    bad = [n for n, rgb in src.items() if consts.get(n.upper()) != rgb]
    extra = [c for c in consts if c.lower() not in src]
    rep.ob("NAMED", "constants=svg_colors.txt", not bad and not extra and len(src) >= 140,
           ("mismatching %s; extra constants %s" % (bad[:5], extra[:5])) if (bad or extra) else "%d names: constant UPPER(name) has the listed bytes, and there are no others" % len(src),
           "palette/src/named/codegen.rs")
    # the phf map: entries name -> constant
    mp = [b for b in F.bodies if b["path"].startswith("named::") and b["dk"].startswith(("Static", "Const")) and b["name"] == "COLORS"]
    if len(mp) != 1:
        rep.fail("NAMED", "map", "COLORS map not found (%d)" % len(mp))
        return
    entries = []
    for n, parents in facts.walk(mp[0]["body"]):
        if n.get("k") == "tup" and len(n.get("a", [])) == 2 and n["a"][0].get("k") == "lit" and n["a"][0]["lit"]["lk"] == "str":
            keyname = n["a"][0]["lit"]["v"]
            tgt = n["a"][1]
            r = tgt.get("res", {})
            cname = F.S[r["c"]["d"]].split("::")[-1] if isinstance(r.get("c"), dict) else None
            entries.append((keyname, cname))
    keys = [k for k, _ in entries]
    probs = []
    if sorted(keys) != sorted(src):
        probs.append("keys differ from svg_colors.txt: missing %s extra %s" % (sorted(set(src) - set(keys))[:4], sorted(set(keys) - set(src))[:4]))
    if len(set(keys)) != len(keys):
        probs.append("duplicate keys")
    if any(k != k.lower() for k in keys):
        probs.append("non lower-case key")
    wrong = [(k, c) for k, c in entries if c != k.upper()]
    if wrong:
        probs.append("entries pointing at another constant: %s" % wrong[:4])
    rep.ob("NAMED", "map-entries", not probs, "; ".join(probs) if probs else "%d entries: name -> constant UPPER(name), lower-case, unique" % len(entries), F.loc(mp[0]))

    check_named_lookup(F, rep, keys)


def _concrete(F, e, name, consts):
    """Evaluate a small boolean / integer expression over the string parameter for one concrete key. None = not understood."""
    k = e.get("k")
    if k == "block" and not e.get("s") and e.get("e"):
        return _concrete(F, e["e"], name, consts)
    if k in ("paren", "dropt", "use"):
        return _concrete(F, e["e"], name, consts)
    if k == "lit":
        lk = e["lit"]["lk"]
        if lk == "int":
            return int(e["lit"]["v"])
        if lk == "bool":
            return bool(e["lit"]["v"])
        return None
    if k == "path":
        r = e.get("res", {})
        if r.get("k") == "def" and str(r.get("dk", "")).startswith("Const"):
            return consts(r)
        return None
    if k == "mcall":
        recv = e.get("r", {})
        is_param = recv.get("k") == "path" and recv.get("res", {}).get("k") == "local" and recv["res"].get("n") == "__PARAM__"
        if recv.get("k") == "path" and recv.get("res", {}).get("k") == "local" and recv["res"].get("h") == consts.param_h:
            n = e.get("n")
            if n == "len" and not e.get("a"):
                return len(name.encode())
            if n == "is_empty" and not e.get("a"):
                return len(name) == 0
            if n == "is_ascii" and not e.get("a"):
                return all(ord(ch) < 128 for ch in name)
        return None
    if k == "un" and e.get("op") == "!":
        v = _concrete(F, e["e"], name, consts)
        return None if v is None else (not v)
    if k == "bin":
        a, b = (_concrete(F, x, name, consts) for x in e["a"])
        if a is None or b is None:
            return None
        op = e.get("op")
        table = {"<": a < b, "<=": a <= b, ">": a > b, ">=": a >= b, "==": a == b, "!=": a != b, "&&": bool(a) and bool(b), "||": bool(a) or bool(b)}
        if op in table:
            return table[op]
        if op == "+":
            return a + b
        if op == "-":
            return a - b
        return None
    return None


def check_named_lookup(F, rep, keys):
    """NAMED-LOOKUP: `named::from_str` is the table lookup for every name in the table: its value is `COLORS.get(name)` (copied), and any
    early-out in front of the lookup is evaluated, for each of the table's keys (a finite set), and must let every key through."""
    bs = [b for b in F.bodies if b["path"] == "named::from_str"]
    if len(bs) != 1:
        rep.fail("ANCHOR", "named::from_str", "function not found (%d)" % len(bs))
        return
    b = bs[0]
    S = Session(F)

    class Consts:
        param_h = (b.get("params") or [{}])[0].get("h")

        def __call__(self, r):
            c = r.get("c") if isinstance(r.get("c"), dict) else {}
            if re.fullmatch(r"-?\d+", str(c.get("v", ""))):
                return int(c["v"])   # the compiler's own evaluation of the constant
            try:
                cb = F.body_by_id.get(c.get("i", r.get("i")))
                v, _ = S.eval(cb)
                return int(v.const_value()) if isinstance(v, RatFunc) and v.is_const() else None
            except Exception:
                return None
    consts = Consts()
    problems = []
    # 1. the value of the body: COLORS.get(param) then copied()/cloned()
    tail = b["body"]
    while isinstance(tail, dict) and tail.get("k") == "block" and tail.get("e"):
        tail = tail["e"]
    ok_tail = False
    if tail.get("k") == "mcall" and tail.get("n") in ("copied", "cloned"):
        g = tail.get("r", {})
        if g.get("k") == "mcall" and g.get("n") == "get":
            r0 = g.get("r", {})
            a0 = (g.get("a") or [{}])[0]
            ok_tail = (r0.get("k") == "path" and r0.get("res", {}).get("k") == "def" and F.S[r0["res"]["d"]].endswith("COLORS")
                       and a0.get("k") == "path" and a0.get("res", {}).get("h") == consts.param_h)
    if not ok_tail:
        problems.append("the value of the body is not `COLORS.get(name).copied()`")
    # 2. early exits: each must be `if <cond over name> { return None }` with cond false for every key of the table
    n_filters = 0
    for node, parents in facts.walk(b["body"]):
        if node.get("k") != "ret":
            continue
        n_filters += 1
        iff = None
        chain = list(parents) + [node]
        for par, ch in zip(chain, chain[1:]):
            if par.get("k") == "if":
                inside_then = any(x is node for x, _p in facts.walk(par.get("th")))
                inside_else = "el" in par and any(x is node for x, _p in facts.walk(par.get("el")))
                iff = (par, inside_then, inside_else)
        if iff is None:
            problems.append("unconditional early return at line %s" % node.get("l"))
            continue
        par, in_then, in_else = iff
        cut = []
        undecided = False
        for key in keys:
            v = _concrete(F, par["c"], key, consts)
            if v is None:
                undecided = True
                break
            if (v and in_then) or ((not v) and in_else):
                cut.append(key)
        if undecided:
            problems.append("early return at line %s under a condition the rule cannot evaluate on the table's keys" % node.get("l"))
        elif cut:
            problems.append("early return at line %s rejects %d name(s) that are in the table: %s" % (node.get("l"), len(cut), cut[:4]))
    rep.ob("NAMED-LOOKUP", "named::from_str", not problems, "; ".join(problems) if problems else
           "COLORS.get(name).copied(); %d early-out(s), none rejects any of the %d keys" % (n_filters, len(keys)), F.loc(b))
