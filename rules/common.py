"""Helpers shared by the per-property rule modules."""
from fractions import Fraction

from . import alg, sym, poly, facts
from .sym import Opaque, Struct, Tuple, Array, Ite
from .poly import RatFunc


class Session:
    """One evaluation session: a Ctx (atom table) + evaluator + reference DSL."""

    def __init__(self, F, no_inline=(), app_canon=None, max_depth=8, positive=()):
        self.F = F
        self.ctx = sym.Ctx(F)
        self.ctx.positive = set(positive)
        self.ctx.no_inline = set(no_inline)
        self.ctx.app_canon = app_canon
        self.ctx.max_depth = max_depth
        self.ev = sym.Evaluator(self.ctx)
        self.R = alg.R(self.ctx)

    def args(self, body, names=None, leaf=None):
        ins = [self.F.S[i] for i in body.get("ins", [])]
        out = []
        for i, t in enumerate(ins):
            nm = names[i] if names and i < len(names) and names[i] else "a%d" % i
            out.append(alg.symbolic_arg(self.ctx, t, nm, leaf=leaf))
        return out

    def eval(self, body, args=None, names=None):
        if args is None:
            args = self.args(body, names)
        v, fr = self.ev.eval_body(body, args)
        return v, fr

    def final_self(self, fr, idx=0):
        return self.ev.deref(self.ev.final_param(fr, idx))

    def domain(self, cons):
        """cons: list of (RatFunc atom value, rel, constant) -> domain dict for alg.compare"""
        d = {}
        for rf, rel, t in cons:
            lf = alg.linear_form(rf)
            if lf is None:
                raise ValueError("domain constraint on non-linear form")
            p, alpha, t0 = lf
            # rf = alpha*(p - t0);  rf rel t  <=>  p rel' (t/alpha + t0)
            tt = Fraction(t) / alpha + t0
            if alpha < 0:
                rel = alg._FLIP[rel]
            d.setdefault(p, []).append((rel, tt))
        return d


def check_value(rep, rule, key, S, body, code_val, expected, loc=None, domain=None, sample=None):
    """Record one ALG obligation: code value == expected value."""
    try:
        mm = alg.compare(code_val, expected, S.ctx, domain=domain)
    except (Opaque, poly.TooBig) as ex:
        return rep.fail(rule, key, "comparison not decidable: %s" % ex, loc or S.F.loc(body))
    if mm:
        detail = "; ".join(str(m) for m in mm[:4])
        return rep.fail(rule, key, detail, loc or S.F.loc(body))
    return rep.ob(rule, key, True, sample or ("normal form: " + alg._short(code_val, 300)), loc or S.F.loc(body))


def check_ref(rep, rule, key, S, body, expected_fn, names=None, domain_fn=None, result=None, args=None):
    """Evaluate `body` on symbolic inputs and compare to expected_fn(R, args...).
    result: optional function (value, frame) -> value to compare (e.g. final `self`)."""
    loc = S.F.loc(body)
    try:
        if args is None:
            args = S.args(body, names)
        v, fr = S.ev.eval_body(body, args)
        if result is not None:
            v = result(v, fr)
    except (Opaque, poly.TooBig, ZeroDivisionError) as ex:
        return rep.fail(rule, key, "uninterpretable: %s" % ex, loc)
    try:
        exp = expected_fn(S.R, *args)
        dom = domain_fn(S, *args) if domain_fn else None
    except (Opaque, poly.TooBig) as ex:
        return rep.fail(rule, key, "reference not constructible: %s" % ex, loc)
    return check_value(rep, rule, key, S, body, v, exp, loc, dom)


def one(lst, what):
    if len(lst) != 1:
        raise facts.AnchorMissing("%s: expected exactly one, found %d" % (what, len(lst)))
    return lst[0]


def impl_methods(F, trait, self_contains=None, self_adt=None):
    """{impl: {method name: body}} for every impl of `trait`."""
    out = []
    for im in F.find_impls(trait=trait, self_contains=self_contains, self_adt=self_adt):
        ms = {}
        for it in im["items"]:
            if it["kind"] == "Fn":
                b = F.body_by_id.get(it["i"])
                if b is not None:
                    ms[it["n"]] = b
        out.append((im, ms))
    return out


def atoms_of(v, out=None):
    """Names of symbol atoms occurring (recursively, inside app args too) in a value."""
    if out is None:
        out = set()
    if isinstance(v, RatFunc):
        for aid in v.atoms():
            a = poly.atom_by_id(aid)
            if not a.args:
                out.add(a.name)
            else:
                out.add("@" + a.name)
                for x in a.args:
                    atoms_of(x, out)
    elif isinstance(v, Ite):
        c = v.c
        rfs = sym.Ctx._cond_rf.get(c)
        if isinstance(rfs, RatFunc):
            atoms_of(rfs, out)
        elif isinstance(rfs, list):
            for x in rfs:
                atoms_of(x, out)
        atoms_of(v.t, out)
        atoms_of(v.f, out)
    elif isinstance(v, Struct):
        for x in v.fields.values():
            atoms_of(x, out)
    elif isinstance(v, (Tuple, Array)):
        for x in v.items:
            atoms_of(x, out)
    return out


def apps_of(v):
    return {a[1:] for a in atoms_of(v) if a.startswith("@")}


def staged_check(rep, rule, key, S, body, args, steps, final, loc=None, sample=None):
    """ALG-REF for large straight-line algorithms.  `steps`: ordered list of (name, fn(R, env)) giving
    the published intermediate quantities in terms of the inputs and earlier quantities (env: name -> value);
    every `let` of the code whose value equals a quantity is replaced by the atom ref:<name> (matching is by
    value, never by the local's name), so neither side is ever multiplied out.  The returned value must
    equal final(R, env)."""
    R = S.R
    env, refvals, order = {}, {}, []
    try:
        for name, fn in steps:
            refvals[name] = fn(R, env)
            env[name] = S.ctx.sym("ref:" + name)
            order.append(name)
        exp = final(R, env)
    except (Opaque, poly.TooBig) as ex:
        return rep.fail(rule, key, "reference not constructible: %s" % ex, loc or S.F.loc(body))
    matched = []

    def hook(v):
        if isinstance(v, (Tuple, Array)):
            # destructuring `let [a, b, c] = …` / `let (s, c) = …`: match element by element
            items = [hook(x) for x in v.items]
            return type(v)(items) if any(a is not b for a, b in zip(items, v.items)) else v
        if isinstance(v, Struct) or not isinstance(v, (RatFunc, Ite)):
            return v
        for name in order:
            if name in matched:
                continue
            try:
                if not alg.compare(v, refvals[name], S.ctx):
                    matched.append(name)
                    return env[name]
            except (Opaque, poly.TooBig):
                continue
        return v
    S.ev.let_hook = hook
    try:
        v, fr = S.ev.eval_body(body, args)
    except (Opaque, poly.TooBig, ZeroDivisionError) as ex:
        S.ev.let_hook = None
        return rep.fail(rule, key, "uninterpretable: %s (matched quantities: %s)" % (ex, matched), loc or S.F.loc(body))
    S.ev.let_hook = None
    # a quantity bound directly to the result (no `let`) is matched here
    v = hook(v) if not isinstance(v, (Struct, Tuple, Array)) else v
    missing = [n for n in order if n not in matched]
    if missing:
        # quantities the code never binds on their own are expanded in the expected result
        try:
            env2 = {}
            for name, fn in steps:
                env2[name] = env[name] if name in matched else fn(R, env2)
            exp = final(R, env2)
        except (Opaque, poly.TooBig) as ex:
            return rep.fail(rule, key, "published quantities with no `let` of equal value in the code: %s (the first one is where the code departs from the "
                            "reference; expanding them in the final formula exceeded the work budget: %s)" % (missing[:4], ex), loc or S.F.loc(body))
    try:
        mm = alg.compare(v, exp, S.ctx)
    except (Opaque, poly.TooBig) as ex:
        return rep.fail(rule, key, "comparison not decidable: %s; unmatched quantities: %s" % (ex, missing), loc or S.F.loc(body))
    if mm:
        return rep.fail(rule, key, "result differs from the published formula; first published quantity with no equal `let` in the code: %s; %s"
                        % (missing[:3], "; ".join(str(m) for m in mm[:2])), loc or S.F.loc(body))
    return rep.ob(rule, key, True, sample or ("matched published quantities: " + ", ".join(matched)), loc or S.F.loc(body))
