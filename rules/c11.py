"""C11 — hues behave as angles on a circle."""
import re
from fractions import Fraction as Fr

from . import facts, alg, sym, poly
from .common import Session, check_value, check_ref, impl_methods
from .sym import Struct, Tuple, Ite, Opaque
from .poly import RatFunc

EXPLANATION = (
    "Static, all-inputs over the reals: the normalisation formulas of every angle impl (f32, f64 and the four SIMD types) are normalised "
    "to exact rational functions over floor/ceil/round atoms and must equal x - ceil((x+180)/360 - 1)·360 and x - floor(x/360)·360 "
    "(sibling agreement across the six impls follows); angle equality compares the unsigned normal forms; every accessor of the five hue "
    "types chains exactly the documented normalisation and unit conversion; from_cartesian = pi + atan2(-b,-a) (radians -> degrees), "
    "into_cartesian = (cos, sin) of the raw radians; u8 <-> float uses angle/256·360 and round(unsigned(x)/360·256) with the "
    "256 -> 0 wrap guarding the cast; Add/Sub act on the angle; constants 180/360/128. Not decided: range and congruence to within "
    "rounding at 1e6 degrees, equality of shifted representable angles (floating-point behaviour of the normal form)."
)

HUES = ["LabHue", "LuvHue", "RgbHue", "OklabHue", "Cam16Hue"]


def check_narrowing_order(F, rep):
    """CAST-LAST: the angle algebra treats `x as f32` as the identity on the reals.  A narrowing cast of an angle (f64 -> f32) drops up to 29
    bits; done *before* normalisation it drops them from the whole angle (1000000.3 becomes 1000000.3125: the fraction of the result is
    wrong), done last it costs one rounding of the normal form.  In hues.rs / angle.rs every f64 -> f32 cast is the last operation of
    its body."""
    n = 0
    for b in F.bodies:
        if not b["file"].endswith(("palette/src/hues.rs", "palette/src/angle.rs")) or "::test" in b["path"] or b["dk"] not in ("Fn", "AssocFn"):
            continue
        body = b["body"]
        tail = body.get("e") if body.get("k") == "block" and not body.get("s") else None
        for node, parents in facts.walk(body):
            if node.get("k") == "cast" and isinstance(node.get("e"), dict) and isinstance(node["e"].get("t"), int) \
                    and F.S[node["e"]["t"]] == "f64" and F.S[node["t"]] == "f32":
                n += 1
                key = b["path"]
                rep.ob("CAST-LAST", key, node is tail or node is body, "f64 -> f32 cast %s the last operation of the body" % ("is" if (node is tail or node is body) else "is NOT"),
                       F.loc(b, node), nontrivial=False)
    rep.floor("narrowing casts of angles", n, 6)


def run(F, rep, tier="quick", extra=None, only=None):
    rep.trusted += ["rustc name resolution / type check", "operator table of rules/sym.py (wide::* methods = lane-wise real operators)",
                    "formulas of DESIGN Appendix A.11 as transcribed in rules/c11.py"]
    S = Session(F)
    R = S.R
    x = S.ctx.sym("x")
    y = S.ctx.sym("y")
    signed = lambda R_, v: R_.sub(v, R_.mul(R_.f("ceil", R_.sub(R_.div(R_.add(v, 180), 360), 1)), 360))
    unsigned = lambda R_, v: R_.sub(v, R_.mul(R_.f("floor", R_.div(v, 360)), 360))
    FLOATS = ("f32", "f64", "wide::f32x4", "wide::f32x8", "wide::f64x2", "wide::f64x4")
    # ------------------------------------------------------------ normalisation
    for tr, m, ref, nm in (("angle::SignedAngle", "normalize_signed_angle", signed, "signed"), ("angle::UnsignedAngle", "normalize_unsigned_angle", unsigned, "unsigned")):
        seen = set()
        for im, ms in impl_methods(F, tr):
            t = im["self_s"]
            b = ms.get(m)
            if t in FLOATS:
                seen.add(t)
                check_ref(rep, "ALG-REF", "normalize_%s[%s]" % (nm, t), S, b, lambda R_, v, ref=ref: ref(R_, v), names=["x"])
            elif t == "u8":
                check_ref(rep, "ALG-REF", "normalize_%s[u8]" % nm, S, b, lambda R_, v: v, names=["x"])
            else:
                rep.fail("ALG-REF", "normalize_%s[%s]" % (nm, t), "angle impl for a type without a reference", F.loc(b))
        for t in FLOATS:
            if t not in seen:
                rep.fail("ANCHOR", "normalize_%s[%s]" % (nm, t), "impl missing")
    # ------------------------------------------------------------ equality, constants, unit conversion
    S2 = Session(F, no_inline={b["path"] for im, ms in impl_methods(F, "angle::UnsignedAngle") for b in ms.values()})
    for im, ms in impl_methods(F, "angle::AngleEq"):
        t = im["self_s"]
        b = ms.get("angle_eq")
        try:
            args = [S2.ctx.sym("x"), S2.ctx.sym("y")]
            v, _ = S2.ev.eval_body(b, args)
            if t == "u8":
                exp = S2.R.eq(args[0], args[1])
            else:
                exp = S2.R.eq(S2.R.f("norm_unsigned", args[0]), S2.R.f("norm_unsigned", args[1]))
            v = _unify_norm(v, S2)
            check_value(rep, "ALG-REF", "angle_eq[%s]" % t, S2, b, v, exp, sample="equality of the unsigned normal forms")
        except (Opaque, poly.TooBig) as ex:
            rep.fail("ALG-REF", "angle_eq[%s]" % t, "uninterpretable: %s" % ex, F.loc(b))
    for tr, m, val in (("angle::HalfRotation", "half_rotation", 180), ("angle::FullRotation", "full_rotation", 360)):
        for im, ms in impl_methods(F, tr):
            t = im["self_s"]
            b = ms.get(m)
            want = 128 if (t == "u8" and m == "half_rotation") else val
            check_ref(rep, "CONST", "%s[%s]" % (m, t), S, b, lambda R_, want=want: R_.c(want))
    for im, ms in impl_methods(F, "angle::RealAngle"):
        t = im["self_s"]
        check_ref(rep, "ALG-REF", "degrees_to_radians[%s]" % t, S, ms["degrees_to_radians"], lambda R_, v: R_.f("deg2rad", v), names=["x"])
        check_ref(rep, "ALG-REF", "radians_to_degrees[%s]" % t, S, ms["radians_to_degrees"], lambda R_, v: R_.f("rad2deg", v), names=["x"])
    # ------------------------------------------------------------ u8 <-> float
    n = 0
    for im, ms in impl_methods(F, "angle::FromAngle"):
        t, src = im["self_s"], (im["trait_args_s"][0] if im["trait_args_s"] else "")
        b = ms.get("from_angle")
        key = "from_angle[%s<-%s]" % (t, src)
        if t in ("f32", "f64") and src == "u8":
            n += 1
            check_ref(rep, "ALG-REF", key, S, b, lambda R_, v: R_.mul(R_.div(v, 256), 360), names=["x"])
        elif t == "u8" and src in ("f32", "f64"):
            n += 1

            def exp(R_, v):
                r = R_.f("round", R_.mul(R_.div(R_.f("norm_unsigned", v), 360), 256))
                return R_.ite(R_.gt(r, "255.5"), 0, R_.f("cast:u8", r))
            check_ref(rep, "ALG-REF", key, S, b, exp, names=["x"])
        elif t == src or (t in ("f32", "f64") and src in ("f32", "f64")) or t == "T":
            check_ref(rep, "ALG-REF", key, S, b, lambda R_, v: v, names=["x"])
        else:
            rep.fail("ALG-REF", key, "angle format conversion without a reference", F.loc(b))
    rep.floor("u8<->float angle conversions", n, 4)

    # ------------------------------------------------------------ hue types
    SH = Session(F)
    RH = SH.R
    for hue in HUES:
        path = "hues::" + hue
        mk = lambda v: Struct(path, {"0": v})
        h0 = lambda c: c.fields["0"]
        table = {
            "new": lambda a: mk(a[0]),
            "into_inner": lambda a: h0(a[0]),
            "from_degrees": lambda a: mk(a[0]),
            "from_radians": lambda a: mk(RH.f("rad2deg", a[0])),
            "into_raw_degrees": lambda a: h0(a[0]),
            "into_raw_radians": lambda a: RH.f("deg2rad", h0(a[0])),
            "into_degrees": lambda a: RH.f("norm_signed", h0(a[0])),
            "into_radians": lambda a: RH.f("deg2rad", RH.f("norm_signed", h0(a[0]))),
            "into_positive_degrees": lambda a: RH.f("norm_unsigned", h0(a[0])),
            "into_positive_radians": lambda a: RH.f("deg2rad", RH.f("norm_unsigned", h0(a[0]))),
            "from_cartesian": lambda a: mk(RH.f("rad2deg", RH.add(RH.s("pi"), RH.f("atan2", RH.neg(a[1]), RH.neg(a[0]))))),
            "into_cartesian": lambda a: Tuple([RH.f("cos", RH.f("deg2rad", h0(a[0]))), RH.f("sin", RH.f("deg2rad", h0(a[0])))]),
            "into_format": lambda a: mk(RH.f("angle_cast", h0(a[0]))),
            "from_format": lambda a: mk(RH.f("angle_cast", h0(a[0]))),
        }
        found = set()
        for b in F.bodies:
            im = b["_impl"]
            if im is None or im.get("trait") or im.get("self_adt") != path or im["self_s"] != path + "<T>":
                continue
            name = b["name"]
            if name not in table:
                continue
            found.add(name)
            key = "%s::%s" % (hue, name)
            try:
                args = SH.args(b, ["h", "y"])
                v, _ = SH.ev.eval_body(b, args)
                check_value(rep, "ALG-REF", key, SH, b, v, table[name](args))
            except (Opaque, poly.TooBig, KeyError, AttributeError) as ex:
                rep.fail("ALG-REF", key, "uninterpretable: %s" % ex, F.loc(b))
        for name in table:
            if name not in found:
                rep.fail("ANCHOR", "%s::%s" % (hue, name), "accessor not found")
        # PartialEq (hue == hue, hue == T, T == hue): angle_eq of the raw angles
        npe = 0
        for im, ms in impl_methods(F, "std::cmp::PartialEq"):
            if hue not in im["self_s"] + " ".join(im["trait_args_s"]):
                continue
            if not (im.get("self_adt") == path or any(sym._adt_of_type(a) == path for a in im["trait_args_s"])):
                continue
            b = ms.get("eq")
            if b is None:
                continue
            npe += 1
            key = "PartialEq[%s==%s]" % (im["self_s"], im["trait_args_s"][0] if im["trait_args_s"] else "Self")
            try:
                args = SH.args(b, ["p", "q"])
                v, _ = SH.ev.eval_body(b, args)
                a0 = h0(args[0]) if isinstance(args[0], Struct) else args[0]
                a1 = h0(args[1]) if isinstance(args[1], Struct) else args[1]
                exp = SH.ctx.pred("bool", [RH.f("angle_eq", a0, a1)])
                v = v if sym._is_boolish(v) else SH.ev.as_bool(v)
                check_value(rep, "ALG-REF", key, SH, b, v, exp, sample="angle_eq(raw, raw)")
            except (Opaque, poly.TooBig) as ex:
                rep.fail("ALG-REF", key, "uninterpretable: %s" % ex, F.loc(b))
        rep.floor("PartialEq impls of " + hue, npe, 2)
        # Add / Sub
        for tr, op in (("std::ops::Add", "+"), ("std::ops::Sub", "-")):
            for im, ms in impl_methods(F, tr):
                if not (im.get("self_adt") == path or any(sym._adt_of_type(a) == path for a in im["trait_args_s"])):
                    continue
                if im["self_s"].startswith("&"):
                    continue
                b = ms.get("add" if op == "+" else "sub")
                key = "%s[%s,%s]" % (tr.split("::")[-1], im["self_s"], im["trait_args_s"][0] if im["trait_args_s"] else "")
                try:
                    args = SH.args(b, ["p", "q"])
                    v, _ = SH.ev.eval_body(b, args)
                    a0 = h0(args[0]) if isinstance(args[0], Struct) else args[0]
                    a1 = h0(args[1]) if isinstance(args[1], Struct) else args[1]
                    check_value(rep, "SHAPE-OP", key, SH, b, v, mk(SH.ev.binop(op, a0, a1)))
                except (Opaque, poly.TooBig) as ex:
                    rep.fail("SHAPE-OP", key, "uninterpretable: %s" % ex, F.loc(b))
    check_narrowing_order(F, rep)
    return {"level": "other"}


def _unify_norm(v, S):
    """The no-inline session names the normalisation by its impl path; map it onto norm_unsigned."""
    from .c10 import _rename_apps

    def ren(name):
        if "normalize_unsigned_angle" in name:
            return "norm_unsigned"
        return name

    def conv(x):
        if isinstance(x, RatFunc):
            return _rename_apps(x, ren)
        if isinstance(x, Ite):
            d = sym.Ctx._cond_rf.get(x.c)
            if isinstance(d, RatFunc):
                d2 = _rename_apps(d, ren)
                c2 = S.ctx.cmp({"==": "==", "<": "<", "<=": "<="}[x.c[2]], d2, S.ctx.num(0)) if x.c[0] == "cmp" else None
                if c2 is not None:
                    return sym.mk_ite(c2, conv(x.t), conv(x.f))
            return sym.mk_ite_c(x.c, conv(x.t), conv(x.f))
        return x
    return conv(v)
