"""C19 — random sampling respects the requested range and the volume of the shape (structural part)."""
import re
from fractions import Fraction as Fr

from . import alg, sym, poly, facts, rng as RNG
from .common import Session, check_value, atoms_of, apps_of
from .sym import Struct, Tuple, Array, Ite, Opaque
from .poly import RatFunc

EXPLANATION = (
    "Static. rand's API is given its documented meaning through three axioms (Uniform::new(a, b).sample ∈ [a, b), Standard float ∈ [0, 1), "
    "SampleBorrow::borrow = identity); everything else is palette code evaluated symbolically.  (SIB) new and new_inclusive of every "
    "UniformSampler are the same function modulo Uniform::new vs Uniform::new_inclusive, and each calls only its own kind; (END) the sampler "
    "built from (low, high) returns exactly `low` when every inner Uniform yields its lower end and `high` when it yields its upper end — "
    "i.e. each inner range is built from the same component of both ends and the transform applied to the ends (square, cube, bicone CDF, "
    "unit scaling) is undone after sampling; hues: ends are the normalised ends, the upper one unwrapped by 360 exactly when the arc passes "
    "0, and the sampled degrees are returned unscaled; HWB forms sample HSV between the per-component min/max of the converted ends; (STD) "
    "each Standard sample lies within the type's own IsWithinBounds box for all generator outputs in [0, 1) (interval evaluation), hues in "
    "[0, 360); (VOL) cone/bicone/cylinder samplers use independent variates with height = cbrt / bicone-inverse-CDF / linear and radius = "
    "sqrt, the inverse CDFs of the volume-uniform density, and invert_*∘sample_* = id.  Not decided: statistical uniformity itself, "
    "monotonicity of each transform between the end points, rand's generators."
    " VOL-UNIFORM: the shaped uniform samplers use three distinct variates, radius = k·sqrt(d), height = k·F^-1(d), bounds = CDFs of the two ends (structural half of volume uniformity for sub-ranges)."
)

T_US = "rand::distributions::uniform::UniformSampler"
T_D = "rand::distributions::Distribution"


class Uni:
    """Symbolic rand::distributions::Uniform<T>."""


def _trait(F, im):
    t = im.get("trait")
    return F.S[t] if isinstance(t, int) else t


def make_hook(state):
    """state: dict(mode='build'|'low'|'high'|'atom', kinds=set(), gens=list(), F=facts, S=session)."""
    def hook(spath, rpath, args, c, ev, fr):
        ctx = ev.ctx
        if spath.endswith("uniform::SampleBorrow::borrow") or spath.endswith("SampleBorrow::borrow"):
            return ev.deref(args[0])
        m = re.match(r"^rand::distributions::(?:uniform::)?Uniform::<X>::(new|new_inclusive)$", spath)
        if m:
            state["kinds"].add(m.group(1))
            return Struct("rand::Uniform", {"low": ev.deref(args[0]), "high": ev.deref(args[1])})
        if spath.endswith("Distribution::sample") or rpath.endswith("::sample"):
            u = ev.deref(args[0])
            if isinstance(u, Struct) and u.path == "rand::Uniform":
                if state["mode"] in ("low", "high"):
                    return u.fields[state["mode"]]
                if state["mode"] == "draw":
                    # one fresh variate per executed sample call, remembered with the bounds of the distribution it came from
                    k = len(state.setdefault("draws", []))
                    state["draws"].append(("d%d" % k, u.fields["low"], u.fields["high"]))
                    return ctx.sym("d%d" % k)
                raise Opaque("Uniform::sample outside an end-point evaluation")
            return NotImplemented
        if spath == "rand::Rng::gen" or spath.endswith("::Rng::gen"):
            ta = [ev.subst_ty(ev.S[a], fr) for a in c.get("ra", c["a"])]
            want = ta[-1] if ta else "T"
            return gen_value(state, ev, want, fr)
        return NotImplemented
    return hook


def gen_value(state, ev, want, fr):
    """Value of `rng.gen::<want>()` under Standard."""
    ctx = ev.ctx
    F = state["F"]
    adt = sym._adt_of_type(want)
    if adt in F.adt_by_path:
        # a palette type: its own Distribution<_> for Standard impl
        for im in F.find_impls(trait=T_D):
            if sym._adt_of_type(im["trait_args_s"][0]) == adt:
                b = F.impl_method(im, "sample")
                v, _ = ev.eval_body(b, [ctx.sym("Standard"), ctx.sym("rng")], depth=fr.depth + 1)
                return v
        raise Opaque("no Standard distribution for %s" % adt)
    k = len(state["gens"])
    a = ctx.sym("u%d" % k)
    state["gens"].append("u%d" % k)
    return a


def sampler_impls(F):
    out = []
    for im in F.impls:
        if _trait(F, im) == T_US:
            X = [x for x in im["items"] if x["n"] == "X"]
            if not X:
                continue
            out.append((im, F.S[X[0]["ty"]]))
    return out


def _positive_names(prefixes, value):
    return {a for a in atoms_of(value) if not a.startswith("@") and a.startswith(prefixes) and ".hue" not in a}


def check_uniform(F, rep):
    n = 0
    for im, xt in sorted(sampler_impls(F), key=lambda t: t[0]["self_s"]):
        key = im["self_s"].split("<")[0].split("::")[-1]
        b_new, b_inc, b_smp = (F.impl_method(im, m) for m in ("new", "new_inclusive", "sample"))
        if not (b_new and b_inc and b_smp):
            rep.fail("ANCHOR", "uniform:" + key, "new/new_inclusive/sample missing")
            continue
        n += 1
        # closed world: rand calls whatever the impl defines; a provided method that is overridden (sample_single, sample_single_inclusive)
        # is a second sampler that none of the END / MONO / VOL laws below has looked at
        extra_m = sorted(it["n"] for it in im["items"] if it["kind"] == "Fn" and it["n"] not in ("new", "new_inclusive", "sample"))
        if extra_m:
            rep.fail("SIB-NAME", "uniform:%s overrides %s" % (key, ", ".join(extra_m)),
                     "the sampler overrides provided UniformSampler method(s) %s: a second sampling path with no range / end-point / volume rule" % extra_m, F.loc(b_smp))
        is_hue = sym._adt_of_type(xt).startswith("hues::")
        is_alpha = sym._adt_of_type(xt).endswith("::Alpha")
        try:
            S = Session(F)
            st = {"mode": "build", "kinds": set(), "gens": [], "F": F}
            S.ctx.call_hook = make_hook(st)
            if is_alpha:
                low = Struct("alpha::alpha::Alpha", {"color": S.ctx.sym("low.color"), "alpha": S.ctx.sym("low.alpha")})
                high = Struct("alpha::alpha::Alpha", {"color": S.ctx.sym("high.color"), "alpha": S.ctx.sym("high.alpha")})
            else:
                low = alg.symbolic_arg(S.ctx, xt, "low")
                high = alg.symbolic_arg(S.ctx, xt, "high")
            # positivity of the non-hue components (documented lower bound 0 of every transformed component; identity transforms do not use it)
            S.ctx.positive = _positive_names(("low.", "high."), low) | _positive_names(("low.", "high."), high)
            if is_hue:
                S.ctx.positive = set()
            st["kinds"] = set()
            U1, _ = S.ev.eval_body(b_new, [low, high])
            k1 = set(st["kinds"])
            st["kinds"] = set()
            U2, _ = S.ev.eval_body(b_inc, [low, high])
            k2 = set(st["kinds"])
        except (Opaque, poly.TooBig, KeyError) as ex:
            rep.fail("SIB", "uniform:" + key, "uninterpretable: %s" % ex, F.loc(b_new))
            continue
        # ---- SIB
        rep.ob("SIB-NAME", "uniform:%s" % key, k1 <= {"new"} and k2 <= {"new_inclusive"} and bool(k1) == bool(k2),
               "new builds %s, new_inclusive builds %s" % (sorted(k1) or "(delegates)", sorted(k2) or "(delegates)"), F.loc(b_inc))
        check_value(rep, "SIB", "uniform:%s new = new_inclusive" % key, S, b_inc, U2, U1,
                    sample="identical samplers modulo Uniform::new / Uniform::new_inclusive")
        # ---- END
        if key in ("UniformHwb", "UniformOkhwb"):
            check_hwb_uniform(F, rep, S, st, key, xt, im, low, high, U1, b_new, b_smp)
            continue
        try:
            for mode, end in (("low", low), ("high", high)):
                st["mode"] = mode
                v, _ = S.ev.eval_body(b_smp, [U1, S.ctx.sym("rng")])
                exp = expected_end(S, F, xt, low, high, mode)
                check_value(rep, "END", "uniform:%s %s end" % (key, mode), S, b_smp, v, exp,
                            sample="sample(new(low, high)) with every inner Uniform at its %s end = %s" % (mode, "the normalised end of the arc" if is_hue else mode))
            st["mode"] = "build"
        except (Opaque, poly.TooBig, KeyError) as ex:
            rep.fail("END", "uniform:" + key, "uninterpretable: %s" % ex, F.loc(b_smp))
    rep.floor("UniformSampler impls", n, 26)


def check_hwb_uniform(F, rep, S, st, key, xt, im, low, high, U1, b_new, b_smp):
    """HWB forms: the sampler is the HSV sampler between (hue_low, min S, min V) and (hue_high, max S, max V) of the converted ends
    (the HSV sampler itself is covered by its own END obligation); sample converts the HSV sample back."""
    adt = sym._adt_of_type(xt)
    R = S.R
    try:
        hsv_adt, back = _hwb_conv(F, adt)
        T = "convert::from_into_color_unclamped::FromColorUnclamped"
        to_hsv = None
        for i2 in F.find_impls(trait=T):
            if (i2.get("self_adt") or "") == hsv_adt and sym._adt_of_type(i2["trait_args_s"][0]) == adt and not i2["derived"]:
                to_hsv = F.impl_method(i2, "from_color_unclamped")
        hsv_sampler = [(i3, x3) for i3, x3 in sampler_impls(F) if sym._adt_of_type(x3) == hsv_adt]
        if to_hsv is None or len(hsv_sampler) != 1:
            raise Opaque("HSV counterpart of %s not found" % adt)
        hl, _ = S.ev.eval_body(to_hsv, [low])
        hh, _ = S.ev.eval_body(to_hsv, [high])
        lo_f, hi_f = dict(hl.fields), dict(hh.fields)
        for comp in ("saturation", "value"):
            lo_f[comp] = R.min(hl.fields[comp], hh.fields[comp])
            hi_f[comp] = R.max(hl.fields[comp], hh.fields[comp])
        st["mode"] = "build"
        inner, _ = S.ev.eval_body(F.impl_method(hsv_sampler[0][0], "new"), [Struct(hl.path, lo_f), Struct(hh.path, hi_f)])
        got = U1.fields.get("sampler") if isinstance(U1, Struct) else None
        check_value(rep, "END", "uniform:%s sampler" % key, S, b_new, got, inner,
                    sample="HSV sampler between (hue_low, min S, min V) and (hue_high, max S, max V) of the ends converted to HSV")
        # sample = from_color_unclamped(self.sampler.sample(rng))
        for mode in ("low", "high"):
            st["mode"] = mode
            v, _ = S.ev.eval_body(b_smp, [U1, S.ctx.sym("rng")])
            hv, _ = S.ev.eval_body(F.impl_method(hsv_sampler[0][0], "sample"), [inner, S.ctx.sym("rng")])
            exp, _ = S.ev.eval_body(back, [hv])
            check_value(rep, "END", "uniform:%s sample (%s end)" % (key, mode), S, b_smp, v, exp, sample="= from_color_unclamped(HSV sampler sample)")
        st["mode"] = "build"
    except (Opaque, poly.TooBig, KeyError) as ex:
        rep.fail("END", "uniform:" + key, "uninterpretable: %s" % ex, F.loc(b_smp))


def hue_end(S, lo, hi, mode):
    """Ends of the arc in positive degrees: [norm(lo), norm(hi) (+360 if the arc passes 0: norm(lo) >= norm(hi) and lo < hi))"""
    R = S.R
    nl, nh = R.f("norm_unsigned", lo), R.f("norm_unsigned", hi)
    if mode == "low":
        return nl
    return R.ite(R.and_(R.ge(nl, nh), R.lt(lo, hi)), R.add(nh, 360), nh)


def expected_end(S, F, xt, low, high, mode):
    adt = sym._adt_of_type(xt)
    end = low if mode == "low" else high
    if adt.startswith("hues::"):
        return Struct(adt, {"0": hue_end(S, low.fields["0"], high.fields["0"], mode)})
    short = adt.split("::")[-1]
    if short in ("Hwb", "Okhwb"):
        return hwb_end(S, F, adt, low, high, mode)

    def fix(v, lo_v, hi_v):
        if isinstance(v, Struct) and v.path.startswith("hues::"):
            return Struct(v.path, {"0": hue_end(S, lo_v.fields["0"], hi_v.fields["0"], mode)})
        if isinstance(v, Struct):
            return Struct(v.path, {k: fix(x, lo_v.fields[k], hi_v.fields[k]) for k, x in v.fields.items()})
        return v
    return fix(end, low, high)


def _hwb_conv(F, adt):
    T = "convert::from_into_color_unclamped::FromColorUnclamped"
    hsv_adt = "okhsv::Okhsv" if "okhwb" in adt else "hsv::Hsv"
    for im in F.find_impls(trait=T):
        if (im.get("self_adt") or "") == adt and sym._adt_of_type(im["trait_args_s"][0]) == hsv_adt and not im["derived"]:
            return hsv_adt, F.impl_method(im, "from_color_unclamped")
    raise Opaque("%s <- %s conversion not found" % (adt, hsv_adt))


def hwb_end(S, F, adt, low, high, mode):
    """HWB forms: sample HSV between (hue_low, min S, min V) and (hue_high, max S, max V) of the converted ends, convert back."""
    R = S.R
    T = "convert::from_into_color_unclamped::FromColorUnclamped"
    hsv_adt = "hsv::Hsv" if adt.endswith("::Hwb") and "okhwb" not in adt else "okhsv::Okhsv"
    to_hsv = back = None
    for im in F.find_impls(trait=T):
        tgt = im.get("self_adt") or ""
        src = sym._adt_of_type(im["trait_args_s"][0])
        if tgt == hsv_adt and src == adt and not im["derived"]:
            to_hsv = F.impl_method(im, "from_color_unclamped")
        if tgt == adt and src == hsv_adt and not im["derived"]:
            back = F.impl_method(im, "from_color_unclamped")
    if to_hsv is None or back is None:
        raise Opaque("HWB <-> HSV conversion impls not found for %s" % adt)
    hl, _ = S.ev.eval_body(to_hsv, [low])
    hh, _ = S.ev.eval_body(to_hsv, [high])
    pick = R.min if mode == "low" else R.max
    f = dict(hl.fields if mode == "low" else hh.fields)
    f["saturation"] = pick(hl.fields["saturation"], hh.fields["saturation"])
    f["value"] = pick(hl.fields["value"], hh.fields["value"])
    f["hue"] = Struct(hl.fields["hue"].path, {"0": hue_end(S, hl.fields["hue"].fields["0"], hh.fields["hue"].fields["0"], mode)})
    v, _ = S.ev.eval_body(back, [Struct(hl.path, f)])
    return v


# ------------------------------------------------------------------------------------------------ monotonicity
def mono(v, u, ctx, nonneg):
    """Direction of v as a function of the atom named u: +1 non-decreasing, -1 non-increasing, 0 constant, None unknown.
    Structural: sums of constant multiples of u, of u^k (k odd, or any k when u is declared non-negative) and of sqrt/cbrt of monotone
    arguments; case trees are handled by the caller (each piece + continuity)."""
    if not isinstance(v, RatFunc):
        return None
    if u not in atoms_of(v):
        return 0
    if not poly.p_is_const(v.den):
        return None
    d = poly.p_const_value(v.den)
    # alpha * (linear in u)^3 + const: monotone with the sign of alpha * slope (x -> x^3 is increasing)
    c3 = [cn for m, cn in v.num.items() if len(m) == 1 and m[0][1] == 3 and poly.atom_by_id(m[0][0]).name == u]
    if len(c3) == 1 and c3[0] != 0:
        alpha = Fr(c3[0]) / d
        cube = sym._cube_of_linear(v * ctx.num(1 / alpha), ctx)
        if cube is not None:
            lin, _r = cube
            slope = [cn for m, cn in lin.num.items() if len(m) == 1 and m[0][1] == 1 and poly.atom_by_id(m[0][0]).name == u]
            if len(slope) == 1 and len([m for m in lin.num if m]) == 1:
                sl = Fr(slope[0]) / poly.p_const_value(lin.den)
                return (1 if alpha > 0 else -1) * (1 if sl > 0 else -1)
    total = 0
    for m, c in v.num.items():
        if not m:
            continue
        coef = Fr(c) / d
        if len(m) != 1:
            # a product of several atoms: only allowed when the other factors do not depend on u and are positive constants' atoms (not needed here)
            dep = [k for k, _e in m if u in atoms_of(RatFunc.atom(poly.atom_by_id(k), ctx.tab)) or poly.atom_by_id(k).name == u]
            if dep:
                return None
            continue
        (k, e), = m
        at = poly.atom_by_id(k)
        if not at.args:
            if at.name != u:
                continue
            if e % 2 == 1 or u in nonneg:
                dirn = 1
            else:
                return None
        else:
            if at.name not in ("sqrt", "cbrt") or e != 1:
                if u in atoms_of(RatFunc.atom(at, ctx.tab)):
                    return None
                continue
            inner = mono(at.args[0], u, ctx, nonneg)
            if inner is None:
                return None
            dirn = inner
        if dirn == 0:
            continue
        sgn = dirn * (1 if coef > 0 else -1)
        if total == 0:
            total = sgn
        elif total != sgn:
            return None
    return total


def mono_tree(v, u, S, nonneg):
    """Monotone direction of a case tree in u: every piece has the same direction and neighbouring pieces agree at their knee."""
    if not isinstance(v, Ite):
        return mono(v, u, S.ctx, nonneg), "closed form"
    rf = sym.Ctx._cond_rf.get(v.c)
    lf = alg.linear_form(rf) if isinstance(rf, RatFunc) else None
    if lf is None:
        return None, "condition is not a threshold on the variate"
    pkey, alpha, t0 = lf
    if not (len(pkey) == 1 and len(pkey[0][0]) == 1 and poly.atom_by_id(pkey[0][0][0][0]).name == u):
        return None, "condition does not compare the variate with a constant"
    dt, wt = mono_tree(v.t, u, S, nonneg)
    df, wf = mono_tree(v.f, u, S, nonneg)
    if dt is None or df is None or (dt != 0 and df != 0 and dt != df):
        return None, "pieces have different directions"
    # continuity at the knee u = t0
    aid = pkey[0][0][0][0]
    try:
        a = v.t
        b = v.f
        while isinstance(a, Ite):
            a = a.f
        while isinstance(b, Ite):
            b = b.t
        va = alg.deep_subst(a, {aid: t0}, S.ctx)
        vb = alg.deep_subst(b, {aid: t0}, S.ctx)
        if not va.equals(vb):
            return None, "pieces do not meet at the knee %s" % t0
    except Exception as ex:
        return None, "knee not evaluable: %s" % ex
    return (dt or df), "pieces agree in direction and meet at %s" % t0


def check_monotone(F, rep):
    """Between the end points: each sampled component is a non-decreasing function of its inner variate and each inner range end is a
    non-decreasing function of the corresponding end component — together with END this gives low.f <= sample.f <= high.f."""
    n = 0
    for im, xt in sorted(sampler_impls(F), key=lambda t: t[0]["self_s"]):
        key = im["self_s"].split("<")[0].split("::")[-1]
        adt = sym._adt_of_type(xt)
        if adt.startswith("hues::") or adt.endswith("::Alpha") or key in ("UniformHwb", "UniformOkhwb"):
            continue  # hue arcs: END + unwrapping rule; Alpha: two independent rand Uniforms; HWB: defined through the HSV sampler
        b_new, b_smp = F.impl_method(im, "new"), F.impl_method(im, "sample")
        try:
            S = Session(F)
            S.ctx.expand_minmax = False
            st = {"mode": "build", "kinds": set(), "gens": [], "F": F}
            S.ctx.call_hook = make_hook(st)
            low = alg.symbolic_arg(S.ctx, xt, "low")
            high = alg.symbolic_arg(S.ctx, xt, "high")
            pos = _positive_names(("low.", "high."), low) | _positive_names(("low.", "high."), high)
            S.ctx.positive = pos
            U, _ = S.ev.eval_body(b_new, [low, high])
            # replace every inner Uniform by a variate atom named after its field path
            names = {}

            def variates(v, pre=""):
                if isinstance(v, Struct) and v.path == "rand::Uniform":
                    nm = "u:" + pre
                    names[nm] = v
                    return Struct("rand::Uniform", {"low": S.ctx.sym(nm), "high": S.ctx.sym(nm)})
                if isinstance(v, Struct):
                    return Struct(v.path, {k: variates(x, (pre + "." + k) if pre else k) for k, x in v.fields.items()})
                return v
            Uv = variates(U)
            st["mode"] = "low"
            smp, _ = S.ev.eval_body(b_smp, [Uv, S.ctx.sym("rng")])
            st["mode"] = "build"
            bad = []
            info = []
            for comp, val in smp.fields.items():
                if isinstance(val, Struct):
                    continue  # hue / phantom
                us = sorted(a for a in atoms_of(val) if a.startswith("u:"))
                if len(us) != 1:
                    bad.append("%s depends on %s variates" % (comp, len(us)))
                    continue
                d, why = mono_tree(val, us[0], S, set(us))
                if d != 1:
                    bad.append("%s is not shown non-decreasing in its variate (%s): %s" % (comp, why, alg._short(val, 60)))
                    continue
                # the range ends as functions of the end components
                ends = names[us[0]]
                for side, endv, src in (("low", ends.fields["low"], "low."), ("high", ends.fields["high"], "high.")):
                    srcs = sorted(a for a in atoms_of(endv) if a.startswith(src))
                    if len(srcs) != 1:
                        bad.append("%s range end of %s depends on %s" % (side, comp, srcs))
                        continue
                    d2, why2 = mono_tree(endv, srcs[0], S, set(srcs))
                    if d2 != 1:
                        bad.append("%s range end of %s is not non-decreasing in %s (%s)" % (side, comp, srcs[0], why2))
                info.append("%s(%s)" % (comp, us[0][2:]))
            rep.ob("MONO", "uniform:" + key, not bad, "; ".join(bad[:3]) if bad else
                   "each of %s is non-decreasing in its variate and each range end in the end component: with END, low <= sample <= high component-wise" % ", ".join(info), F.loc(b_smp))
            n += 1
        except (Opaque, poly.TooBig, KeyError) as ex:
            rep.fail("MONO", "uniform:" + key, "uninterpretable: %s" % ex, F.loc(b_smp))
    rep.floor("uniform samplers with a monotonicity argument", n, 18)


# ------------------------------------------------------------------------------------------------ Standard
def _root_bounds(name, lo, hi):
    """rational enclosure of sqrt/cbrt over [lo, hi] (lo >= 0)"""
    import math
    f = math.sqrt if name == "sqrt" else (lambda x: x ** (1.0 / 3.0))
    eps = Fr(1, 10 ** 9)

    def one(x, down):
        r = sym._exact_root(Fr(x), 2 if name == "sqrt" else 3)
        if r is not None:
            return r
        y = Fr(f(float(x)))
        return y - eps if down else y + eps
    return (max(Fr(0), one(lo, True)), one(hi, False))


def atom_domains(S, value, gens):
    """{RatFunc atom: (lo, hi)} for the generator atoms and every sqrt/cbrt application over them."""
    env = RNG.Env(atoms={g: (0, 1) for g in gens})
    env.atoms["h"] = (0, 360)
    dom = []
    seen = set()

    def visit(rf):
        if not isinstance(rf, RatFunc):
            return
        for aid in rf.atoms():
            a = poly.atom_by_id(aid)
            if aid in seen:
                continue
            seen.add(aid)
            me = RatFunc.atom(a, S.ctx.tab)
            if not a.args:
                if a.name in env.atoms:
                    lo, hi = env.atoms[a.name]
                    dom.append((me, Fr(lo), Fr(hi)))
                continue
            for x in a.args:
                visit(x)
            if a.name in ("sqrt", "cbrt"):
                lo, hi = interval_of(a.args[0], env)
                if lo < 0:
                    raise Opaque("root of a possibly negative quantity [%s, %s]" % (lo, hi))
                r = _root_bounds(a.name, lo, hi)
                env.atoms[repr(me)] = r
                dom.append((me, r[0], r[1]))

    def walk(v):
        if isinstance(v, RatFunc):
            visit(v)
        elif isinstance(v, Ite):
            rf = sym.Ctx._cond_rf.get(v.c)
            if isinstance(rf, RatFunc):
                visit(rf)
            walk(v.t)
            walk(v.f)
        elif isinstance(v, Struct):
            for x in v.fields.values():
                walk(x)
        elif isinstance(v, (Tuple, Array)):
            for x in v.items:
                walk(x)
    walk(value)
    return dom, env


def interval_of(rf, env):
    """Interval of a RatFunc whose application atoms have already been bounded in env.atoms (keyed by repr)."""
    lo = hi = Fr(0)
    if not poly.p_is_const(rf.den):
        raise Opaque("interval of a quotient")
    d = poly.p_const_value(rf.den)
    for m, c in rf.num.items():
        t = (Fr(c) / d, Fr(c) / d)
        for k, e in m:
            a = poly.atom_by_id(k)
            nm = a.name if not a.args else repr(RatFunc.atom(a, rf.tab))
            if nm not in env.atoms:
                raise Opaque("unbounded atom %s" % nm)
            iv = (Fr(env.atoms[nm][0]), Fr(env.atoms[nm][1]))
            t = RNG.imul(t, RNG.ipow(iv, e))
        lo += t[0]
        hi += t[1]
    return (lo, hi)


def check_standard(F, rep):
    from .c03 import mk_session, self_types, all_true, show_path
    wb = None
    n = 0
    for im in sorted((i for i in F.impls if _trait(F, i) == T_D), key=lambda i: i["trait_args_s"][0]):
        tt = im["trait_args_s"][0]
        adt = sym._adt_of_type(tt)
        key = adt.split("::")[-1]
        b = F.impl_method(im, "sample")
        n += 1
        S = mk_session(F)
        st = {"mode": "atom", "kinds": set(), "gens": [], "F": F}
        S.ctx.call_hook = make_hook(st)
        try:
            v, _ = S.ev.eval_body(b, [S.ctx.sym("Standard"), S.ctx.sym("rng")])
        except (Opaque, poly.TooBig) as ex:
            rep.fail("STD", "standard:" + key, "uninterpretable: %s" % ex, F.loc(b))
            continue
        if key == "Alpha":
            ok = isinstance(v, Struct) and set(v.fields) == {"color", "alpha"} and not sym.val_eq(v.fields["color"], v.fields["alpha"])
            rep.ob("STD", "standard:Alpha", ok, "colour and alpha are two separate draws: %s" % alg._short(v, 120), F.loc(b))
            continue
        try:
            dom, env = atom_domains(S, v, st["gens"])
            if adt.startswith("hues::"):
                lo, hi = interval_of(v.fields["0"], env)
                rep.ob("STD", "standard:" + key, lo >= 0 and hi <= 360, "hue = %s ∈ [%s, %s] for u ∈ [0, 1)" % (alg._short(v.fields["0"], 60), lo, hi), F.loc(b))
                continue
            if wb is None:
                wb = self_types(F, "IsWithinBounds")
            if adt not in wb:
                rep.fail("STD", "standard:" + key, "type has a Standard distribution but no IsWithinBounds impl to define its bounds", F.loc(b))
                continue
            b_wb = wb[adt][0][1].get("is_within_bounds")
            if key in ("Hwb", "Okhwb"):
                # sampled as from_color_unclamped(gen::<Hsv>()): W = (1-S)V, B = 1-V with S, V ∈ [0,1] (STD for the HSV form) lie in [0,1]
                # and W + B = 1 - SV <= 1; the product form makes this true, interval arithmetic on the expanded form cannot see it
                hsv_adt, back = _hwb_conv(F, adt)
                S3 = mk_session(F)
                st3 = {"mode": "atom", "kinds": set(), "gens": [], "F": F}
                S3.ctx.call_hook = make_hook(st3)
                hv = gen_value(st3, S3.ev, hsv_adt, sym.Frame(b, {}, {}, 0))
                exp, _ = S3.ev.eval_body(back, [hv])
                st4 = {"mode": "atom", "kinds": set(), "gens": [], "F": F}
                S3.ctx.call_hook = make_hook(st4)
                v3, _ = S3.ev.eval_body(b, [S3.ctx.sym("Standard"), S3.ctx.sym("rng")])
                check_value(rep, "STD", "standard:" + key, S3, b, v3, exp,
                            sample="= from_color_unclamped(Standard HSV sample): W = (1-S)V, B = 1-V ∈ [0,1], W+B = 1-SV <= 1")
                continue
            # variates are >= 0; the closed lower bounds make the single point u = 0 immaterial for the sign rules
            S.ctx.positive = set(S.ctx.positive) | set(st["gens"])
            B, _ = S.ev.eval_body(b_wb, [v])
            cons = []
            for rf, lo, hi in dom:
                cons.append((rf, ">=", lo))
                cons.append((rf, "<=", hi))
            bad = all_true(B, S, S.domain(cons))
            rep.ob("STD", "standard:" + key, not bad,
                   ("sample can leave the bounds when " + show_path(bad[0])) if bad else
                   "is_within_bounds(sample) ≡ true for all %d variates in [0,1): %s" % (len(st["gens"]), alg._short(v, 160)), F.loc(b))
        except (Opaque, poly.TooBig, KeyError, ValueError, RNG.Unknown) as ex:
            rep.fail("STD", "standard:" + key, "not decidable: %s" % ex, F.loc(b))
    rep.floor("Standard distributions", n, 26)


# ------------------------------------------------------------------------------------------------ volume
def check_volume(F, rep):
    S = Session(F, positive={"v", "s", "h", "r1", "r2"})
    ctx, R = S.ctx, S.R
    fn = lambda n_: F.fn("random_sampling::cone::" + n_)
    r1, r2, v, s, h = (ctx.sym(x) for x in ("r1", "r2", "v", "s", "h"))
    try:
        hs = Struct("random_sampling::cone::HsvSample", {"value": v, "saturation": s})
        out, _ = S.ev.eval_body(fn("invert_hsv_sample"), [hs])
        check_value(rep, "VOL", "cone CDFs", S, fn("invert_hsv_sample"), out, Tuple([v ** 3, s ** 2]),
                    sample="P(V <= v) = v^3 (cross-section area grows with v^2), P(S <= s | v) = s^2 (disc)")
        smp, _ = S.ev.eval_body(fn("sample_hsv"), [r1, r2])
        check_value(rep, "VOL", "cone inverse CDFs", S, fn("sample_hsv"), smp,
                    Struct("random_sampling::cone::HsvSample", {"value": R.cbrt(r1), "saturation": R.sqrt(r2)}), sample="value = cbrt(r1), saturation = sqrt(r2)")
        back, _ = S.ev.eval_body(fn("invert_hsv_sample"), [smp])
        check_value(rep, "VOL", "invert_hsv_sample∘sample_hsv = id", S, fn("sample_hsv"), back, Tuple([r1, r2]), sample="cbrt(r)^3 = r, sqrt(r)^2 = r")
        # bicone
        ls = Struct("random_sampling::cone::HslSample", {"lightness": h, "saturation": s})
        out, _ = S.ev.eval_body(fn("invert_hsl_sample"), [ls])
        cdf = R.ite(R.le(h, Fr(1, 2)), R.mul(4, h ** 3), R.sub(1, R.mul(4, R.sub(1, h) ** 3)))
        check_value(rep, "VOL", "bicone CDFs", S, fn("invert_hsl_sample"), out, Tuple([cdf, s ** 2]),
                    sample="P(L <= h) = 4h^3 (h <= 1/2), 1 - 4(1-h)^3 (h > 1/2); P(S <= s | h) = s^2")
        for side, dom in (("lower", [(r1, "<=", Fr(1, 2)), (r1, ">=", 0)]), ("upper", [(r1, ">", Fr(1, 2)), (r1, "<=", 1)])):
            smp, _ = S.ev.eval_body(fn("sample_hsl"), [r1, r2])
            back, _ = S.ev.eval_body(fn("invert_hsl_sample"), [smp])
            check_value(rep, "VOL", "invert_hsl_sample∘sample_hsl = id (%s cone)" % side, S, fn("sample_hsl"), back, Tuple([r1, r2]), domain=S.domain(dom),
                        sample="the sampled height inverts to the variate")
    except (Opaque, poly.TooBig, facts.AnchorMissing) as ex:
        rep.fail("VOL", "cone functions", "uninterpretable: %s" % ex)
    # Standard distributions of the shaped spaces: independent variates through the inverse CDFs
    n = 0
    for im in sorted((i for i in F.impls if _trait(F, i) == T_D), key=lambda i: i["trait_args_s"][0]):
        adt = sym._adt_of_type(im["trait_args_s"][0])
        key = adt.split("::")[-1]
        shape = SHAPES.get(key)
        if shape is None:
            continue
        b = F.impl_method(im, "sample")
        S2 = Session(F)
        st = {"mode": "atom", "kinds": set(), "gens": [], "F": F}
        S2.ctx.call_hook = make_hook(st)
        try:
            v2, _ = S2.ev.eval_body(b, [S2.ctx.sym("Standard"), S2.ctx.sym("rng")])
            kind, height, radius = shape
            hv, rv = v2.fields[height], v2.fields[radius]
            ha = {a for a in atoms_of(hv) if re.match(r"^u\d+$", a)}
            ra = {a for a in atoms_of(rv) if re.match(r"^u\d+$", a)}
            hue_a = {a for a in atoms_of(v2.fields["hue"]) if re.match(r"^u\d+$", a)}
            ok = len(ha) == 1 and len(ra) == 1 and len(hue_a) == 1 and len(ha | ra | hue_a) == 3
            det = "hue, %s, %s from three distinct variates" % (height, radius)
            if ok:
                u_h = S2.ctx.sym(next(iter(ha)))
                u_r = S2.ctx.sym(next(iter(ra)))
                R2 = S2.R
                if kind == "cone":
                    eh = R2.cbrt(u_h)
                elif kind == "bicone":
                    eh = R2.ite(R2.le(u_h, Fr(1, 2)), R2.mul(Fr(1, 2), R2.cbrt(R2.mul(2, u_h))), R2.sub(1, R2.mul(Fr(1, 2), R2.cbrt(R2.mul(2, R2.sub(1, u_h))))))
                else:
                    eh = u_h
                er = R2.sqrt(u_r)
                okh, kh = _scaled_equal(S2, hv, eh)
                okr, kr = _scaled_equal(S2, rv, er)
                ok = okh and okr
                det = "%s = %s·F_%s^-1(u), %s = %s·sqrt(u')" % (height, kh, kind, radius, kr) if ok else "%s = %s; %s = %s" % (height, alg._short(hv, 80), radius, alg._short(rv, 80))
            rep.ob("VOL", "standard:%s (%s)" % (key, kind), ok, det, F.loc(b))
            n += 1
        except (Opaque, poly.TooBig, KeyError) as ex:
            rep.fail("VOL", "standard:%s" % key, "uninterpretable: %s" % ex, F.loc(b))
    rep.floor("shaped Standard distributions", n, 9)


# type -> (shape, height component, radius component); HWB forms are sampled through their HSV form
SHAPES = {
    "Hsv": ("cone", "value", "saturation"), "Okhsv": ("cone", "value", "saturation"),
    "Hsl": ("bicone", "lightness", "saturation"), "Okhsl": ("bicone", "lightness", "saturation"), "Hsluv": ("bicone", "l", "saturation"),
    "Lch": ("cylinder", "l", "chroma"), "Lchuv": ("cylinder", "l", "chroma"), "Oklch": ("cylinder", "l", "chroma"),
    "Cam16UcsJmh": ("cylinder", "lightness", "colorfulness"),
}


def _scaled_equal(S, v, e):
    """v == k * e for a positive constant k (the documented maximum of the component)?  Returns (ok, k)."""
    for pv, lv in sym.leaves(v):
        break
    # find k from any leaf pair by cross-multiplication on a witness leaf, then compare whole trees
    def first_leaf(x):
        while isinstance(x, Ite):
            x = x.t
        return x
    a, b = first_leaf(v), first_leaf(e)
    if not (isinstance(a, RatFunc) and isinstance(b, RatFunc)) or b.is_zero():
        return False, None
    q = a / b
    if not q.is_const():
        # additive offset forms (1 - ...) on the first leaf: try the last leaf
        def last_leaf(x):
            while isinstance(x, Ite):
                x = x.f
            return x
        a, b = last_leaf(v), last_leaf(e)
        q = a / b
        if not q.is_const():
            return False, None
    k = q.const_value()
    if k <= 0:
        return False, k
    try:
        mm = alg.compare(v, sym.tree_map(lambda x: x * S.ctx.num(k), e), S.ctx)
    except (Opaque, poly.TooBig):
        return False, k
    return (not mm), k


def check_volume_uniform(F, rep):
    """VOL-UNIFORM: the uniform samplers of the shaped spaces draw in CDF space.  With every inner `Uniform::sample` replaced by a fresh
    variate d_k (remembered with the bounds of its distribution): hue, height and radius come from three *distinct* variates, each inner
    distribution is sampled exactly once, radius = k·sqrt(d) with d ∈ [(low.r/k)², (high.r/k)²], height = k·cbrt(d) with cubed bounds (cone),
    the inverse bicone CDF of d with d between the CDFs of the two ends (bicone), d itself (cylinder).  Anything else (two draws combined,
    a draw in coordinate space) is not uniform in volume between the two ends, whatever its range."""
    n = 0
    for im, xt in sorted(sampler_impls(F), key=lambda t: t[0]["self_s"]):
        key = im["self_s"].split("<")[0].split("::")[-1]
        tkey = sym._adt_of_type(xt).split("::")[-1]
        hwb = tkey in ("Hwb", "Okhwb")
        shape = SHAPES.get(tkey) or (("cone", None, None) if hwb else None)
        if shape is None:
            continue
        b_new, b_smp = F.impl_method(im, "new"), F.impl_method(im, "sample")
        n += 1
        try:
            S = Session(F)
            st = {"mode": "build", "kinds": set(), "gens": [], "F": F}
            S.ctx.call_hook = make_hook(st)
            low = alg.symbolic_arg(S.ctx, xt, "low")
            high = alg.symbolic_arg(S.ctx, xt, "high")
            S.ctx.positive = _positive_names(("low.", "high."), low) | _positive_names(("low.", "high."), high) | {"d0", "d1", "d2", "d3", "d4"}
            U1, _ = S.ev.eval_body(b_new, [low, high])
            st["mode"], st["draws"] = "draw", []
            v, _ = S.ev.eval_body(b_smp, [U1, S.ctx.sym("rng")])
            draws = {d[0]: (d[1], d[2]) for d in st["draws"]}
            kind, height, radius = shape
            R = S.R
            problems = []
            if len(draws) != 3:
                problems.append("%d variates drawn for hue, height and radius (each inner distribution must be sampled exactly once)" % len(draws))
            dn = lambda x: {a for a in atoms_of(x) if re.match(r"^d\d+$", a)}
            if hwb:
                hv = R.sub(1, v.fields["blackness"])                      # V = 1 - blackness
                rv = None
                wa, ha = dn(v.fields["whiteness"]), dn(hv)
                ra = wa - ha
            else:
                hv, rv = v.fields[height], v.fields[radius]
                ha, ra = dn(hv), dn(rv)
            hue_a = dn(v.fields["hue"])
            if not (len(ha) == 1 and len(ra) == 1 and len(hue_a) == 1 and len(ha | ra | hue_a) == 3):
                problems.append("hue, height and radius are not functions of three distinct single variates: hue %s, height %s, radius %s" % (sorted(hue_a), sorted(ha), sorted(ra)))
            else:
                dh, dr = S.ctx.sym(next(iter(ha))), S.ctx.sym(next(iter(ra)))
                (hlo, hhi), (rlo, rhi) = draws[next(iter(ha))], draws[next(iter(ra))]
                if hwb:
                    okr, kr = _scaled_equal(S, v.fields["whiteness"], R.mul(R.cbrt(dh), R.sub(1, R.sqrt(dr))))
                    okh, kh = _scaled_equal(S, hv, R.cbrt(dh))
                    if not (okr and okh and kr == 1 and kh == 1):
                        problems.append("value = %s, whiteness = %s; expected cbrt(d), cbrt(d)·(1 - sqrt(d'))" % (alg._short(hv, 60), alg._short(v.fields["whiteness"], 80)))
                else:
                    okr, kr = _scaled_equal(S, rv, R.sqrt(dr))
                    if not okr:
                        problems.append("%s = %s, expected k·sqrt(d)" % (radius, alg._short(rv, 80)))
                    else:
                        for nm, got, end in (("low", rlo, low), ("high", rhi, high)):
                            mm = alg.compare(got, (end.fields[radius] / S.ctx.num(kr)) ** 2, S.ctx)
                            if mm:
                                problems.append("%s bound of the radius variate is %s, expected (%s.%s/%s)²" % (nm, alg._short(got, 60), nm, radius, kr))
                    if kind == "cone":
                        eh = R.cbrt(dh)
                        cdf = lambda h: h ** 3
                    elif kind == "bicone":
                        eh = R.ite(R.le(dh, Fr(1, 2)), R.mul(Fr(1, 2), R.cbrt(R.mul(2, dh))), R.sub(1, R.mul(Fr(1, 2), R.cbrt(R.mul(2, R.sub(1, dh))))))
                        cdf = lambda h: R.ite(R.le(h, Fr(1, 2)), R.mul(4, h ** 3), R.sub(1, R.mul(4, R.sub(1, h) ** 3)))
                    else:
                        eh = dh
                        cdf = lambda h: h
                    okh, kh = _scaled_equal(S, hv, eh)
                    if not okh:
                        problems.append("%s = %s, expected k·F⁻¹(d) of the %s" % (height, alg._short(hv, 80), kind))
                    else:
                        for nm, got, end in (("low", hlo, low), ("high", hhi, high)):
                            mm = alg.compare(got, cdf(end.fields[height] / S.ctx.num(kh)), S.ctx)
                            if mm:
                                problems.append("%s bound of the height variate is %s, expected F(%s.%s/%s)" % (nm, alg._short(got, 60), nm, height, kh))
            rep.ob("VOL-UNIFORM", "uniform:%s (%s)" % (key, kind), not problems,
                   "; ".join(problems[:3]) if problems else "three distinct variates; radius = k·sqrt(d), height = k·F⁻¹(d), bounds are the CDFs of the two ends", F.loc(b_smp))
        except (Opaque, poly.TooBig, KeyError, AttributeError) as ex:
            rep.fail("VOL-UNIFORM", "uniform:%s" % key, "uninterpretable: %s" % ex, F.loc(b_smp))
    rep.floor("shaped uniform samplers", n, 11)


def run(F, rep, tier="quick", extra=None, only=None):
    rep.trusted += ["rustc name resolution / type check", "operator table of rules/sym.py",
                    "rand 0.8 API meaning: Uniform::new(a, b).sample ∈ [a, b) (new_inclusive: [a, b]), Standard f32/f64 ∈ [0, 1), SampleBorrow::borrow is the identity",
                    "axioms sqrt(x)^2 = x, cbrt(x)^3 = x, sqrt(x^2) = x and cbrt(x^3) = x for the non-negative documented ranges"]
    check_uniform(F, rep)
    check_monotone(F, rep)
    check_standard(F, rep)
    check_volume(F, rep)
    check_volume_uniform(F, rep)
    return {"level": "other", "explanation": EXPLANATION}
