"""C08 — blending and compositing follow the W3C formulas and Porter-Duff identities.

ALG-REF: normal form of every blend function / compositing operator == the formula of
W3C Compositing and Blending Level 1 (transcribed below, independent of the code).
ALG-LAW: commutativity, opaque reduction, premultiply/unpremultiply inverse.
SHAPE-FWD: the 3 x 11 Blend and 2 x 6 Compose dispatchers pass the function / call the
operator named after the method, with source and backdrop in order.
"""
from .common import Session, check_ref, check_value, one, impl_methods, atoms_of, apps_of
import re
from . import alg, sym, poly
from .sym import Struct, Tuple, Opaque, elementwise

EXPLANATION = (
    "Static, all-inputs: each blend/compose function body (resolved HIR of /repo's current tree) is symbolically "
    "normalised to a case tree of exact rational functions and compared with the W3C formula; dispatch impls are "
    "evaluated with the blend functions left uninterpreted so that the function reaching each method is visible. "
    "Not decided: rounding, and results staying in [0,1] where no final clamp provides it."
    " CONV: C::from(PreAlpha<C>) (9 types) and the PreAlpha constructors / From impls are premultiply / unpremultiply themselves."
)

MODES = ["multiply", "screen", "overlay", "darken", "lighten", "dodge", "burn", "hard_light", "soft_light", "difference", "exclusion"]
OPS = ["over", "inside", "outside", "atop", "xor", "plus"]
COMMUTATIVE = ["multiply", "screen", "darken", "lighten", "difference", "exclusion"]


# --- W3C reference (s = source Cs, b = backdrop Cb), domain [0,1] -------------------

def ref_mode(R, mode, s, b):
    if mode == "multiply":
        return R.mul(s, b)
    if mode == "screen":
        return R.sub(R.add(b, s), R.mul(b, s))
    if mode == "overlay":
        return ref_mode(R, "hard_light", b, s)
    if mode == "darken":
        return R.min(s, b)
    if mode == "lighten":
        return R.max(s, b)
    if mode == "dodge":
        return R.ite(R.eq(b, 0), 0, R.ite(R.eq(s, 1), 1, R.min(1, R.div(b, R.sub(1, s)))))
    if mode == "burn":
        return R.ite(R.eq(b, 1), 1, R.ite(R.eq(s, 0), 0, R.sub(1, R.min(1, R.div(R.sub(1, b), s)))))
    if mode == "hard_light":
        return R.ite(R.le(s, "1/2"), ref_mode(R, "multiply", R.mul(2, s), b), ref_mode(R, "screen", R.sub(R.mul(2, s), 1), b))
    if mode == "soft_light":
        d = R.ite(R.le(b, "1/4"), R.mul(R.add(R.mul(R.sub(R.mul(16, b), 12), b), 4), b), R.sqrt(b))
        return R.ite(R.le(s, "1/2"),
                     R.sub(b, R.mul(R.sub(1, R.mul(2, s)), b, R.sub(1, b))),
                     R.add(b, R.mul(R.sub(R.mul(2, s), 1), R.sub(d, b))))
    if mode == "difference":
        return R.abs(R.sub(b, s))
    if mode == "exclusion":
        return R.sub(R.add(b, s), R.mul(2, b, s))
    raise KeyError(mode)


def ref_alpha(R, a_s, a_b):
    return R.clamp(R.sub(R.add(a_s, a_b), R.mul(a_s, a_b)), 0, 1)


# Porter-Duff, premultiplied: co = cs*Fa + cb*Fb ; ao = as*Fa + ab*Fb
def ref_pd(R, op, cs, cb, a_s, a_b):
    fa, fb = {
        "over": (1, R.sub(1, a_s)),
        "inside": (a_b, 0),
        "outside": (R.sub(1, a_b), 0),
        "atop": (a_b, R.sub(1, a_s)),
        "xor": (R.sub(1, a_b), R.sub(1, a_s)),
        "plus": (1, 1),
    }[op]
    co = R.add(R.mul(cs, fa), R.mul(cb, fb))
    ao = R.clamp(R.add(R.mul(a_s, fa), R.mul(a_b, fb)), 0, 1)
    return co, ao


def run(F, rep, tier="quick", extra=None, only=None):
    rep.trusted += ["rustc name resolution / type check (callee identity)", "operator table of rules/sym.py (num::* trait methods = real operators)",
                    "W3C Compositing and Blending Level 1 formulas as transcribed in rules/c08.py", "axiom sqrt(x)^2 = x"]
    # ---------------------------------------------------------------- 1. blend functions
    S = Session(F)
    for mode in MODES:
        b = F.fn("blend::blend::%s_blend" % mode)

        def dom(S_, s, d):
            return S_.domain([(s, ">=", 0), (s, "<=", 1), (d, ">=", 0), (d, "<=", 1)])
        check_ref(rep, "ALG-REF", "blend-fn:" + mode, S, b, lambda R, s, d, mode=mode: ref_mode(R, mode, s, d), domain_fn=dom)
    # commutativity (law on the code's own normal form)
    for mode in COMMUTATIVE:
        b = F.fn("blend::blend::%s_blend" % mode)
        x, y = S.ctx.sym("p"), S.ctx.sym("q")
        try:
            v1, _ = S.ev.eval_body(b, [x, y])
            v2, _ = S.ev.eval_body(b, [y, x])
            check_value(rep, "ALG-LAW", "commutative:" + mode, S, b, v1, v2)
        except Opaque as ex:
            rep.fail("ALG-LAW", "commutative:" + mode, "uninterpretable: %s" % ex, F.loc(b))

    # ---------------------------------------------------------------- 2. blend_alpha, blend_separable
    b = F.fn("blend::blend_alpha")
    check_ref(rep, "ALG-REF", "blend_alpha", S, b, lambda R, a, c: ref_alpha(R, a, c))

    bs = F.fn("blend::blend::blend_separable")

    def exp_sep(R, src, dst, f):
        cs, cb = R.s("src.color[i]"), R.s("dst.color[i]")
        cs_pre, cb_pre = R.s("src.color_pre[i]"), R.s("dst.color_pre[i]")
        a_s, a_b = R.s("src.alpha"), R.s("dst.alpha")
        B = S.ev.uninterpreted("call:f", [cs, cb])
        co = R.add(R.mul(cs_pre, R.sub(1, a_b)), R.mul(B, a_s, a_b), R.mul(R.sub(1, a_s), cb_pre))
        return Struct("blend::pre_alpha::PreAlpha", {"color": elementwise(co), "alpha": ref_alpha(R, a_s, a_b)})
    check_ref(rep, "ALG-REF", "blend_separable", S, bs, exp_sep, names=["src", "dst", "f"])

    # opaque inputs reduce to the plain blend function: as = ab = 1, premultiplied = straight
    try:
        one_ = S.ctx.num(1)
        def opaque_input(n):
            c = S.ctx.sym(n + ".color")
            return Struct("blend::blend::BlendInput", {"color": c, "color_pre": c, "alpha": one_})
        v, _ = S.ev.eval_body(bs, [opaque_input("src"), opaque_input("dst"), S.ctx.sym("f")])
        expv = Struct("blend::pre_alpha::PreAlpha", {"color": elementwise(S.ev.uninterpreted("call:f", [S.ctx.sym("src.color[i]"), S.ctx.sym("dst.color[i]")])), "alpha": one_})
        check_value(rep, "ALG-LAW", "opaque-reduces-to-B", S, bs, v, expv)
    except Opaque as ex:
        rep.fail("ALG-LAW", "opaque-reduces-to-B", "uninterpretable: %s" % ex, F.loc(bs))

    # ---------------------------------------------------------------- 3. Porter-Duff on PreAlpha
    pre_impl = one([x for x in impl_methods(F, "blend::compose::Compose") if x[0]["self_s"].startswith("blend::pre_alpha::PreAlpha<")], "Compose for PreAlpha")
    for op in OPS:
        b = pre_impl[1].get(op)
        if b is None:
            rep.fail("ANCHOR", "compose:" + op, "method missing")
            continue

        def exp_pd(R, s, d, op=op):
            co, ao = ref_pd(R, op, R.s("s.color[i]"), R.s("d.color[i]"), R.s("s.alpha"), R.s("d.alpha"))
            return Struct("blend::pre_alpha::PreAlpha", {"color": elementwise(co), "alpha": ao})
        check_ref(rep, "ALG-REF", "porter-duff:" + op, S, b, exp_pd, names=["s", "d"])
    # laws on the code's normal forms
    b_over = pre_impl[1].get("over")
    if b_over is not None:
        try:
            # fully transparent source (premultiplied colour 0, alpha 0) over backdrop = backdrop
            zero = S.ctx.num(0)
            src = Struct("blend::pre_alpha::PreAlpha", {"color": elementwise(zero), "alpha": zero})
            dst = Struct("blend::pre_alpha::PreAlpha", {"color": S.ctx.sym("d.color"), "alpha": S.ctx.sym("d.alpha")})
            v, _ = S.ev.eval_body(b_over, [src, dst])
            expv = Struct("blend::pre_alpha::PreAlpha", {"color": elementwise(S.ctx.sym("d.color[i]")), "alpha": S.R.clamp(S.ctx.sym("d.alpha"), 0, 1)})
            check_value(rep, "ALG-LAW", "transparent-over-backdrop", S, b_over, v, expv)
            # opaque source over anything = source
            src = Struct("blend::pre_alpha::PreAlpha", {"color": S.ctx.sym("s.color"), "alpha": S.ctx.num(1)})
            v, _ = S.ev.eval_body(b_over, [src, dst])
            d_alpha = S.ctx.sym("d.alpha")
            expv = Struct("blend::pre_alpha::PreAlpha", {"color": elementwise(S.ctx.sym("s.color[i]")), "alpha": S.ctx.num(1)})
            check_value(rep, "ALG-LAW", "opaque-over-anything", S, b_over, v, expv)
        except Opaque as ex:
            rep.fail("ALG-LAW", "over-laws", "uninterpretable: %s" % ex, F.loc(b_over))
    for op in ("plus", "xor"):
        b = pre_impl[1].get(op)
        if b is None:
            continue
        try:
            def pa(n):
                return Struct("blend::pre_alpha::PreAlpha", {"color": S.ctx.sym(n + ".color"), "alpha": S.ctx.sym(n + ".alpha")})
            v1, _ = S.ev.eval_body(b, [pa("p"), pa("q")])
            v2, _ = S.ev.eval_body(b, [pa("q"), pa("p")])
            check_value(rep, "ALG-LAW", "commutative:" + op, S, b, v1, v2)
        except Opaque as ex:
            rep.fail("ALG-LAW", "commutative:" + op, "uninterpretable: %s" % ex, F.loc(b))

    # ---------------------------------------------------------------- 4. premultiply / unpremultiply
    n_pm = 0
    for im, ms in impl_methods(F, "blend::Premultiply"):
        ty = im["self_s"]
        pm, upm = ms.get("premultiply"), ms.get("unpremultiply")
        if pm is None or upm is None:
            rep.fail("ANCHOR", "premultiply:" + ty, "methods missing")
            continue
        n_pm += 1
        adt = F.adt_by_path[im["self_adt"]]

        def comps(v):
            return {k: x for k, x in v.fields.items() if not alg._is_phantom(x)}

        def exp_pm(R, c, a):
            return Struct("blend::pre_alpha::PreAlpha", {"color": Struct(c.path, {k: (R.mul(x, a) if not alg._is_phantom(x) else x) for k, x in c.fields.items()}), "alpha": a})
        check_ref(rep, "ALG-REF", "premultiply:" + ty, S, pm, exp_pm, names=["c", "alpha"])

        def exp_upm(R, p):
            c, a = p.fields["color"], p.fields["alpha"]
            return Tuple([Struct(c.path, {k: (R.ite(R.valid(a), R.div(x, a), 0) if not alg._is_phantom(x) else x) for k, x in c.fields.items()}), a])
        check_ref(rep, "ALG-REF", "unpremultiply:" + ty, S, upm, exp_upm, names=["p"])
        # law: unpremultiply(premultiply(c, a)) = c when a is a valid divisor, zero colour otherwise
        try:
            args = S.args(pm, ["c", "alpha"])
            pv, _ = S.ev.eval_body(pm, args)
            uv, _ = S.ev.eval_body(upm, [pv])
            c, a = args
            expv = Tuple([Struct(c.path, {k: (S.R.ite(S.R.valid(a), x, 0) if not alg._is_phantom(x) else x) for k, x in c.fields.items()}), a])
            check_value(rep, "ALG-LAW", "unpremultiply∘premultiply:" + ty, S, upm, uv, expv)
        except Opaque as ex:
            rep.fail("ALG-LAW", "unpremultiply∘premultiply:" + ty, "uninterpretable: %s" % ex, F.loc(upm))
    rep.floor("premultiply-impls", n_pm, 8)

    # ---------------------------------------------------------------- 5. dispatchers
    fn_paths = {"blend::blend::%s_blend" % m for m in MODES} | {"blend::blend::blend_separable"}
    S2 = Session(F, no_inline=fn_paths)
    n_disp = 0
    for im, ms in impl_methods(F, "blend::blend::Blend"):
        ty = im["self_s"]
        for mode in MODES:
            b = ms.get(mode)
            if b is None:
                rep.fail("ANCHOR", "Blend:%s:%s" % (ty, mode), "method missing")
                continue
            n_disp += 1
            key = "Blend<%s>::%s" % (ty, mode)
            try:
                v, _ = S2.eval(b, names=["src", "dst"])
            except Opaque as ex:
                rep.fail("SHAPE-FWD", key, "uninterpretable: %s" % ex, F.loc(b))
                continue
            problems = _dispatch_problems(v, mode, "_blend", "blend::blend::blend_separable")
            rep.ob("SHAPE-FWD", key, not problems, "; ".join(problems) if problems else "passes %s_blend to blend_separable(src…, dst…)" % mode, F.loc(b))
    rep.floor("Blend dispatchers", n_disp, 33)

    pd_paths = {b["path"] for b in pre_impl[1].values()}
    S3 = Session(F, no_inline=pd_paths)
    n_disp = 0
    for im, ms in impl_methods(F, "blend::compose::Compose"):
        ty = im["self_s"]
        if ty.startswith("blend::pre_alpha::PreAlpha<"):
            continue
        for op in OPS:
            b = ms.get(op)
            if b is None:
                rep.fail("ANCHOR", "Compose:%s:%s" % (ty, op), "method missing")
                continue
            n_disp += 1
            key = "Compose<%s>::%s" % (ty, op)
            try:
                v, _ = S3.eval(b, names=["src", "dst"])
            except Opaque as ex:
                rep.fail("SHAPE-FWD", key, "uninterpretable: %s" % ex, F.loc(b))
                continue
            problems = _compose_problems(v, op)
            rep.ob("SHAPE-FWD", key, not problems, "; ".join(problems) if problems else "premultiply → PreAlpha::%s(src, dst) → unpremultiply" % op, F.loc(b))
    rep.floor("Compose dispatchers", n_disp, 12)
    check_blend_inputs(F, rep)
    check_straight_pre_conversions(F, rep)
    return {"level": "proof"}


def check_blend_inputs(F, rep):
    """INPUT: `blend_separable` reads `color` as the STRAIGHT colour (argument of the blend function B), `color_pre` as the premultiplied colour
    and `alpha`; the three constructors of `BlendInput` must fill them accordingly.  The colour type is generic, so the constructors are compared
    as terms over the uninterpreted `Premultiply::premultiply` / `unpremultiply`."""
    S = Session(F)
    U = r"blend::Premultiply::unpremultiply<C>\(mk:PreAlpha\{alpha,color\}\(c\.alpha, c\.color\)\)"
    P = r"blend::Premultiply::premultiply<C>\(c\.color, c\.alpha\)"
    EXPECT = {
        "new_opaque": {"color": r"c", "color_pre": r"c", "alpha": r"(stimulus::Stimulus::max_intensity<.*>|1)"},
        "from<Alpha>": {"color": r"c\.color", "color_pre": r"proj\.color\(%s\)" % P, "alpha": r"(proj\.alpha\(%s\)|c\.alpha)" % P},
        "from<PreAlpha>": {"color": r"proj\.0\(%s\)" % U, "color_pre": r"c\.color", "alpha": r"(proj\.1\(%s\)|c\.alpha)" % U},
    }
    n = 0
    for b in F.bodies:
        im = b.get("_impl")
        if not im or not im["self_s"].startswith("blend::blend::BlendInput<") or b["name"] not in ("from", "new_opaque"):
            continue
        which = b["name"]
        if which == "from":
            src = (im.get("trait_args_s") or ["?"])[0]
            which = "from<PreAlpha>" if src.startswith("blend::pre_alpha::PreAlpha<") else "from<Alpha>" if src.startswith("alpha::alpha::Alpha<") else None
        if which is None:
            rep.fail("INPUT", "BlendInput::from<%s>" % src, "unknown constructor of BlendInput: no reference for it", F.loc(b))
            continue
        n += 1
        key = "BlendInput::" + which
        try:
            v, _ = S.ev.eval_body(b, S.args(b, ["c"]))
        except (Opaque, poly.TooBig) as ex:
            rep.fail("INPUT", key, "uninterpretable: %s" % ex, F.loc(b))
            continue
        problems = []
        if not isinstance(v, Struct):
            problems.append("not a struct literal on every path: %s" % alg._short(v, 200))
        else:
            for f, pat in EXPECT[which].items():
                got = alg._short(v.fields.get(f), 400) if f in v.fields else "<missing>"
                if not re.fullmatch(pat, got):
                    problems.append("%s = %s, expected %s" % (f, got, {"color": "the straight colour", "color_pre": "the premultiplied colour", "alpha": "the alpha"}[f]))
        rep.ob("INPUT", key, not problems, "; ".join(problems) if problems else alg._short(v, 300), F.loc(b))
    rep.floor("BlendInput constructors", n, 3)


def check_straight_pre_conversions(F, rep):
    """CONV: every public conversion between a straight colour and its premultiplied form is premultiply / unpremultiply itself:
    `C::from(PreAlpha<C>)` (macro impl_premultiply!, 9 types) divides every component by alpha under the valid-divisor guard and gives 0
    otherwise; PreAlpha::new / From<Alpha> premultiply, From<C> / new_opaque attach full alpha, PreAlpha::unpremultiply / From<PreAlpha> for
    Alpha unpremultiply.  (A forwarder that returns `premultiplied.color` as it is breaks premultiply-then-unpremultiply for 0 < alpha < 1.)"""
    S = Session(F)
    R = S.R
    U = r"blend::Premultiply::unpremultiply<C>\(mk:PreAlpha\{alpha,color\}\(c\.alpha, c\.color\)\)"
    M = r"stimulus::Stimulus::max_intensity<<C as blend::Premultiply>::Scalar>"
    UNP = r"Alpha\{color: proj\.0\(%s\), alpha: proj\.1\(%s\)\}" % (U, U)
    EXPECT = {
        "new": r"blend::Premultiply::premultiply<C>\(c, a\)",
        "new_opaque": r"(PreAlpha\{color: c, alpha: %s\}|blend::Premultiply::premultiply<C>\(c, %s\))" % (M, M),
        "unpremultiply": UNP,
        "from<Alpha>": r"blend::Premultiply::premultiply<C>\(c\.color, c\.alpha\)",
        "Alpha::from<PreAlpha>": UNP,
        "from<C>": r"(PreAlpha\{color: c, alpha: %s\}|blend::Premultiply::premultiply<C>\(c, %s\))" % (M, M),
    }
    n = n9 = 0
    for b in F.bodies:
        im = b.get("_impl")
        if "::test" in b["path"] or im is None or b["dk"] not in ("Fn", "AssocFn"):
            continue
        if b["file"].endswith("macros/blend.rs") and b["name"] == "from" and (im.get("trait") or "").endswith("From"):
            key = "From<PreAlpha<C>> for %s" % im["self_s"]
            n9 += 1
            try:
                args = S.args(b, ["c"])
                v, _ = S.ev.eval_body(b, args)
                c = args[0]
                if not isinstance(v, Struct):
                    raise Opaque("not a struct literal: %s" % alg._short(v, 160))
                col, al = c.fields["color"], c.fields["alpha"]
                exp = Struct(v.path, {f: (R.ite(R.valid(al), R.div(col.fields[f], al), 0) if f in col.fields and not isinstance(col.fields[f], Struct) else x)
                                      for f, x in v.fields.items()})
                check_value(rep, "CONV", key, S, b, v, exp, sample="every component: alpha valid divisor ? c/alpha : 0")
            except (Opaque, poly.TooBig, KeyError, AttributeError) as ex:
                rep.fail("CONV", key, "uninterpretable: %s" % ex, F.loc(b))
            continue
        if not b["file"].endswith("blend/pre_alpha.rs") or b["name"] not in ("new", "new_opaque", "unpremultiply", "from"):
            continue
        which = b["name"]
        if which == "from":
            src = (im.get("trait_args_s") or ["?"])[0]
            if im["self_s"].startswith("alpha::alpha::Alpha<"):
                which = "Alpha::from<PreAlpha>"
            elif src.startswith("alpha::alpha::Alpha<"):
                which = "from<Alpha>"
            elif src == "C":
                which = "from<C>"
            else:
                rep.fail("CONV", "PreAlpha::from<%s>" % src, "conversion without a reference", F.loc(b))
                continue
        n += 1
        try:
            v, _ = S.ev.eval_body(b, S.args(b, ["c", "a"]))
            got = alg._short(v, 600)
            rep.ob("CONV", "PreAlpha::" + which, re.fullmatch(EXPECT[which], got) is not None, got, F.loc(b))
        except (Opaque, poly.TooBig) as ex:
            rep.fail("CONV", "PreAlpha::" + which, "uninterpretable: %s" % ex, F.loc(b))
    rep.floor("C::from(PreAlpha<C>) impls", n9, 9)
    rep.floor("PreAlpha constructors / conversions", n, 6)


def _find_apps(v, pred, out=None):
    """All application atoms (recursively) whose name satisfies pred."""
    from . import poly
    from .poly import RatFunc
    if out is None:
        out = []
    if isinstance(v, RatFunc):
        for aid in v.atoms():
            a = poly.atom_by_id(aid)
            if a.args:
                if pred(a.name):
                    out.append(a)
                for x in a.args:
                    _find_apps(x, pred, out)
    elif isinstance(v, sym.Ite):
        _find_apps(v.t, pred, out)
        _find_apps(v.f, pred, out)
    elif isinstance(v, Struct):
        for x in v.fields.values():
            _find_apps(x, pred, out)
    elif isinstance(v, (Tuple, sym.Array)):
        for x in v.items:
            _find_apps(x, pred, out)
    return out


def _dispatch_problems(v, mode, suffix, sep_path):
    problems = _single_path(v)
    seps = _find_apps(v, lambda n: n.startswith(sep_path))
    if not seps:
        return ["does not reach blend_separable"]
    for a in seps:
        if len(a.args) != 3:
            problems.append("blend_separable arity")
            continue
        src, dst, f = a.args
        fn = atoms_of(f)
        want = "fn:blend::blend::%s%s" % (mode, suffix)
        if fn != {want}:
            problems.append("passes %s, expected %s" % (sorted(fn), want))
        sa = {x for x in atoms_of(src) if not x.startswith("@")}
        da = {x for x in atoms_of(dst) if not x.startswith("@")}
        if not sa or any(not x.startswith("src") for x in sa if not x.startswith("stimulus")):
            problems.append("source argument built from %s" % sorted(sa))
        if not da or any(not x.startswith("dst") for x in da if not x.startswith("stimulus")):
            problems.append("backdrop argument built from %s" % sorted(da))
    return problems


def _single_path(v):
    """a dispatcher has one path: the forwarding one (a fast path / early return is a second formula nobody compared with the W3C one)"""
    try:
        paths = [pth for pth, _leaf in sym.leaves(sym.hoist(v))]
    except Exception:
        return []
    if len(paths) > 1:
        return ["the result depends on a condition (%d paths: %s): only one of them is the formula decided above"
                % (len(paths), "; ".join(" & ".join(sym.show_cond(c) if pol else "!(%s)" % sym.show_cond(c) for c, pol in pth)[:80] for pth in paths[:3]))]
    return []


def _compose_problems(v, op):
    problems = _single_path(v)
    calls = _find_apps(v, lambda n: n.startswith("blend::compose::Compose::"))
    if not calls:
        return problems + ["does not forward to PreAlpha's Compose"]
    for a in calls:
        nm = a.name.split("<")[0].split("::")[-1]
        if nm != op:
            problems.append("forwards to Compose::%s, expected %s" % (nm, op))
        if len(a.args) != 2:
            problems.append("arity")
            continue
        sa = {x for x in atoms_of(a.args[0]) if not x.startswith("@") and not x.startswith("stimulus")}
        da = {x for x in atoms_of(a.args[1]) if not x.startswith("@") and not x.startswith("stimulus")}
        if not sa or any(not x.startswith("src") for x in sa):
            problems.append("source argument built from %s" % sorted(sa))
        if not da or any(not x.startswith("dst") for x in da):
            problems.append("backdrop argument built from %s" % sorted(da))
    return problems
