#!/bin/bash
# usage: tools/seed_matrix.sh <seeds-root> <out.tsv>   — for every <root>/<Cxx>/<k>/patch.diff: apply to /repo, run every claimed check (quick tier),
# record which checks raise a VIOLATION, revert.  /repo must be clean; nothing else may use /repo while this runs.
set -u
ROOT=$1; OUT=$2
cd /verif
CHECKS=$(python3 -c "import json;print(' '.join(sorted(c['property_id'] for c in json.load(open('MANIFEST.json'))['checks'])))")
: > $OUT
for d in $(ls -d $ROOT/C*/[0-9]* 2>/dev/null | sort); do
  [ -f $d/patch.diff ] || continue
  id=$(echo $d | sed "s|$ROOT/||")
  git -C /repo diff --quiet || { echo "/repo not clean" >&2; exit 3; }
  git -C /repo apply $d/patch.diff || { echo -e "$id\tPATCH-DOES-NOT-APPLY" >> $OUT; continue; }
  ./check C01 > /dev/null 2>&1   # builds the facts for this tree once
  caught=$(echo $CHECKS | tr ' ' '\n' | xargs -P 10 -I{} sh -c './check {} > /tmp/matrix.{}.out 2>&1; rc=$?; if grep -q "^VIOLATION" /tmp/matrix.{}.out; then echo "{}"; elif [ $rc -ge 2 ]; then echo "{}:ERR"; fi' | sort | tr '\n' ' ')
  git -C /repo checkout -- .
  echo -e "$id\t$caught" >> $OUT
  echo "$id -> $caught"
done
rm -f /tmp/matrix.*.out
