#!/bin/sh
# run every claimed check (quick tier) on the current /repo tree; non-zero if any fails
cd /verif
rc=0
for id in $(python3 -c "import json;print(' '.join(c['property_id'] for c in json.load(open('MANIFEST.json'))['checks']))"); do
  out=$(timeout 1200 ./check $id 2>&1); r=$?
  echo "$out" | grep -E "^C[0-9]+ tier|^VIOLATION|^KNOWN|infrastructure" | head -5
  [ $r -ne 0 ] && { echo "!! $id exit=$r"; rc=1; }
done
python3-vt - <<'PY'
import json,jsonschema,glob
m=json.load(open('/verif/MANIFEST.json'))
jsonschema.validate(m,json.load(open('/root/.vp/MANIFEST.schema.json')))
es=json.load(open('/root/.vp/EVIDENCE.schema.json'))
for c in m['checks']:
    jsonschema.validate(json.load(open(c['evidence_file'])),es)
print('manifest+evidence valid:',len(m['checks']),'checks')
PY
exit $rc
