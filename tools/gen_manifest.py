#!/usr/bin/env python3
"""Regenerate /verif/MANIFEST.json from the table below (keeps it schema-valid)."""
import json
import os

VERIF = os.path.dirname(os.path.dirname(os.path.abspath(__file__)))

TB = ("Trusted: rustc's name resolution, type checking and const evaluation as exposed to the pfacts driver; the frozen operator "
      "table of rules/sym.py (palette::num / std float methods = real-number operators); the listed algebraic axioms; the published "
      "formulas and constant tables transcribed in rules/*.py. Floating-point rounding is outside this family.")

CLAIMS = {
    "C01": dict(
        technique="conversion route graph from resolved derive output; TypeId guard table; symbolic inverse laws (exact rational normal forms); alpha dataflow; type-alias table",
        category="other",
        text=("Structural and algebraic necessary conditions, for every type pair at once: the >250 derived FromColorUnclamped impls are "
              "expanded (from the resolved callees of the macro output) into chains of hand-written hops that must terminate, be loop-free, "
              "retrace each other in reverse, agree on sub-paths and never pass through single-channel Luma; every TypeId shortcut must "
              "compare the type arguments that justify its arm (a reinterpret arm needs the whole standard equal); the algebraic hops "
              "(Xyz<->Yxy, Xyz<->Lab, Hsv<->Hwb, Okhsv<->Okhwb, Hsv->Hsl->Hsv) composed with their reverse normalise to the identity for all "
              "inputs; the four rectangular/polar pairs invert each other under the trigonometric axioms (cos²+sin²=1, atan2 of a scaled (cos,sin)); "
              "where a direct hand-written edge lies beside a two-hop hand-written path (Luma/Xyz/Yxy) both give the same value; every transfer "
              "function pair equals the published, mutually inverse pair on the whole real line; hard-coded matrix pairs are mutual inverses; attaching alpha splits it off, converts only the colour and passes "
              "alpha through. Does not decide the floating-point round-trip error or the Ok*/HSLuv searches. Round 5: the deprecated GammaFn pair is mutually inverse ((x^a)^b with a·b = 1); the 39 alpha type aliases (Srgba, Hsla, …) are Alpha<the colour their name says, T>. Attaching alpha to a bare colour is the struct literal Alpha{color: self, alpha}, removing it is the identity, splitting yields full opacity, for each of the 27 colour types; opaque()/transparent() attach max_intensity()/zero()."),
        design_ref="DESIGN.md §3 C01",
    ),
    "C02": dict(
        technique="symbolic normal form of resolved HIR vs published definitions; exact-arithmetic checks of literal tables",
        category="other",
        text=("For all inputs over the reals: each directly implemented conversion anchored in the property (xyY, L*a*b*, L*u*v*, the four Luma edges (which transfer function, which component, white-point chromaticity), the polar "
              "forms, hexcone HSV/HSL/HWB and their Ok twins, the generic transfer functions of every RGB standard) is normalised from the "
              "type-checked HIR into a case tree of exact rational functions over uninterpreted transcendentals and must equal the published "
              "definition, piece by piece including which piece owns each threshold; RGB<->XYZ matrices must equal the matrix derived from the "
              "standard's primaries and white point and be mutual inverses, white points equal ASTM E308, Oklab M1/M2 equal the published "
              "matrices, and the step of the published knee constants is < 1e-6. Decides formula/constant agreement; does not decide the "
              "accuracy of powf/cbrt/atan2 or a tolerance over the gamut; Okhsl/Okhsv/HSLuv bodies are covered by C15's constant checks. Round 5: the four hand-written Oklab <-> Okhsl / Okhsv bodies equal Ottosson's published algorithm including the white/black/achromatic shortcuts, with find_cusp, get_Cs, toe and oklab_to_linear_srgb uninterpreted (OK-REF, shared with C15); the named-standard aliases (Srgb, LinSrgb, AdobeRgb, …) resolve to the standard their name says."),
        design_ref="DESIGN.md §3 C02",
    ),
    "C03": dict(
        technique="symbolic evaluation of bounds/clamp bodies with min/max as case splits; exact interval reasoning discharges the contract laws; compiler-decided trait-applicability witnesses",
        category="proof",
        text=("For every colour type (27 today) and all component values at once: the macro-expanded bodies of is_within_bounds, clamp and "
              "clamp_assign are evaluated symbolically and the contract itself is discharged on them by exact interval reasoning — "
              "is_within_bounds(clamp(c)) is true for every c, clamp(c) = c whenever is_within_bounds(c), clamp is idempotent, clamp_assign "
              "leaves *self equal to clamp(self), and the thresholds are the type's public min_*/max_* accessors; the coupled HWB forms are "
              "compared with the documented renormalisation; FromColor must be exactly clamp∘from_color_unclamped, TryFromColor must test the "
              "unclamped value and return that same value in Ok or inside OutOfBounds; Alpha clamps colour and alpha separately; a generated witness "
              "crate lets rustc's trait solver decide that the contract traits actually apply to X, Alpha<X, T>, [X] and [Alpha<X, T>] for all 26 "
              "types and f32/f64 (an impl whose where-clause no component type satisfies makes is_within_bounds fall through Deref and ignore alpha). "
              "Does not decide rounding of the HWB division (w/s + b/s may exceed 1 by an ulp). Round 5: a slice is within bounds iff every item is: the [T] impl ANDs in every item and leaves early only when every lane of the accumulator is false (BOUNDS-SLICE). Round 6: clamping a slice is the element-wise clamp_assign of the whole slice."),
        design_ref="DESIGN.md §3 C03",
    ),
    "C08": dict(
        technique="symbolic normal form of resolved HIR vs W3C formulas (exact rational functions); dispatch-shape lint",
        category="proof",
        text=("For all inputs at once: every blend function, blend_separable, blend_alpha, the six Porter-Duff operators and every "
              "premultiply/unpremultiply impl is normalised from the type-checked HIR into a case tree of exact rational functions and "
              "must equal the W3C Compositing and Blending formula; commutativity, opaque reduction, transparent/opaque `over` and "
              "unpremultiply∘premultiply are discharged on the code's own normal forms; all 33 Blend and 12 Compose dispatchers must pass "
              "the function named after the method with source and backdrop in order; the three constructors of BlendInput fill `color` with the "
              "straight colour, `color_pre` with the premultiplied one and `alpha` (terms over the uninterpreted Premultiply methods). Decides the formula clauses over the reals; "
              "does not decide rounding or [0,1] containment where no final clamp provides it. Round 5: every public conversion between a straight colour and its premultiplied form is premultiply / unpremultiply itself (C::from(PreAlpha<C>) for 9 types divides by alpha under the valid-divisor guard; PreAlpha constructors) (CONV). Round 6: every Blend / Compose dispatcher has exactly one path, the forwarding one (no fast paths)."),
        design_ref="DESIGN.md §3 C08",
    ),
}

CLAIMS["C10"] = dict(
    technique="symbolic evaluation of macro-expanded operator impls; sibling (by-value vs assigning) normal-form equality; reference formulas; forwarding-shape lint",
    category="other",
    text=("For all inputs and every implementing type at once (≈650 instances): each by-value/assigning pair (Mix, Lighten, Saturate, ShiftHue, "
          "WithHue/SetHue, Clamp, Add/Sub/Mul/Div) on the same type must leave *self equal to the by-value result as exact rational normal "
          "forms; mix must equal a+(b-a)·clamp(f,0,1) with the hue along normalize_signed(b.h-a.h) and reduce to a / b at and beyond the "
          "ends; lighten/saturate must equal clamp(c+max(0,(f>=0?max-c:c))·f,min,max) (fixed: clamp(c+max·amount)) with the limits taken "
          "from the type's accessors and every other component untouched; HWB moves whiteness and blackness in opposite directions; "
          "blanket Darken/Desaturate negate the argument; Alpha and slice forms forward to the same-named operator with the same argument "
          "and keep alpha; colour-scheme helpers use the documented shifts; arithmetic impls apply the trait's operator to every component. "
          "Does not decide monotonicity or boundedness under rounding. Round 5: colour schemes on Alpha-wrapped Lab-like colours give the bare colour's results in the same order with self.alpha. SaturatingAdd/SaturatingSub on colours, hues and Alpha apply the same-named scalar operation to every component with the matching operand (128 impls)."),
    design_ref="DESIGN.md §3 C10",
)

CLAIMS["C09"] = dict(
    technique="staged symbolic comparison of CIEDE2000 with the Sharma formula (let-matching by value); exact normal forms of the closed-form measures; metric laws on normal forms",
    category="other",
    text=("For all colour pairs over the reals: every published intermediate of CIEDE2000 (C-bar, G, a', C', h' with its zero and wrap "
          "cases, the three-case delta-h', delta-H', mean hue, T, S_L, S_C, S_H, delta-theta, R_C, R_T) must occur in get_ciede2000_difference "
          "as a `let` of equal value (matched by value, not by name) and the result must equal the final formula; LabColorDiff from Lab "
          "and from Lch carry (l,a,b,chroma); Euclidean, HyAB, Delta E and the improved variants of every implementing type equal their closed "
          "forms with Huang et al.'s coefficients, are symmetric and zero at identity as exact normal forms; polar impls go through the "
          "rectangular form; WCAG contrast = (max+0.05)/(min+0.05), symmetric, with the five WCAG 2.1 thresholds. Does not decide the symmetry "
          "of CIEDE2000 across its hue case split or the [1,21] range. The mean hue is Sharma's three-case eq. 14 (the pinned tree's single-wrap form was defect F12, repaired). Round 5: the deprecated RelativeContrast API — contrast_ratio against the WCAG formula, the five predicates' thresholds, 16 impls feeding it the luminance of self and other — and the two relative_luminance impls."),
    design_ref="DESIGN.md §3 C09",
)

CLAIMS["C11"] = dict(
    technique="symbolic normal forms of every angle impl vs the normalisation formulas; accessor/unit-chain references per hue type",
    category="other",
    text=("For all angles over the reals: normalize_signed/unsigned of f32, f64 and the four SIMD types must equal x-ceil((x+180)/360-1)·360 and "
          "x-floor(x/360)·360 as exact normal forms (so the six impls agree and the constant 1/360 is exact); angle_eq compares the unsigned "
          "normal forms; each of the 14 accessors/constructors of the five hue types chains exactly the documented normalisation and unit "
          "conversion (from_cartesian = pi+atan2(-b,-a) in degrees, into_cartesian = (cos,sin) of the raw radians); PartialEq is angle_eq of "
          "the raw angles; Add/Sub act on the angle; u8<->float = angle/256·360 and round(unsigned(x)/360·256) with the >255.5 -> 0 wrap "
          "guarding the cast; rotations are 180/360/128. Does not decide the floating-point claims (range/congruence to within rounding at "
          "1e6 degrees, equality of exactly representable shifted angles)."),
    design_ref="DESIGN.md §3 C11",
)

CLAIMS["C06"] = dict(
    technique="symbolic evaluation of all 49 IntoStimulus impls against the admissible idioms; interval side-conditions on the constants; field-correspondence lint for into_format",
    category="proof",
    text=("For every ordered pair of the seven component formats and all inputs: the impl body must normalise to an admissible form whose range "
          "argument is discharged from the constants — float->uint: magic-number rounding only when MAX < 2^k (else the rounded, saturating "
          "cast), applied to S = max(min(x·MAX, MAX), 0) in exactly the NaN-safe nesting (NaN, +inf, x>=1 -> MAX; x<=0, -inf -> 0; no negative "
          "value reaches to_bits); uint->float = x/MAX (0 -> 0, MAX -> 1); widening = (x<<BITS)|x with MAX_t = MAX_s·(2^BITS+1), longer steps "
          "through the next width; narrowing = cast(clamp(round(x·MAX_t/MAX_s))) with MAX_s/MAX_t integral, hence narrow(widen(x)) = x; "
          "max_intensity is 1 / MAX; all 34 into_format/from_format methods map each component of the same field through exactly one "
          "FromStimulus/FromAngle step, and the 16 `From` impls between formats of one colour type convert in one hop (no intermediate format, which would round twice). Does not decide nearest-integer claims that depend on floating-point rounding of x·MAX. Round 5: an f64 is narrowed to f32 only as the last step of a conversion whose result is f32, and no u32 is cast to f32 (24-bit significand) — both invisible to algebra over the reals (CAST-NARROW)."),
    design_ref="DESIGN.md §3 C06",
)

CLAIMS["C07"] = dict(
    technique="custom dominance lint over type-checked HIR: every division / reciprocal / remainder site classified as constant divisor, dominated by a validity guard of the same divisor (if, lazy_select! arms, early return, mask locals), or reviewed-table entry; panic-construct reachability lint",
    category="other",
    text=("PARTIAL - decides the division discipline, the mechanism by which the conversions avoid NaN/infinity on degenerate colours, not "
          "finiteness itself. All 192 division / recip / remainder sites of the anchored files (operator impls `colour / x` excluded: the "
          "caller's quotient) are: 46 by a non-zero constant expression (evaluated), 43 dominated by is_valid_divisor / is_normal / != 0 / "
          "|x| > c on the same divisor with the right polarity (through if, lazy_select! closure arms, early returns, `let` aliases), 101 "
          "(about 70 distinct after macro expansion) listed in a reviewed table (keys: normalised divisor, invariant under let-introduction "
          "and reordering) with the reason the divisor is non-zero on the property's input domain; 2 sites (`/ v_prime` in Xyz<-Luv) are the "
          "open known finding F9 (in-range imaginary Luv colour gives infinity); a new or newly unguarded site, or a table line that matches "
          "nothing, fails. The same discipline for partial real functions: all 36 sqrt / ln / powf / acos / asin call sites have an argument that is a constant "
          "in the domain, non-negative by its shape (sum of squares, abs, even powers, max with 0, roots), or one of 24 reviewed table lines. 584 conversion / clamp / operator / "
          "blend / colour-difference bodies contain no unwrap, expect, panic!, unreachable! or slice indexing. Not decided: overflow of "
          "finite intermediates, NaN from transcendental functions, rounding that zeroes an algebraically non-zero divisor where the table "
          "argues over the reals. Round 5: the division audit is closed-world — every file under palette/src is scanned, not a list of anchored files (a division added to Alpha's Mix was outside the list). The DOM rule is closed-world as well (every file except the listed transfer-function / sampler files and the SIMD operator table, each with its reason)."),
    design_ref="DESIGN.md §3 C07",
)

CLAIMS["C05"] = dict(
    technique="interval abstract interpretation of the symbolically evaluated LUT encoders (incl. NaN/±inf runs); exact integer relations between the table literals; symbolic curve references",
    category="other",
    text=("LUT-1 is a proof by intervals for every f32 input: on each path of the clamp the value reaching to_bits is non-negative, non-NaN "
          "and within [min_float, 1-eps], so the unchecked index (bits-min_bits)>>shift is below the length of the table literal at all 5 call "
          "sites (each with its own min-float constant and table), no cast truncates, and NaN/-inf/+inf reach codes 0/0/MAX. Table data "
          "relations, computed by the checker's own integer arithmetic from the literals: the encoder is non-decreasing within and across all "
          "buckets and ends at 0/MAX, decode-table -> encoder reproduces every 8-/16-bit code, decode tables run 0..1 strictly increasing, equal "
          "the standard's curve at i/MAX within 5e-7 and the f32 table is the rounded f64 table; f64 entry points use the same fast path. "
          "The generic float curves equal the standards' definitions with a knee step < 1e-6; Rgb/Luma(/Alpha) into_linear, from_linear, "
          "into_encoding, from_encoding map each channel of the same field through the transfer function; for every standard the RgbStandard and "
          "LumaStandard impls name the same transfer function and white point (normalised associated types) and the seven named standards "
          "use the curve their specification defines. Does not decide the < 0.6-code "
          "error of the fitted tables over all 2^32 inputs."),
    design_ref="DESIGN.md §3 C05",
)

CLAIMS["C04"] = dict(
    technique="path-condition dominance on symbolically evaluated cast functions; who-may-call lint on resolved callees; compiler-decided layout witnesses (const asserts); forwarding lint; forwarder lint over macro-generated std conversion impls",
    category="other",
    text=("For every function of cast::array / cast::uint and every non-diverging path: each type-changing pointer cast or transmute_copy between "
          "a colour and its Array/Uint (or components) is dominated by the size_of equality of exactly those two types and, unless it is a "
          "by-value transmute_copy, the align_of equality; len/capacity arguments of from_raw_parts / Vec::from_raw_parts are the source's "
          "len()/capacity() scaled by ×LENGTH, ÷LENGTH (dominated by the `% LENGTH == 0` checks, length before capacity) or 1 as the element "
          "types dictate; array-to-array casts with differing counts are dominated by the exact count relation (N = M x LENGTH, and `N % LENGTH == 0` "
          "before `N / LENGTH == M`, which alone rounds down); error paths hand back the unchanged input. Every hand-written `unsafe impl ArrayCast` (Alpha, "
          "PreAlpha, Packed) ties each non-phantom field to the array's item type, directly or through where-clause equalities. No cast function or in-place map reaches an allocating, reallocating or "
          "copying API (Vec::new, into_boxed_slice, into_vec, collect, clone ...), so address, length and capacity are those of the input; "
          "map_*_in_place read and write the same place once inside ManuallyDrop. A generated witness crate lets rustc decide ~930 const "
          "assertions: size, alignment and offset_of every field in declaration order (alpha last) for all 26 ArrayCast structs x 5 "
          "component types, Alpha, PreAlpha, Packed. All 138 cast-trait methods forward to the function of the same direction, ownership "
          "and container shape. Does not decide absence of UB under every input. Round 5: the 552 std conversion impls generated by macros/casting.rs (AsRef/AsMut/From/TryFrom between colours and arrays, slices, boxed arrays, integers) are thin forwarders to the cast function of their direction and ownership (CAST-STD); a by-value transmute_copy must move out of a ManuallyDrop (or forget) source (CAST-OWN). Round 6: CAST-OWN on the HIR (ptr::read as well as transmute_copy out of a by-value argument needs ManuallyDrop / forget); the 52 Luma <-> bare scalar casts go through the [T; 1] array cast of the same memory (CAST-LUMA)."),
    design_ref="DESIGN.md §3 C04",
)

CLAIMS["C13"] = dict(
    technique="typestate / linearity / pairing rules over resolved HIR (callee identity and generic arguments); sibling agreement of the clamped and unclamped modules",
    category="other",
    text=("Structural necessary conditions for every operation sequence: each consuming guard method and Drop read `self.current` only through "
          "take(), and the conversion mapped over the taken reference is instantiated exactly as target <- type-currently-in-the-buffer "
          "(then_into_*: C <- T; restore/drop: U <- T; kind changes convert nothing); the guard made in drop and the per-element guards of the "
          "slice impls are the direct argument of mem::forget; the single-value impl clones, reinterprets via from_array_mut(into_array_mut(_)) "
          "and stores clone.into_color() (resp. into_color_unclamped()) and nothing else; the slice impl converts each element then casts the "
          "slice once; no guard method has an early exit or takes `current` inside a branch arm (the restore happens on every path, also while "
          "unwinding); the two modules have equal callee sequences modulo the clamped<->unclamped swap; Vec/Box impls are, on every path, the "
          "in-place map of the argument itself with the conversion of the same trait (no early return, no fresh container for the empty case), and the in-place maps read/write the same place once under ManuallyDrop without any allocating API "
          "(same address, length, capacity). Borrow exclusivity while a guard lives is enforced by the type signature (&'a mut). "
          "Does not decide value equality beyond 'the stored value is the out-of-place conversion of the original'. Round 5: chaining methods return the guard kind they are named after with the current type changed and the original type U kept (GUARD-SIG, from the compiler's type of the method body)."),
    design_ref="DESIGN.md §3 C13",
)

CLAIMS["C12"] = dict(
    technique="path-condition dominance on symbolically evaluated parsers (validation before slicing); enumeration of each FromStr decision tree; pack/unpack inverse law; data agreement of generated tables with their source; type-alias table",
    category="other",
    text=("For all strings: on every path of the 8 hex helpers the whole argument has passed validate_hex_digits (= bytes().all(is_ascii_hexdigit)) "
          "before any byte-range slice or from_str_radix, so multi-byte characters cannot panic and no sign reaches the integer parser; the "
          "decision tree of each of the 10 FromStr impls is enumerated from the evaluated body: the accepted (digit count -> bit depth) table "
          "equals the documented one, the parsed string has at most one '#' stripped (using len(strip_prefix('#')) = len-1 to discard "
          "infeasible paths), and every other length is an error; helper slices tile the string in equal widths in r,g,b(,a) order with 4-bit "
          "digits ×17. LowerHex/UpperHex write red,green,blue (Alpha: colour, alpha) padded to 2·size_of::<T>(). For all colours: "
          "unpack∘pack is the identity for each of the 6 ComponentOrder impls and pack's order spells the type name; integer forms pair "
          "from_be_bytes/to_be_bytes; From<u32> uses ARGB for Rgb and RGBA for Rgba both ways. All 148 lines of svg_colors.txt have their "
          "constant and map entry (lower-case, unique, no others); named::from_str is the map lookup, and every early-out in front of it is evaluated "
          "on each of the 148 keys and must let all of them through. Not decided: the phf displacement tables (that lookup of a listed name "
          "lands on its entry) in the quick tier. Round 5: the packing API around ComponentOrder (into_u32/from_u32, u16 forms, From between colours, Packed and bare integers) as terms over uninterpreted O::pack/unpack with the documented default orders (PACK-FWD); the Packed* aliases name the order they resolve to (ALIAS). Round 6: from_hex hands its argument to the strict parser untouched (HEX-FWD)."),
    design_ref="DESIGN.md §3 C12",
)

CLAIMS["C14"] = dict(
    technique="exact-arithmetic relations between literal tables; symbolic matrix algebra laws; symbolic substitution of k·white into conversion normal forms",
    category="other",
    text=("All 16 white point literals equal the ASTM E308 / CIE 15 table; each RgbSpace's hard-coded matrices are mutual inverses, equal the "
          "matrix derived from the standard's primaries and white point, have the white point as row sums (RGB(1,1,1) -> white) and luma "
          "literals equal to the Y row; von Kries / Bradford / unit LMS, CAM16 M16 and Oklab M1/M2 are inverse pairs (exact rational "
          "arithmetic, tolerances above the 7-digit rounding of the literals). Symbolically, for all inputs: multiply_3x3(_and_vec3) are the "
          "matrix products, a·matrix_inverse(a) = I for every invertible 3x3, Matrix3::then(a,b) applies a then b, identity is neutral, "
          "invert uses matrix_inverse, diagonal_matrix = diag(dst/src per cone), adaptation_matrix = to-LMS(input) ▸ diag ▸ from-LMS(output) "
          "with one method, equal white points return the input - hence the source white maps onto the destination white. For xyz = k·white "
          "(all k>0, all white points) Lab gives a=b=0, Luv u=v=0, L*=100 at k=1, zero (a,b) gives zero chroma, Luma->Rgb fills three equal "
          "channels, a gray Luma lands on the white point's chromaticity in Yxy and on a multiple of the white point in Xyz; Oklab of the D65 literal is (1,0,0) within 5e-4 (computed residual 3.7e-5). Not decided: CAM16 J=100 for the adopted "
          "white, floating-point residuals of round trips. Round 5: caller-supplied white points of adaptation_matrix reach the diagonal normalised to Y = 1 (ADAPT-NORM); the Lms aliases name their matrix. Round 6: matrices flowing into matrix_from_rgb / matrix_from_xyz have the right direction after their inversions (MATRIX-DIR); the two provided adaptation methods without a method argument agree on Bradford (ADAPT-DEFAULT)."),
    design_ref="DESIGN.md §3 C14",
)

CLAIMS["C15"] = dict(
    technique="symbolic evaluation of type-checked HIR against the published Okhsv/Okhsl and HSLuv algorithms (staged value matching, symbolic differentiation of the crate's own Oklab->RGB for the Halley step), inverse laws by pieces, literal-duplicate agreement, finite case analysis over RGB orderings",
    category="other",
    text=("PARTIAL - the main clause (every in-bounds cylinder point stays in the RGB gamut within a tolerance for every hue; numerical "
          "round trip) is NOT decided: it is an error bound on a polynomial fit plus one Halley step and a line-intersection search that no "
          "static argument in reach establishes. Decided, for all inputs over the reals: LC::max_saturation = Ottosson's algorithm (sector "
          "tests, 3x5 fit coefficients) and its refinement is exactly one Halley step on f = the sector's channel of the crate's own "
          "oklab_to_linear_srgb(1, S a, S b) with f', f'' = its symbolic derivatives; find_cusp, ST::mid, ST::from, toe, toe_inv, "
          "ChromaValues::from_normalized equal the published formulas and toe_inv.toe = id; the Okhsl saturation curve and its inverse are "
          "mutual inverses on both pieces, meet at (C_mid, 0.8) and map [0, C_max] onto [0, 1]; find_gamut_intersection = Ottosson's triangle "
          "intersection through the cusp plus, in the upper half, one Halley step per channel on f(t) = channel(oklab_to_linear_srgb(L0(1-t)+tL1, "
          "tC1 a, tC1 b)) - 1 whose hand-expanded f', f'' equal the symbolic derivatives, with u < 0 -> FLT_MAX and the minimum over channels; it reuses the 15 "
          "matrix literals of oklab_to_linear_srgb; LuvBounds::from_lightness = the HSLuv reference bound (M, kappa, epsilon, six lines), "
          "intersection length formula, minimum over lines; hexcone: on all 26 orderings in-gamut RGB gives S in [0,1], V = max channel, "
          "L = mid-range (Rgb<->Hsv/Hsl/Hwb formulas themselves: C02/C17). These are necessary conditions of the property. Round 5: the four Oklab <-> Okhsl / Okhsv conversion bodies against Ottosson's algorithm on the documented ranges, including the end-point shortcuts (OK-REF)."),
    design_ref="DESIGN.md §3 C15",
)

CLAIMS["C16"] = dict(
    technique="symbolic evaluation of type-checked HIR into exact rational functions over uninterpreted powf/abs/signum/trig; staged value matching against the published CAM16 forward and inverse equations; exact matrix arithmetic",
    category="other",
    text=("For all XYZ inputs and all viewing conditions over the reals: prepare_parameters equals the published derived-parameter formulas "
          "for each surround (Dark/Dim/Average table values, Percent interpolation) x discounting (Auto D formula / Custom), including the "
          "pairing of the inverse non-linearity with the forward one (exponent = 1/0.42, constant = 100/F_L·27.13^exponent); Adapt::run and "
          "Unadapt::run equal sign(x)·400·p/(p+27.13) and its exact inverse on |x|; xyz_to_cam16 equals the CAM16 forward equations quantity "
          "by quantity (R_a..B_a, a, b, h, e_t, A, J, Q, t with N_c·N_cb, alpha, C, M, s); non_black_cam16_to_xyz equals the published "
          "step-by-step inverse for each of the 2x3 attribute inputs (p_1 with N_c·N_cb, p_2, r, opponent matrix /1403, inverse "
          "non-linearity, D_RGB^-1, M16^-1, /100); M16 literals equal the paper, M16^-1·M16 = I within 1e-12; 14 attribute interconversion "
          "laws hold as rational-function identities; into_cam16 passes the given attribute through, derives the others through the pair "
          "functions and zeroes them for black; the six partial types hold the attributes their names say, from_full copies same-named "
          "attributes, into_dynamic tags them with the same-named variant, from_full(into_full(p)) = p away from black, partial -> XYZ is "
          "cam16_to_xyz of those tags, black -> XYZ 0; UCS J', M' equal the published formulas and their inverses compose to the identity "
          "exactly. Not decided: floating-point error of the round trip (f32/f64), agreement with the published test vectors' digits. The public entry points (from_xyz / into_xyz / into_full on Cam16, the six partial types and their Alpha forms) and the Convert plumbing hand the colour itself and the caller's parameters to the conversion of their direction (CAM16-FWD, 45 bodies)."),
    design_ref="DESIGN.md §3 C16",
)

CLAIMS["C17"] = dict(
    technique="sibling-implementation agreement by symbolic evaluation of type-checked HIR under a one-lane abstraction of the wide crate; who-may-call over resolved callees; dominance of mask reductions by the TypeId(Mask)==bool guard; finite case analysis over orderings",
    category="other",
    text=("Under the stated abstraction (a SIMD vector = its generic lane, each wide primitive palette calls = the same-named scalar op; the "
          "primitives are listed in evidence): every num/angle/bool_mask trait method implemented for f32x4/f32x8/f64x2/f64x4 (58 methods, "
          "276 comparisons) has the same normal form as the f32/f64 implementation - comparisons, min/max/clamp (on all orderings with "
          "min<=max), lane loops of cbrt/floor/ceil, signum via copysign, is_valid_divisor = is_normal, powi/powu on concrete exponents "
          "(num::pow = x^k for k<=32), mask from_bool/select/lazy_select; no body reaches an approximate wide intrinsic (recip, recip_sqrt, "
          "fast_*); pow(x, 1/3) is kept distinct from the lane-wise cbrt (they differ on negative lanes); masks are reduced to a bool only inside "
          "the TypeId(Mask)==bool arm or in the listed slice reduction, and the reductions themselves are decided on a two-lane model (is_true = all "
          "lanes, is_false = no lane: the one-lane abstraction cannot tell none() from !all()); all 126 "
          "[Color<T>;N] <-> Color<V> conversions map lane i of each field (hue, alpha) to element i; the scalar and mask-generic arms of "
          "Rgb->Hsv and Rgb->Hsl are equal (hue mod 360) and equal the hexcone model on all 26 sign/ordering regions of (r,g,b) (thorough: "
          "plus negative channels). Not decided: f32 vs f64 accuracy, accuracy of wide's transcendental approximations, wide's round-half-even "
          "vs f32::round (Round::round is not reachable from a SIMD conversion). Round 5: the one allowed mask reduction outside the scalar arm is pinned to its method and polarity (`is_false`, un-negated). The integer impls of the num traits (u8…u128: Zero, One, MinMax, Clamp, PartialCmp, IsValidDivisor, saturating ops) mean what the trait says (130 methods), with std's Ord::min/max/clamp trusted as documented."),
    design_ref="DESIGN.md §3 C17",
)

CLAIMS["C18"] = dict(
    technique="custom dataflow lint over type-checked HIR: per-method lockstep rule (cover / uniform / name / assemble) with binding-origin tracking through tuple patterns, `?`, Option adapters and closures",
    category="other",
    text=("For all 1423 struct-of-arrays method bodies (26 colour types, Alpha wrappers, hue newtypes, their iterators; push, pop, clear, "
          "drain, with_capacity, get, get_mut, extend, from_iter, every IntoIterator impl, iter, iter_mut, Iter::next/next_back/size_hint/"
          "count/len): every non-phantom component field of Self is operated on, all components get the same-named operation with the same "
          "arguments (modulo the component's own field, e.g. value.<f>), that operation is the one the method stands for, and each field of "
          "the returned colour/iterator is computed from the same-named component only (origins traced through let, tuple patterns, `?`, "
          "Option::map/zip closures). This is the inductive step of 'all component collections have equal length and element i of "
          "component f is colour i's f'; base cases build every component with the same constructor. All 104 collection impls on Alpha "
          "(get/set/push/pop/clear/drain/...) cover every alpha collection (free, unbounded alpha parameter): where one does not apply the call falls "
          "through Deref to the colour's method of the same name and skips the alpha. Decides the lockstep structure, a "
          "necessary condition of the Vec<Color> equivalence, not the equivalence over histories itself; std's Vec/slice semantics trusted. Round 5: copied / cloned / as_refs / set of reference-component colours and hues are field-wise over every component (REFCOMP, 342 bodies); iterator / collection trait impls of struct-of-arrays types may only override methods that have a lockstep rule (nth, nth_back, last added). Round 6: collect (from_iter) extends unconditionally."),
    design_ref="DESIGN.md §3 C18",
)

CLAIMS["C19"] = dict(
    technique="symbolic evaluation of type-checked HIR with axiomatised rand API; sibling agreement (new vs new_inclusive); end-point inverse laws; interval abstract interpretation against the type's own IsWithinBounds; closed-form comparison with the volume-uniform inverse CDFs",
    category="other",
    text=("With rand's API axiomatised (Uniform::new(a,b).sample in [a,b), Standard float in [0,1), borrow = identity): for all 26 "
          "UniformSampler impls new and new_inclusive are the same function modulo the Uniform constructor and each uses only its own kind; "
          "the sampler built from (low, high) yields exactly low / high when every inner Uniform is at its lower / upper end - so each "
          "inner range comes from the same component of both ends and the transform applied to the ends (square, cube, bicone CDF, unit "
          "scaling) is undone after sampling; hue arcs run from the normalised low end to the normalised high end unwrapped by 360 exactly "
          "when the arc passes 0, and sampled degrees are returned unscaled; HWB forms build the HSV sampler between per-component min/max "
          "of the converted ends and convert the sample back. All 26 Standard distributions stay inside the type's own IsWithinBounds box "
          "for all variates in [0,1) (interval evaluation incl. sqrt/cbrt), hues in [0,360). Cone/bicone/cylinder samplers use three "
          "independent variates through the inverse CDFs of the volume-uniform density (cbrt, bicone inverse, linear; sqrt for the radius), "
          "invert_*.sample_* = id. Not decided: statistical uniformity, monotonicity of the transforms between the end points, rand itself. Round 5: the uniform samplers of the shaped spaces draw in CDF space — three distinct variates, radius = k·sqrt(d), height = k·F⁻¹(d), bounds = the CDFs of the two ends (VOL-UNIFORM): this decides the structural half of the volume-uniformity clause for sub-ranges. Round 6: a UniformSampler impl defines new / new_inclusive / sample only (an overridden sample_single is a second, unchecked sampling path)."),
    design_ref="DESIGN.md §3 C19",
)

CLAIMS["C20"] = dict(
    technique="custom lint over type-checked HIR incl. derive expansions: writer/reader table agreement, forwarder shape rules, key-literal agreement, statement-order rule for the optional alpha",
    category="other",
    text=("On the all-features build (the `serializing` code the pinned tests never compile): every derived Serialize of the 20 colour types "
          "emits exactly its non-phantom fields in declaration order under their own names, announces that count, and the derived "
          "Deserialize's FIELDS is the same list (no metadata, no renames); the 5 hue types serialise the inner value as a newtype (bare "
          "number in JSON). AlphaSerializer: 5 serialize_K add one to the length and forward to inner.serialize_K, 11 element methods forward "
          "unchanged, all 7 end() emit self.alpha exactly once (key \"alpha\" for map/struct) before inner.end(). AlphaDeserializer: 5 "
          "deserialize_K forward to the same inner method with len+1 and pass the original length as alpha index; the field visitor accepts "
          "exactly \"alpha\" (str, bytes) or the index equal to that length; sequence visitors read the colour first and assign "
          "seq.next_element()? as an Option (absent alpha = None); the map wrapper stores the alpha value and rejects duplicates; "
          "Alpha/PreAlpha route through these types, require alpha (missing_field(\"alpha\")) while the optional-alpha helpers default to "
          "max_intensity; as_array/as_uint use into_*_ref / from_*. Decides the structural agreement of writer and reader, a necessary "
          "condition of the round trip; concrete JSON/RON round-trip equality is not decided. EQ-COVER: `equal colour` is only as strong as ==: PartialEq::eq of every colour type, Alpha and PreAlpha compares every component with the same-named one (29 impls) — this found F13 (Cam16's equality ignored the hue; fixed)."),
    design_ref="DESIGN.md §3 C20",
)

NOT_YET = "check under construction (see DESIGN.md §7 build order); will be claimed when its rule is armed"
NA = {}


def main():
    props = [json.loads(l) for l in open(os.path.join(VERIF, "properties.jsonl"))]
    checks = []
    na = []
    for p in props:
        pid = p["id"]
        c = CLAIMS.get(pid)
        if c is None:
            na.append({"property_id": pid, "reason": NA.get(pid, NOT_YET)})
            continue
        checks.append({
            "property_id": pid,
            "quick_cmd": "./check %s --tier quick" % pid,
            "thorough_cmd": "./check %s --tier thorough" % pid,
            "evidence_file": "/verif/evidence/%s.json" % pid,
            "replay_cmd_template": "./check %s --replay {path}" % pid,
            "engine": "pfacts+rules",
            "level_claimed": {"category": c["category"], "text": c["text"], "design_ref": c.get("design_ref", "DESIGN.md §3")},
            "level_note": c.get("note", TB),
            "technique": c["technique"],
        })
    m = {
        "version": 1,
        "setup_cmd": "./setup.sh",
        "hooks": {
            "guard": "none",
            "enable": "no hooks: the analysis reads /repo's source through a rustc_private driver (RUSTC_WORKSPACE_WRAPPER under cargo +nightly check); nothing in /repo is instrumented",
            "baseline_off_cmd": "cd /repo && cargo test --workspace --no-fail-fast --offline",
            "source_commits": [],
            "add_only": True,
        },
        "engines": [
            {"name": "pfacts", "path": "/verif/pfacts", "serves_properties": sorted(CLAIMS), "kind_free_text": "rustc_private driver: dumps resolved, type-checked HIR of every body + ADT/impl tables of palette as JSON facts"},
            {"name": "rules", "path": "/verif/rules", "serves_properties": sorted(CLAIMS), "kind_free_text": "static rule engines over the facts: symbolic normal forms (ALG), constant-table relations (CONST), shape/flow/range lints"},
        ],
        "checks": checks,
        "notes": "Family: static analysis. Every check re-extracts facts from /repo's working tree when its source hash changed (cargo +nightly check with the pfacts wrapper); no palette code is executed.",
        "not_applicable": na,
    }
    with open(os.path.join(VERIF, "MANIFEST.json"), "w") as fh:
        json.dump(m, fh, indent=1)
    print("claimed:", sorted(CLAIMS), "n/a:", len(na))


if __name__ == "__main__":
    main()
