#!/bin/bash
# Self-test of the checkers (not a registered check; needs exclusive use of /repo):
#  1. every repaired defect, re-introduced from selftest/defects/Fx.patch (reverse-applied), is reported by the check named for it;
#  2. every behaviour-preserving edit of selftest/equivalent/*.patch leaves every check silent;
#  3. every seeded change of seeded/*/patch.diff is reported by at least one check (see seeded/matrix.tsv).
# usage: tools/selftest.sh [defects|equivalent|seeded]...
set -u
cd /verif
what=${*:-defects equivalent seeded}
rc=0
expect() { case $1 in F1) echo "C03 C10";; F2) echo C06;; F3) echo C12;; F4|F7|F10) echo C17;; F11) echo C03;; F12) echo C09;; F13) echo C20;; F14) echo C07;; F5) echo C19;; F6) echo C07;; esac; }
for w in $what; do
 case $w in
 defects)
  for f in selftest/defects/F*.patch; do
    id=$(basename $f .patch)
    git -C /repo diff --quiet || { echo "/repo not clean"; exit 3; }
    git -C /repo apply -R $(realpath $f) || { echo "$id: reverse patch does not apply"; rc=1; continue; }
    for c in $(expect $id); do
      if ./check $c | grep -q "^VIOLATION"; then echo "$id: reported by $c"; else echo "$id: NOT reported by $c"; rc=1; fi
    done
    git -C /repo checkout -- .
  done;;
 equivalent)
  tools/patch_matrix.sh selftest/equivalent/matrix.tsv selftest/equivalent/*.patch
  if awk -F'\t' '$2 != "" {bad=1} END {exit bad}' selftest/equivalent/matrix.tsv; then echo "equivalent edits: all checks silent"; else echo "equivalent edits: ALARMS:"; cat selftest/equivalent/matrix.tsv; rc=1; fi;;
 seeded)
  tools/patch_matrix.sh seeded/matrix.tsv seeded/*/patch.diff
  if awk -F'\t' '$2 == "" {bad=1} END {exit bad}' seeded/matrix.tsv; then echo "seeded changes: each reported by at least one check"; else echo "seeded changes: MISSED:"; awk -F'\t' '$2 == ""' seeded/matrix.tsv; rc=1; fi;;
 esac
done
exit $rc
