#!/bin/bash
# usage: tools/confirm_lanes.sh <lanes> <seed-dir>...   confirms every seed dir (writes <seed-dir>/confirm.json), N at a time
lanes=$1; shift
printf '%s\n' "$@" | awk -v n=$lanes '{print NR%n, $0}' > /tmp/confirm_lanes.list
for k in $(seq 0 $((lanes-1))); do
  ( grep "^$k " /tmp/confirm_lanes.list | cut -d' ' -f2 | while read d; do
      [ -f $d/confirm.json ] && continue
      LANE=$k JOBS=$((16/lanes)) /verif/tools/confirm_seed.sh $d $d/confirm.json; echo "$d -> $(grep -o '"confirmed": [a-z]*' $d/confirm.json)"
    done ) &
done
wait
