#!/bin/bash
# usage: tools/par_matrix.sh <out.tsv> <lanes> <patches...>
# Like patch_matrix.sh, but never touches /repo: every lane has its own scratch worktree of /repo's HEAD under /tmp/wt/lane<k>
# (PALETTE_REPO points the checks at it, PALETTE_LANE separates cargo target dirs, witness crates and locks), so several patches are
# analysed at once.  Output: "<patch>\t<checks that printed VIOLATION>" per patch, in input order.  Scratch worktrees are removed at the end.
set -u
out=$(realpath -m $1); lanes=$2; shift 2
cd /verif
head=$(git -C /repo rev-parse HEAD)
tmp=$(mktemp -d /tmp/parmatrix.XXXX)
i=0
for p in "$@"; do echo "$(realpath $p)" >> $tmp/list.$((i % lanes)); i=$((i+1)); done
ids=${CHECK_IDS:-$(python3 -c "import json;print(' '.join(c['property_id'] for c in json.load(open('/verif/MANIFEST.json'))['checks']))")}   # CHECK_IDS="C04 C07": only these
lane() {
  k=$1
  wt=/tmp/wt/lane$k
  git -C /repo worktree add --detach $wt $head -q 2>/dev/null || { git -C $wt checkout -q -- . ; git -C $wt checkout -q --detach $head; }
  cp /repo/Cargo.lock $wt/ 2>/dev/null
  export PALETTE_REPO=$wt PALETTE_LANE=$k
  [ -f $tmp/list.$k ] || return
  while read p; do
    git -C $wt checkout -q -- . && git -C $wt apply $p || { echo -e "$p\tAPPLY-FAILED" >> $tmp/out.$k; continue; }
    res=$(echo $ids | tr ' ' '\n' | xargs -P 4 -I{} sh -c 'if timeout 1800 ./check {} 2>&1 | grep -q "^VIOLATION"; then echo {}; fi' | sort | tr '\n' ' ')
    echo -e "$p\t$res" >> $tmp/out.$k
    echo "$(basename $(dirname $(dirname $p)))/$(basename $(dirname $p))/$(basename $p) -> $res"
  done < $tmp/list.$k
  git -C $wt checkout -q -- .
}
for k in $(seq 0 $((lanes-1))); do lane $k & done
wait
: > $out
for p in "$@"; do
  rp=$(realpath $p)
  line=$(cat $tmp/out.* 2>/dev/null | grep -F "$rp	" | head -1 | cut -f2)
  name=$(basename $(dirname $rp))/$(basename $rp)
  case $rp in */seeded/*) name=$(basename $(dirname $rp));; */selftest/*) name=$(basename $(dirname $rp))/$(basename $rp);; esac
  echo -e "$name\t$line" >> $out
done
for k in $(seq 0 $((lanes-1))); do git -C /repo worktree remove --force /tmp/wt/lane$k 2>/dev/null; rm -rf /tmp/wt/lane$k; done
git -C /repo worktree prune
rm -rf $tmp
# leave the evidence of the clean tree behind
tools/run_all.sh > /dev/null 2>&1
