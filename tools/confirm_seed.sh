#!/bin/bash
# usage: tools/confirm_seed.sh <seed-dir> <out.json>
# Confirms a seeded change in a scratch worktree of /repo's HEAD (never in /repo itself):
#   1. the patch applies and the pinned suite (unit + integration tests, as the baseline runs them) passes with it,
#   2. the demonstration fails with the change,
#   3. the demonstration passes without it.
# Scratch: /tmp/wt/confirm$LANE (worktree) and /tmp/seedtarget$LANE (cargo target), both removed by the caller when done.
# LANE=<k> gives parallel lanes their own scratch; JOBS=<n> limits cargo parallelism.
set -u
D=$1; OUT=$2
L=${LANE:-}
WT=/tmp/wt/confirm$L
export CARGO_TARGET_DIR=/tmp/seedtarget$L CARGO_NET_OFFLINE=true
J=${JOBS:-16}
if [ ! -d $WT ]; then git -C /repo worktree add --detach $WT HEAD >/dev/null 2>&1 || exit 3; fi
cd $WT && git checkout -q -- . && git clean -fdq && git checkout -q --detach $(git -C /repo rev-parse HEAD)   # always the current /repo HEAD (a lane may outlive a fix: commit)
head=$(git -C $WT rev-parse --short HEAD)
git apply --check "$D/patch.diff" 2>/tmp/confirm$L.err || { echo "{\"seed\": \"$D\", \"applies\": false}" > $OUT; exit 1; }
git apply "$D/patch.diff"
# 1. suite with the change
cargo test -j $J --workspace --no-fail-fast --offline --lib --bins --tests > /tmp/confirm$L.suite.log 2>&1; s_rc=$?
passed=$(grep "^test result" /tmp/confirm$L.suite.log | sed 's/.* \([0-9]*\) passed.*/\1/' | paste -sd+ | bc)
failed=$(grep "^test result" /tmp/confirm$L.suite.log | sed 's/.* \([0-9]*\) failed.*/\1/' | paste -sd+ | bc)
# 2. demo with the change
mkdir -p palette/tests; cp "$D/demo.rs" palette/tests/demo_seed.rs
cargo test -j $J -p palette --all-features --offline --test demo_seed > /tmp/confirm$L.demo_with.log 2>&1; dw_rc=$?
dw=$(grep "^test result" /tmp/confirm$L.demo_with.log | tail -1)
# 3. demo without the change
git apply -R "$D/patch.diff"
cargo test -j $J -p palette --all-features --offline --test demo_seed > /tmp/confirm$L.demo_without.log 2>&1; dn_rc=$?
dn=$(grep "^test result" /tmp/confirm$L.demo_without.log | tail -1)
rm -f palette/tests/demo_seed.rs
git checkout -q -- . && git clean -fdq
python3 - "$OUT" <<EOF
import json,sys
json.dump({"seed": "$D", "repo_head": "$head", "applies": True,
  "suite_with_change": {"cmd": "cargo test --workspace --no-fail-fast --offline --lib --bins --tests", "exit": $s_rc, "passed": int("${passed:-0}" or 0), "failed": int("${failed:-0}" or 0)},
  "demo_with_change": {"cmd": "cargo test -p palette --all-features --offline --test demo_seed", "exit": $dw_rc, "result": """$dw"""},
  "demo_without_change": {"exit": $dn_rc, "result": """$dn"""},
  "confirmed": ($s_rc == 0 and $dw_rc != 0 and $dn_rc == 0)}, open(sys.argv[1], "w"), indent=1)
EOF
