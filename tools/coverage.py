#!/usr/bin/env python3
"""tools/coverage.py [--run]  — which bodies of the crate does *no* check evaluate?

The seeding rounds showed one kind of miss: a construct no rule was anchored to (DESIGN §8.9).  This tool makes that visible:
with --run every check is run with VERIF_COVER set, each records the bodies whose expression tree it read (1) or evaluated
symbolically / through an anchored rule (2); the report lists, per source file, the bodies that no check evaluated.  It is a
development aid (which obligations are missing), not a check.
"""
import glob, json, os, subprocess, sys, collections
sys.path.insert(0, os.path.join(os.path.dirname(os.path.abspath(__file__)), ".."))
from rules import facts
D = "/tmp/verif_cover"
if "--run" in sys.argv:
    ids = [c["property_id"] for c in json.load(open("/verif/MANIFEST.json"))["checks"]]
    os.makedirs(D, exist_ok=True)
    ps = [subprocess.Popen(["/verif/check", i], env=dict(os.environ, VERIF_COVER=D), stdout=subprocess.DEVNULL) for i in ids]
    for p in ps: p.wait()
path, _ = facts.build_facts("all")
F = facts.Facts(path)
lvl = collections.defaultdict(int); who = collections.defaultdict(list)
for f in glob.glob(D + "/*.json"):
    for k, v in json.load(open(f)).items():
        name = os.path.basename(f)[:-5]
        if v == 1 and name in ("C07", "C17"): continue   # whole-crate scans (division sites, who-may-call), not anchored rules
        lvl[int(k)] = max(lvl[int(k)], v)
        who[int(k)].append(name)
byfile = collections.defaultdict(list)
for b in F.bodies:
    if "::test" in b["path"] or b["path"].startswith("named::codegen"): continue
    byfile[b["file"]].append(b)
tot = ev = 0
for f in sorted(byfile):
    bs = byfile[f]; un = [b for b in bs if lvl[b["i"]] < 1]
    tot += len(bs); ev += len(bs) - len(un)
    print("%-50s %4d bodies, %4d evaluated or linted by an anchored rule, %4d not" % (f, len(bs), len(bs) - len(un), len(un)))
    if "-v" in sys.argv:
        seen = collections.Counter()
        for b in un:
            seen[(b["path"], lvl[b["i"]])] += 1
        for (p, l), n in sorted(seen.items()):
            print("      %s %s%s" % ("scan" if l else "----", p, " x%d" % n if n > 1 else ""))
print("total %d bodies, %d evaluated by some rule" % (tot, ev))
