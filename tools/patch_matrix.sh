#!/bin/bash
# usage: tools/patch_matrix.sh <out.tsv> <patch>...   — apply each patch to /repo, run every claimed check (quick tier), record which checks
# print a VIOLATION (or fail with an infrastructure error), revert.  /repo must be clean; nothing else may use /repo while this runs.
set -u
OUT=$1; shift
cd /verif
CHECKS=$(python3 -c "import json;print(' '.join(sorted(c['property_id'] for c in json.load(open('MANIFEST.json'))['checks'])))")
: > $OUT
for p in "$@"; do
  p=$(realpath $p)
  id=$(basename $(dirname $p))/$(basename $p)
  git -C /repo diff --quiet || { echo "/repo not clean" >&2; exit 3; }
  git -C /repo apply $p || { echo -e "$id\tPATCH-DOES-NOT-APPLY" >> $OUT; continue; }
  ./check C01 > /dev/null 2>&1
  caught=$(echo $CHECKS | tr ' ' '\n' | xargs -P 10 -I{} sh -c './check {} > /tmp/matrix.{}.out 2>&1; rc=$?; if grep -q "^VIOLATION" /tmp/matrix.{}.out; then echo "{}"; elif [ $rc -ge 2 ]; then echo "{}:ERR"; fi' | sort | tr '\n' ' ')
  mkdir -p /tmp/matrix_out/$(echo $id | tr '/' '_'); cp /tmp/matrix.*.out /tmp/matrix_out/$(echo $id | tr '/' '_')/ 2>/dev/null
  git -C /repo checkout -- .
  echo -e "$id\t$caught" >> $OUT
  echo "$id -> $caught"
done
rm -f /tmp/matrix.*.out
