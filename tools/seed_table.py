#!/usr/bin/env python3
"""Regenerates the seeded-change table of DESIGN.md §8.6 from seeded/matrix.tsv and seeded/*/meta.json."""
import json, os, re
V = os.path.dirname(os.path.dirname(os.path.abspath(__file__)))
rows = {}
for line in open(os.path.join(V, "seeded", "matrix.tsv")):
    if not line.strip():
        continue
    k, _, v = line.rstrip("\n").partition("\t")
    sid = k.split("/")[0] if k.endswith("patch.diff") else k.replace("/", "_")
    rows[sid] = v.split()
out = ["| seed | file(s) changed | what the change does (short) | reported by |", "|---|---|---|---|"]
for sid in sorted(rows):
    m = json.load(open(os.path.join(V, "seeded", sid, "meta.json")))
    what = re.sub(r"\s+", " ", (m.get("breaks") or ""))
    what = what.split(": ", 1)[-1] if len(what) > 160 else what
    what = (what[:150] + "…") if len(what) > 150 else what
    own = m["property"]
    by = rows[sid]
    by_s = ", ".join(("**%s**" % c) if c == own else c for c in by) or "**MISSED**"
    out.append("| %s | %s | %s | %s |" % (sid, ", ".join(os.path.basename(f) for f in (m.get("files") or [])), what.replace("|", "/"), by_s))
n_own = sum(1 for sid in rows if json.load(open(os.path.join(V, "seeded", sid, "meta.json")))["property"] in rows[sid])
out.append("")
out.append("%d of %d seeded changes are reported; %d by the check of the property they were written against (bold), the others by a neighbouring property's check that owns the construct." % (sum(1 for r in rows.values() if r), len(rows), n_own))
txt = "\n".join(out)
p = os.path.join(V, "DESIGN.md")
s = open(p).read()
if "SEED_TABLE_PLACEHOLDER" in s:
    s = s.replace("SEED_TABLE_PLACEHOLDER", "<!-- seed-table:begin -->\n" + txt + "\n<!-- seed-table:end -->")
else:
    s = re.sub(r"<!-- seed-table:begin -->.*?<!-- seed-table:end -->", lambda _m: "<!-- seed-table:begin -->\n" + txt + "\n<!-- seed-table:end -->", s, flags=re.S)
open(p, "w").write(s)
print(txt[:600])
