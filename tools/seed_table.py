#!/usr/bin/env python3
"""Regenerates the seeded-change tables of DESIGN.md (§8.6 round 1, §8.9 rounds 2-3) from seeded/matrix.tsv, seeded/first_run.tsv and
seeded/*/meta.json."""
import json, os, re
V = os.path.dirname(os.path.dirname(os.path.abspath(__file__)))


def read_tsv(name):
    rows = {}
    path = os.path.join(V, "seeded", name)
    if not os.path.exists(path):
        return rows
    for line in open(path):
        if not line.strip():
            continue
        k, _, v = line.rstrip("\n").partition("\t")
        sid = k.split("/")[0] if k.endswith("patch.diff") else k.replace("/", "_")
        rows[sid] = v.split()
    return rows


rows = read_tsv("matrix.tsv")
first = read_tsv("first_run.tsv")


def meta(sid):
    return json.load(open(os.path.join(V, "seeded", sid, "meta.json")))


def short(m):
    what = re.sub(r"\s+", " ", (m.get("breaks") or ""))
    what = what.split(": ", 1)[-1] if len(what) > 160 else what
    return ((what[:150] + "…") if len(what) > 150 else what).replace("|", "/")


def bold(by, own):
    return ", ".join(("**%s**" % c) if c == own else c for c in by) or "**nothing**"


def put(s, tag, txt):
    return re.sub(r"<!-- %s:begin -->.*?<!-- %s:end -->" % (tag, tag), lambda _m: "<!-- %s:begin -->\n%s\n<!-- %s:end -->" % (tag, txt, tag), s, flags=re.S)


# round 1
r1 = sorted(sid for sid in rows if not sid.startswith("R"))
out = ["| seed | file(s) changed | what the change does (short) | reported by |", "|---|---|---|---|"]
for sid in r1:
    m = meta(sid)
    out.append("| %s | %s | %s | %s |" % (sid, ", ".join(os.path.basename(f) for f in (m.get("files") or [])), short(m), bold(rows[sid], m["property"])))
n_own = sum(1 for sid in r1 if meta(sid)["property"] in rows[sid])
out.append("")
out.append("%d of %d seeded changes are reported; %d by the check of the property they were written against (bold), the others by a neighbouring property's check that owns the construct."
           % (sum(1 for sid in r1 if rows[sid]), len(r1), n_own))
t1 = "\n".join(out)
# rounds 2, 3
def table(r23):
  out = ["| seed | file(s) changed | what the change does (short) | first run: reported by | now: reported by |", "|---|---|---|---|---|"]
  for sid in r23:
      m = meta(sid)
      out.append("| %s | %s | %s | %s | %s |" % (sid, ", ".join(os.path.basename(f) for f in (m.get("files") or [])), short(m),
                                                bold(first.get(sid, []), m["property"]) if sid in first else "(not recorded)", bold(rows[sid], m["property"])))
  own_first = sum(1 for sid in r23 if meta(sid)["property"] in first.get(sid, []))
  none_first = sum(1 for sid in r23 if not first.get(sid, []))
  own_now = sum(1 for sid in r23 if meta(sid)["property"] in rows[sid])
  none_now = [sid for sid in r23 if not rows[sid]]
  out.append("")
  out.append("First run: %d of %d by the own property's check, %d by nothing. Now: %d by the own check, %d by a neighbour only, %d by nothing%s."
             % (own_first, len(r23), none_first, own_now, len(r23) - own_now - len(none_now), len(none_now), (" (" + ", ".join(none_now) + ")") if none_now else ""))
  return "\n".join(out)


t2 = table(sorted(sid for sid in rows if sid.startswith("R") and not sid.startswith(("R5", "R6", "R7"))))
t5 = table(sorted(sid for sid in rows if sid.startswith("R5")))
t6 = table(sorted(sid for sid in rows if sid.startswith("R6")))
t7 = table(sorted(sid for sid in rows if sid.startswith("R7")))
p = os.path.join(V, "DESIGN.md")
s = open(p).read()
s = put(s, "seed-table", t1)
s = s.replace("SEED2_TABLE_PLACEHOLDER", t2) if "SEED2_TABLE_PLACEHOLDER" in s else put(s, "seed2-table", t2)
s = put(s, "seed5-table", t5)
s = put(s, "seed6-table", t6)
s = put(s, "seed7-table", t7)
open(p, "w").write(s)
print(t1[-300:])
print(t2[-400:])
print(t5[-400:])
