#!/bin/sh
# usage: tools/try_patch.sh <patch.diff> <prop> [<prop>...] — apply to /repo, run checks, revert
P=$1; shift
git -C /repo apply "$P" || { echo "patch does not apply"; exit 3; }
rc=0
for id in "$@"; do
  /verif/check $id > /tmp/try_patch.$id.out 2>&1; r=$?
  echo "== $id exit=$r"; grep -A2 "^VIOLATION\|^KNOWN\|infrastructure" /tmp/try_patch.$id.out | cut -c1-600 | head -30
  [ $r -ne 0 ] && rc=$r
done
git -C /repo checkout -- .
exit $rc
