// pfacts — fact extractor for the palette static-analysis rules.
//
// A rustc_private driver used as RUSTC_WORKSPACE_WRAPPER. For crates listed in
// PFACTS_CRATES (comma separated, default "palette") it dumps, after analysis,
// the resolved HIR of every body plus ADT / impl tables as one JSON file into
// PFACTS_OUT (directory). Every other crate is compiled unchanged.
#![feature(rustc_private)]
#![allow(clippy::all)]

extern crate rustc_abi;
extern crate rustc_ast;
extern crate rustc_data_structures;
extern crate rustc_driver;
extern crate rustc_hir;
extern crate rustc_interface;
extern crate rustc_middle;
extern crate rustc_span;

use std::collections::HashMap;
use std::fmt::Write as _;

use rustc_ast::ast::LitKind;
use rustc_driver::{Callbacks, Compilation};
use rustc_hir as hir;
use rustc_hir::def::{DefKind, Res};
use rustc_hir::def_id::{DefId, LocalDefId};
use rustc_middle::ty::print::with_no_trimmed_paths;
use rustc_middle::ty::{self, GenericArgsRef, Instance, Ty, TyCtxt, TypeckResults, TypingEnv};
use rustc_span::hygiene::{ExpnKind, SyntaxContext};
use rustc_span::Span;

// ---------------------------------------------------------------- JSON ----

enum J {
    Null,
    B(bool),
    I(i128),
    S(String),
    A(Vec<J>),
    O(Vec<(&'static str, J)>),
}

fn esc(s: &str, out: &mut String) {
    out.push('"');
    for c in s.chars() {
        match c {
            '"' => out.push_str("\\\""),
            '\\' => out.push_str("\\\\"),
            '\n' => out.push_str("\\n"),
            '\r' => out.push_str("\\r"),
            '\t' => out.push_str("\\t"),
            c if (c as u32) < 0x20 => {
                let _ = write!(out, "\\u{:04x}", c as u32);
            }
            c => out.push(c),
        }
    }
    out.push('"');
}

impl J {
    fn s(x: impl Into<String>) -> J {
        J::S(x.into())
    }
    fn write(&self, out: &mut String) {
        match self {
            J::Null => out.push_str("null"),
            J::B(b) => out.push_str(if *b { "true" } else { "false" }),
            J::I(i) => {
                let _ = write!(out, "{}", i);
            }
            J::S(s) => esc(s, out),
            J::A(v) => {
                out.push('[');
                for (i, x) in v.iter().enumerate() {
                    if i > 0 {
                        out.push(',');
                    }
                    x.write(out);
                }
                out.push(']');
            }
            J::O(v) => {
                out.push('{');
                let mut first = true;
                for (k, x) in v.iter() {
                    if let J::Null = x {
                        continue;
                    }
                    if !first {
                        out.push(',');
                    }
                    first = false;
                    esc(k, out);
                    out.push(':');
                    x.write(out);
                }
                out.push('}');
            }
        }
    }
}

macro_rules! obj {
    ($($k:literal : $v:expr),* $(,)?) => { J::O(vec![$(($k, $v)),*]) };
}

// ------------------------------------------------------------- context ----

struct Cx<'tcx> {
    tcx: TyCtxt<'tcx>,
    strs: HashMap<String, usize>,
    str_list: Vec<String>,
}

impl<'tcx> Cx<'tcx> {
    fn intern(&mut self, s: String) -> J {
        if let Some(&i) = self.strs.get(&s) {
            return J::I(i as i128);
        }
        let i = self.str_list.len();
        self.strs.insert(s.clone(), i);
        self.str_list.push(s);
        J::I(i as i128)
    }

    fn ty(&mut self, t: Ty<'tcx>) -> J {
        let s = with_no_trimmed_paths!(t.to_string());
        self.intern(s)
    }

    fn path(&self, did: DefId) -> String {
        with_no_trimmed_paths!(self.tcx.def_path_str(did))
    }

    fn loc(&self, sp: Span) -> (String, usize) {
        let sm = self.tcx.sess.source_map();
        let lo = sm.lookup_char_pos(sp.lo());
        let name = format!("{}", lo.file.name.prefer_local_unconditionally());
        (name, lo.line)
    }

    fn loc_j(&mut self, sp: Span) -> J {
        let (f, l) = self.loc(sp);
        let fi = self.intern(f);
        J::A(vec![fi, J::I(l as i128)])
    }

    fn macro_bt(&mut self, sp: Span) -> J {
        let mut v = Vec::new();
        for ed in sp.macro_backtrace() {
            let (kind, name) = match ed.kind {
                ExpnKind::Macro(k, n) => (format!("{:?}", k), n.to_string()),
                ExpnKind::Desugaring(d) => ("Desugar".to_string(), format!("{:?}", d)),
                ExpnKind::AstPass(p) => ("AstPass".to_string(), format!("{:?}", p)),
                ExpnKind::Root => ("Root".to_string(), String::new()),
            };
            let call = self.loc_j(ed.call_site);
            let def = self.loc_j(ed.def_site);
            v.push(obj! {"kind": J::s(kind), "name": J::s(name), "call": call, "def": def});
        }
        if v.is_empty() {
            J::Null
        } else {
            J::A(v)
        }
    }

    fn ctxt_name(&mut self, c: SyntaxContext) -> J {
        let ed = c.outer_expn_data();
        let s = match ed.kind {
            ExpnKind::Macro(_, n) => n.to_string(),
            ExpnKind::Desugaring(d) => format!("desugar:{:?}", d),
            ExpnKind::AstPass(p) => format!("astpass:{:?}", p),
            ExpnKind::Root => return J::Null,
        };
        self.intern(s)
    }

    fn args_j(&mut self, args: GenericArgsRef<'tcx>) -> J {
        let v: Vec<J> = args
            .iter()
            .map(|a| {
                let s = with_no_trimmed_paths!(a.to_string());
                self.intern(s)
            })
            .collect();
        J::A(v)
    }

    /// Static callee + (where possible) the resolved impl item.
    fn callee(&mut self, did: DefId, args: GenericArgsRef<'tcx>, owner: LocalDefId) -> J {
        let tcx = self.tcx;
        let mut o: Vec<(&'static str, J)> = Vec::new();
        let p = self.path(did);
        o.push(("d", self.intern(p)));
        o.push(("n", J::s(tcx.opt_item_name(did).map(|s| s.to_string()).unwrap_or_default())));
        o.push(("a", self.args_j(args)));
        if did.is_local() {
            o.push(("i", J::I(did.index.as_u32() as i128)));
        }
        let dk = tcx.def_kind(did);
        if matches!(dk, DefKind::AssocFn | DefKind::AssocConst { .. } | DefKind::AssocTy) {
            if let Some(tr) = tcx.trait_of_assoc(did) {
                let tp = self.path(tr);
                o.push(("tr", self.intern(tp)));
            } else if let Some(im) = tcx.impl_of_assoc(did) {
                if im.is_local() {
                    o.push(("im", J::I(im.index.as_u32() as i128)));
                }
            }
        }
        let arity_ok = tcx.generics_of(did).count() == args.len();
        if !arity_ok {
            o.push(("arity_mismatch", J::B(true)));
        }
        if arity_ok
            && matches!(
                dk,
                DefKind::Fn | DefKind::AssocFn | DefKind::Const { .. } | DefKind::AssocConst { .. }
            )
        {
            let env = TypingEnv::post_analysis(tcx, owner);
            let eargs = tcx.erase_and_anonymize_regions(args);
            let res = std::panic::catch_unwind(std::panic::AssertUnwindSafe(|| {
                Instance::try_resolve(tcx, env, did, eargs)
            }));
            if let Ok(Ok(Some(inst))) = res {
                let rd = inst.def_id();
                if rd != did {
                    let rp = self.path(rd);
                    o.push(("r", self.intern(rp)));
                    if rd.is_local() {
                        o.push(("ri", J::I(rd.index.as_u32() as i128)));
                    }
                    if let Some(im) = tcx.impl_of_assoc(rd) {
                        if im.is_local() {
                            o.push(("rim", J::I(im.index.as_u32() as i128)));
                        }
                    }
                    o.push(("ra", self.args_j(inst.args)));
                }
                // constants: try to evaluate to a scalar
                if matches!(dk, DefKind::Const { .. } | DefKind::AssocConst { .. }) {
                    if let Some(v) = self.const_scalar(inst, env) {
                        o.push(("v", v));
                    }
                }
            }
        }
        J::O(o)
    }

    fn const_scalar(&mut self, inst: Instance<'tcx>, env: TypingEnv<'tcx>) -> Option<J> {
        let tcx = self.tcx;
        let r = std::panic::catch_unwind(std::panic::AssertUnwindSafe(|| {
            tcx.const_eval_instance(env, inst, rustc_span::DUMMY_SP)
        }));
        let Ok(Ok(cv)) = r else { return None };
        let ty = tcx.type_of(inst.def_id()).instantiate(tcx, inst.args).skip_norm_wip();
        scalar_j(cv, ty)
    }
}

fn scalar_j<'tcx>(cv: rustc_middle::mir::ConstValue, ty: Ty<'tcx>) -> Option<J> {
    use rustc_middle::mir::ConstValue;
    let ConstValue::Scalar(s) = cv else { return None };
    let si = s.try_to_scalar_int().ok()?;
    let bits: u128 = si.to_bits(si.size());
    let v = match ty.kind() {
        ty::Bool => format!("{}", bits != 0),
        ty::Uint(_) => format!("{}", bits),
        ty::Int(_) => {
            let size = si.size().bits();
            let shift = 128 - size;
            let sv = ((bits << shift) as i128) >> shift;
            format!("{}", sv)
        }
        ty::Float(ty::FloatTy::F32) => format!("f32:{:e}", f32::from_bits(bits as u32)),
        ty::Float(ty::FloatTy::F64) => format!("f64:{:e}", f64::from_bits(bits as u64)),
        ty::Char => format!("char:{}", bits),
        _ => return None,
    };
    Some(J::S(v))
}

// ---------------------------------------------------------- body walker ----

struct BodyCx<'a, 'tcx> {
    cx: &'a mut Cx<'tcx>,
    tr: &'tcx TypeckResults<'tcx>,
    owner: LocalDefId,
    file: String,
    nodes: usize,
}

impl<'a, 'tcx> BodyCx<'a, 'tcx> {
    fn base(&mut self, k: &'static str, e_ty: Option<Ty<'tcx>>, sp: Span, pctxt: SyntaxContext) -> Vec<(&'static str, J)> {
        self.nodes += 1;
        let mut o: Vec<(&'static str, J)> = Vec::with_capacity(8);
        o.push(("k", J::s(k)));
        if let Some(t) = e_ty {
            o.push(("t", self.cx.ty(t)));
        }
        let (f, l) = self.cx.loc(sp);
        o.push(("l", J::I(l as i128)));
        if f != self.file {
            o.push(("f", self.cx.intern(f)));
        }
        let c = sp.ctxt();
        if c != pctxt {
            let m = self.cx.ctxt_name(c);
            o.push(("m", m));
        }
        o
    }

    fn qpath_str(&mut self, qp: &hir::QPath<'tcx>, hid: hir::HirId) -> J {
        let res = self.tr.qpath_res(qp, hid);
        match res {
            Res::Def(_, did) => {
                let p = self.cx.path(did);
                self.cx.intern(p)
            }
            Res::SelfTyAlias { .. } | Res::SelfTyParam { .. } => J::s("Self"),
            Res::SelfCtor(_) => J::s("Self"),
            _ => J::s(format!("{:?}", res)),
        }
    }

    fn path_res(&mut self, qp: &hir::QPath<'tcx>, hid: hir::HirId) -> J {
        let tcx = self.cx.tcx;
        let res = self.tr.qpath_res(qp, hid);
        match res {
            Res::Local(h) => {
                let name = tcx.hir_name(h).to_string();
                obj! {"k": J::s("local"), "n": J::s(name), "h": J::I(h.local_id.as_u32() as i128)}
            }
            Res::Def(dk, did) => {
                let args = self.tr.node_args(hid);
                let mut o = vec![("k", J::s("def")), ("dk", J::s(format!("{:?}", dk)))];
                match dk {
                    DefKind::Fn
                    | DefKind::AssocFn
                    | DefKind::Const { .. }
                    | DefKind::AssocConst { .. } => {
                        o.push(("c", self.cx.callee(did, args, self.owner)));
                    }
                    DefKind::Static { .. } => {
                        let p = self.cx.path(did);
                        o.push(("d", self.cx.intern(p)));
                        if did.is_local() {
                            o.push(("i", J::I(did.index.as_u32() as i128)));
                        }
                    }
                    DefKind::Ctor(..) => {
                        // path of the variant / struct the ctor belongs to
                        let parent = tcx.parent(did);
                        let p = self.cx.path(parent);
                        o.push(("d", self.cx.intern(p)));
                    }
                    _ => {
                        let p = self.cx.path(did);
                        o.push(("d", self.cx.intern(p)));
                    }
                }
                J::O(o)
            }
            Res::SelfCtor(_) => obj! {"k": J::s("selfctor")},
            other => obj! {"k": J::s("other"), "d": J::s(format!("{:?}", other))},
        }
    }

    fn lit(&mut self, l: &hir::Lit, neg: bool) -> J {
        let (kind, v) = match l.node {
            LitKind::Str(s, _) => ("str", s.to_string()),
            LitKind::ByteStr(ref b, _) => ("bytestr", String::from_utf8_lossy(b.as_byte_str()).to_string()),
            LitKind::CStr(..) => ("cstr", String::new()),
            LitKind::Byte(b) => ("int", format!("{}", b)),
            LitKind::Char(c) => ("char", c.to_string()),
            LitKind::Int(n, _) => ("int", format!("{}", n.get())),
            LitKind::Float(s, _) => ("float", s.to_string()),
            LitKind::Bool(b) => ("bool", format!("{}", b)),
            LitKind::Err(_) => ("err", String::new()),
        };
        let v = if neg { format!("-{}", v) } else { v };
        obj! {"lk": J::s(kind), "v": J::s(v)}
    }

    fn pat(&mut self, p: &hir::Pat<'tcx>) -> J {
        use hir::PatKind as P;
        let t = self.tr.node_type_opt(p.hir_id);
        let tj = match t {
            Some(t) => self.cx.ty(t),
            None => J::Null,
        };
        match p.kind {
            P::Wild | P::Missing => obj! {"k": J::s("wild")},
            P::Never => obj! {"k": J::s("never")},
            P::Binding(mode, hid, ident, sub) => {
                let subj = match sub {
                    Some(s) => self.pat(s),
                    None => J::Null,
                };
                obj! {
                    "k": J::s("bind"), "n": J::s(ident.name.to_string()),
                    "h": J::I(hid.local_id.as_u32() as i128),
                    "ref": if matches!(mode.0, hir::ByRef::Yes(..)) { J::B(true) } else { J::Null },
                    "mut": if mode.1.is_mut() { J::B(true) } else { J::Null },
                    "sub": subj, "t": tj
                }
            }
            P::Struct(ref qp, fields, rest) => {
                let pj = self.qpath_str(qp, p.hir_id);
                let fs: Vec<J> = fields
                    .iter()
                    .map(|f| J::A(vec![J::s(f.ident.name.to_string()), self.pat(f.pat)]))
                    .collect();
                obj! {"k": J::s("struct"), "p": pj, "f": J::A(fs), "rest": J::B(rest.is_some()), "t": tj}
            }
            P::TupleStruct(ref qp, pats, dd) => {
                let pj = self.qpath_str(qp, p.hir_id);
                let ps: Vec<J> = pats.iter().map(|x| self.pat(x)).collect();
                obj! {"k": J::s("tstruct"), "p": pj, "a": J::A(ps),
                "dd": match dd.as_opt_usize() { Some(n) => J::I(n as i128), None => J::Null }, "t": tj}
            }
            P::Tuple(pats, dd) => {
                let ps: Vec<J> = pats.iter().map(|x| self.pat(x)).collect();
                obj! {"k": J::s("tuple"), "a": J::A(ps),
                "dd": match dd.as_opt_usize() { Some(n) => J::I(n as i128), None => J::Null }, "t": tj}
            }
            P::Or(pats) => {
                let ps: Vec<J> = pats.iter().map(|x| self.pat(x)).collect();
                obj! {"k": J::s("or"), "a": J::A(ps)}
            }
            P::Box(x) | P::Deref(x) => {
                let s = self.pat(x);
                obj! {"k": J::s("deref"), "p": s}
            }
            P::Ref(x, _, _) => {
                let s = self.pat(x);
                obj! {"k": J::s("ref"), "p": s}
            }
            P::Expr(pe) => self.pat_expr(pe),
            P::Guard(x, g) => {
                let s = self.pat(x);
                let gj = self.expr(g, p.span.ctxt());
                obj! {"k": J::s("guard"), "p": s, "g": gj}
            }
            P::Range(lo, hi, end) => {
                let lj = match lo {
                    Some(x) => self.pat_expr(x),
                    None => J::Null,
                };
                let hj = match hi {
                    Some(x) => self.pat_expr(x),
                    None => J::Null,
                };
                obj! {"k": J::s("range"), "lo": lj, "hi": hj, "incl": J::B(matches!(end, hir::RangeEnd::Included))}
            }
            P::Slice(before, mid, after) => {
                let b: Vec<J> = before.iter().map(|x| self.pat(x)).collect();
                let a: Vec<J> = after.iter().map(|x| self.pat(x)).collect();
                let m = match mid {
                    Some(x) => self.pat(x),
                    None => J::Null,
                };
                obj! {"k": J::s("slice"), "b": J::A(b), "mid": m, "a": J::A(a), "t": tj}
            }
            P::Err(_) => obj! {"k": J::s("err")},
        }
    }

    fn pat_expr(&mut self, pe: &hir::PatExpr<'tcx>) -> J {
        match pe.kind {
            hir::PatExprKind::Lit { lit, negated } => {
                let l = self.lit(&lit, negated);
                obj! {"k": J::s("lit"), "lit": l}
            }
            hir::PatExprKind::Path(ref qp) => {
                let r = self.path_res(qp, pe.hir_id);
                obj! {"k": J::s("path"), "res": r}
            }
        }
    }

    fn block(&mut self, b: &hir::Block<'tcx>, pctxt: SyntaxContext) -> J {
        let ety = self.tr.node_type_opt(b.hir_id);
        let mut o = self.base("block", ety, b.span, pctxt);
        let c = b.span.ctxt();
        if let hir::BlockCheckMode::UnsafeBlock(src) = b.rules {
            o.push((
                "unsafe",
                J::s(match src {
                    hir::UnsafeSource::UserProvided => "user",
                    hir::UnsafeSource::CompilerGenerated => "compiler",
                }),
            ));
        }
        let mut stmts = Vec::new();
        for s in b.stmts {
            match s.kind {
                hir::StmtKind::Let(l) => {
                    let p = self.pat(l.pat);
                    let init = match l.init {
                        Some(e) => self.expr(e, c),
                        None => J::Null,
                    };
                    let els = match l.els {
                        Some(b) => self.block(b, c),
                        None => J::Null,
                    };
                    let (_, line) = self.cx.loc(s.span);
                    stmts.push(obj! {"k": J::s("let"), "pat": p, "init": init, "else": els, "l": J::I(line as i128)});
                }
                hir::StmtKind::Item(_) => {}
                hir::StmtKind::Expr(e) => {
                    let x = self.expr(e, c);
                    stmts.push(obj! {"k": J::s("expr"), "e": x});
                }
                hir::StmtKind::Semi(e) => {
                    let x = self.expr(e, c);
                    stmts.push(obj! {"k": J::s("semi"), "e": x});
                }
            }
        }
        o.push(("s", J::A(stmts)));
        if let Some(e) = b.expr {
            let x = self.expr(e, c);
            o.push(("e", x));
        }
        J::O(o)
    }

    fn exprs(&mut self, es: &[hir::Expr<'tcx>], c: SyntaxContext) -> J {
        J::A(es.iter().map(|e| self.expr(e, c)).collect())
    }

    fn expr(&mut self, e: &hir::Expr<'tcx>, pctxt: SyntaxContext) -> J {
        use hir::ExprKind as E;
        let tcx = self.cx.tcx;
        let ety = self.tr.expr_ty_opt(e);
        let c = e.span.ctxt();
        match e.kind {
            E::DropTemps(x) | E::Use(x, _) => return self.expr(x, pctxt),
            E::Block(b, _) => return self.block(b, pctxt),
            _ => {}
        }
        let mut o = match e.kind {
            E::ConstBlock(ref cb) => {
                let mut o = self.base("constblock", ety, e.span, pctxt);
                let body = tcx.hir_body(cb.body);
                // const blocks have their own typeck results
                let tr = tcx.typeck(cb.def_id);
                let mut sub = BodyCx { cx: self.cx, tr, owner: cb.def_id, file: self.file.clone(), nodes: 0 };
                let v = sub.expr(body.value, c);
                self.nodes += sub.nodes;
                o.push(("e", v));
                o
            }
            E::Array(es) => {
                let mut o = self.base("array", ety, e.span, pctxt);
                // compact form for long literal arrays
                if es.len() > 16 && es.iter().all(|x| matches!(x.kind, E::Lit(_)) || matches!(x.kind, E::Unary(hir::UnOp::Neg, y) if matches!(y.kind, E::Lit(_)))) {
                    let mut v = Vec::with_capacity(es.len());
                    for x in es {
                        match x.kind {
                            E::Lit(l) => v.push(self.lit(&l, false)),
                            E::Unary(_, y) => {
                                if let E::Lit(l) = y.kind {
                                    v.push(self.lit(&l, true))
                                }
                            }
                            _ => {}
                        }
                    }
                    o.push(("lits", J::A(v)));
                } else {
                    let v = self.exprs(es, c);
                    o.push(("a", v));
                }
                o
            }
            E::Call(f, args) => {
                let mut o = self.base("call", ety, e.span, pctxt);
                // static callee through the path, if any
                let mut done = false;
                if let E::Path(ref qp) = f.kind {
                    let res = self.tr.qpath_res(qp, f.hir_id);
                    match res {
                        Res::Def(DefKind::Fn | DefKind::AssocFn, did) => {
                            let mut ga = self.tr.node_args(f.hir_id);
                            if let Some(ft) = self.tr.expr_ty_opt(f) {
                                if let ty::FnDef(fd, fa) = ft.kind() {
                                    if *fd == did {
                                        ga = fa;
                                    }
                                }
                            }
                            let cj = self.cx.callee(did, ga, self.owner);
                            o.push(("c", cj));
                            done = true;
                        }
                        Res::Def(DefKind::Ctor(..), did) => {
                            let parent = tcx.parent(did);
                            let p = self.cx.path(parent);
                            o.push(("ctor", self.cx.intern(p)));
                            done = true;
                        }
                        Res::SelfCtor(_) => {
                            o.push(("ctor", J::s("Self")));
                            done = true;
                        }
                        _ => {}
                    }
                }
                if !done {
                    let fj = self.expr(f, c);
                    o.push(("f", fj));
                }
                let a = self.exprs(args, c);
                o.push(("a", a));
                o
            }
            E::MethodCall(seg, recv, args, _) => {
                let mut o = self.base("mcall", ety, e.span, pctxt);
                o.push(("n", J::s(seg.ident.name.to_string())));
                if let Some(did) = self.tr.type_dependent_def_id(e.hir_id) {
                    let ga = self.tr.node_args(e.hir_id);
                    let cj = self.cx.callee(did, ga, self.owner);
                    o.push(("c", cj));
                }
                let r = self.expr(recv, c);
                o.push(("r", r));
                let a = self.exprs(args, c);
                o.push(("a", a));
                o
            }
            E::Tup(es) => {
                let mut o = self.base("tup", ety, e.span, pctxt);
                let v = self.exprs(es, c);
                o.push(("a", v));
                o
            }
            E::Binary(op, l, r) => {
                let mut o = self.base("bin", ety, e.span, pctxt);
                o.push(("op", J::s(op.node.as_str())));
                if let Some(did) = self.tr.type_dependent_def_id(e.hir_id) {
                    let ga = self.tr.node_args(e.hir_id);
                    let cj = self.cx.callee(did, ga, self.owner);
                    o.push(("c", cj));
                }
                let lj = self.expr(l, c);
                let rj = self.expr(r, c);
                o.push(("a", J::A(vec![lj, rj])));
                o
            }
            E::Unary(op, x) => {
                if let (hir::UnOp::Neg, E::Lit(l)) = (op, &x.kind) {
                    let mut o = self.base("lit", ety, e.span, pctxt);
                    let lj = self.lit(l, true);
                    o.push(("lit", lj));
                    o
                } else {
                    let mut o = self.base("un", ety, e.span, pctxt);
                    o.push(("op", J::s(op.as_str())));
                    if let Some(did) = self.tr.type_dependent_def_id(e.hir_id) {
                        let ga = self.tr.node_args(e.hir_id);
                        let cj = self.cx.callee(did, ga, self.owner);
                        o.push(("c", cj));
                    }
                    let xj = self.expr(x, c);
                    o.push(("e", xj));
                    o
                }
            }
            E::Lit(l) => {
                let mut o = self.base("lit", ety, e.span, pctxt);
                let lj = self.lit(&l, false);
                o.push(("lit", lj));
                o
            }
            E::Cast(x, _) => {
                let mut o = self.base("cast", ety, e.span, pctxt);
                let xj = self.expr(x, c);
                o.push(("e", xj));
                o
            }
            E::Type(x, _) => {
                let mut o = self.base("ascribe", ety, e.span, pctxt);
                let xj = self.expr(x, c);
                o.push(("e", xj));
                o
            }
            E::Let(l) => {
                let mut o = self.base("letexpr", ety, e.span, pctxt);
                let p = self.pat(l.pat);
                let i = self.expr(l.init, c);
                o.push(("pat", p));
                o.push(("init", i));
                o
            }
            E::If(cond, th, el) => {
                let mut o = self.base("if", ety, e.span, pctxt);
                let cj = self.expr(cond, c);
                let tj = self.expr(th, c);
                o.push(("c", cj));
                o.push(("th", tj));
                if let Some(el) = el {
                    let ej = self.expr(el, c);
                    o.push(("el", ej));
                }
                o
            }
            E::Loop(b, _, src, _) => {
                let mut o = self.base("loop", ety, e.span, pctxt);
                o.push(("src", J::s(src.name())));
                let bj = self.block(b, c);
                o.push(("b", bj));
                o
            }
            E::Match(scrut, arms, src) => {
                let mut o = self.base("match", ety, e.span, pctxt);
                o.push(("src", J::s(format!("{:?}", src))));
                let sj = self.expr(scrut, c);
                o.push(("e", sj));
                let mut av = Vec::new();
                for arm in arms {
                    let p = self.pat(arm.pat);
                    let g = match arm.guard {
                        Some(g) => self.expr(g, c),
                        None => J::Null,
                    };
                    let b = self.expr(arm.body, c);
                    av.push(obj! {"pat": p, "g": g, "b": b});
                }
                o.push(("arms", J::A(av)));
                o
            }
            E::Closure(cl) => {
                let mut o = self.base("closure", ety, e.span, pctxt);
                let body = tcx.hir_body(cl.body);
                let ps: Vec<J> = body.params.iter().map(|p| self.pat(p.pat)).collect();
                o.push(("params", J::A(ps)));
                let bj = self.expr(body.value, c);
                o.push(("b", bj));
                o
            }
            E::Assign(l, r, _) => {
                let mut o = self.base("assign", ety, e.span, pctxt);
                let lj = self.expr(l, c);
                let rj = self.expr(r, c);
                o.push(("a", J::A(vec![lj, rj])));
                o
            }
            E::AssignOp(op, l, r) => {
                let mut o = self.base("assignop", ety, e.span, pctxt);
                o.push(("op", J::s(op.node.as_str())));
                if let Some(did) = self.tr.type_dependent_def_id(e.hir_id) {
                    let ga = self.tr.node_args(e.hir_id);
                    let cj = self.cx.callee(did, ga, self.owner);
                    o.push(("c", cj));
                }
                let lj = self.expr(l, c);
                let rj = self.expr(r, c);
                o.push(("a", J::A(vec![lj, rj])));
                o
            }
            E::Field(x, ident) => {
                let mut o = self.base("field", ety, e.span, pctxt);
                o.push(("n", J::s(ident.name.to_string())));
                let xj = self.expr(x, c);
                o.push(("e", xj));
                o
            }
            E::Index(x, i, _) => {
                let mut o = self.base("index", ety, e.span, pctxt);
                if let Some(did) = self.tr.type_dependent_def_id(e.hir_id) {
                    let ga = self.tr.node_args(e.hir_id);
                    let cj = self.cx.callee(did, ga, self.owner);
                    o.push(("c", cj));
                }
                let xj = self.expr(x, c);
                let ij = self.expr(i, c);
                o.push(("a", J::A(vec![xj, ij])));
                o
            }
            E::Path(ref qp) => {
                let mut o = self.base("path", ety, e.span, pctxt);
                let r = self.path_res(qp, e.hir_id);
                o.push(("res", r));
                o
            }
            E::AddrOf(_, m, x) => {
                let mut o = self.base("ref", ety, e.span, pctxt);
                if m.is_mut() {
                    o.push(("mut", J::B(true)));
                }
                let xj = self.expr(x, c);
                o.push(("e", xj));
                o
            }
            E::Break(_, x) => {
                let mut o = self.base("break", ety, e.span, pctxt);
                if let Some(x) = x {
                    let xj = self.expr(x, c);
                    o.push(("e", xj));
                }
                o
            }
            E::Continue(_) => self.base("continue", ety, e.span, pctxt),
            E::Ret(x) => {
                let mut o = self.base("ret", ety, e.span, pctxt);
                if let Some(x) = x {
                    let xj = self.expr(x, c);
                    o.push(("e", xj));
                }
                o
            }
            E::Struct(qp, fields, tail) => {
                let mut o = self.base("struct", ety, e.span, pctxt);
                let pj = self.qpath_str(qp, e.hir_id);
                o.push(("p", pj));
                let fs: Vec<J> = fields
                    .iter()
                    .map(|f| J::A(vec![J::s(f.ident.name.to_string()), self.expr(f.expr, c)]))
                    .collect();
                o.push(("f", J::A(fs)));
                if let hir::StructTailExpr::Base(b) = tail {
                    let bj = self.expr(b, c);
                    o.push(("base", bj));
                }
                o
            }
            E::Repeat(x, len) => {
                let mut o = self.base("repeat", ety, e.span, pctxt);
                let xj = self.expr(x, c);
                o.push(("e", xj));
                let _ = len;
                o
            }
            E::OffsetOf(..) => self.base("offsetof", ety, e.span, pctxt),
            E::InlineAsm(_) => self.base("asm", ety, e.span, pctxt),
            E::Become(x) | E::Yield(x, _) | E::UnsafeBinderCast(_, x, _) => {
                let mut o = self.base("other", ety, e.span, pctxt);
                let xj = self.expr(x, c);
                o.push(("e", xj));
                o
            }
            E::Err(_) => self.base("err", ety, e.span, pctxt),
            E::DropTemps(_) | E::Use(..) | E::Block(..) => unreachable!(),
        };
        // adjustments: record overloaded deref / autoref count only when non-trivial
        let adj = self.tr.expr_adjustments(e);
        if !adj.is_empty() {
            let mut s = String::new();
            for a in adj {
                use rustc_middle::ty::adjustment::Adjust;
                match a.kind {
                    Adjust::Deref(..) => s.push('*'),
                    Adjust::Borrow(rustc_middle::ty::adjustment::AutoBorrow::Ref(
                        rustc_middle::ty::adjustment::AutoBorrowMutability::Mut { .. },
                    )) => s.push('m'),
                    Adjust::Borrow(_) => s.push('&'),
                    Adjust::NeverToAny => s.push('!'),
                    Adjust::Pointer(_) => s.push('p'),
                }
            }
            o.push(("adj", J::S(s)));
        }
        J::O(o)
    }
}

// --------------------------------------------------------------- driver ----

struct Dump;

fn dump<'tcx>(tcx: TyCtxt<'tcx>) {
    let crate_name = tcx.crate_name(rustc_hir::def_id::LOCAL_CRATE).to_string();
    let out_dir = std::env::var("PFACTS_OUT").expect("PFACTS_OUT");
    let tag = std::env::var("PFACTS_TAG").unwrap_or_else(|_| "default".to_string());
    let mut cx = Cx { tcx, strs: HashMap::new(), str_list: Vec::new() };

    let mut bodies = Vec::new();
    let mut total_nodes = 0usize;
    for ldid in tcx.hir_body_owners() {
        let dk = tcx.def_kind(ldid);
        if matches!(dk, DefKind::Closure | DefKind::InlineConst | DefKind::SyntheticCoroutineBody) {
            continue; // dumped inline in their parent
        }
        let did = ldid.to_def_id();
        let body = tcx.hir_body_owned_by(ldid);
        let tr = tcx.typeck(ldid);
        let span = tcx.def_span(ldid);
        let (file, line) = cx.loc(body.value.span);
        let mut o: Vec<(&'static str, J)> = Vec::new();
        o.push(("i", J::I(did.index.as_u32() as i128)));
        o.push(("path", J::s(cx.path(did))));
        o.push(("name", J::s(tcx.opt_item_name(did).map(|s| s.to_string()).unwrap_or_default())));
        o.push(("dk", J::s(format!("{:?}", dk))));
        o.push(("file", J::s(file.clone())));
        o.push(("line", J::I(line as i128)));
        o.push(("defloc", cx.loc_j(span)));
        o.push(("bt", cx.macro_bt(span)));
        if let Some(im) = tcx.impl_of_assoc(did) {
            o.push(("impl", J::I(im.index.as_u32() as i128)));
        } else if let Some(t) = tcx.trait_of_assoc(did) {
            o.push(("trait", J::s(cx.path(t))));
        }
        if matches!(dk, DefKind::Fn | DefKind::AssocFn) {
            let vis = tcx.visibility(did);
            o.push(("pub", J::B(vis.is_public())));
            let sig = tcx.fn_sig(did).instantiate_identity().skip_norm_wip().skip_binder();
            o.push(("unsafe", J::B(sig.safety().is_unsafe())));
            let ins: Vec<J> = sig.inputs().iter().map(|t| cx.ty(*t)).collect();
            o.push(("ins", J::A(ins)));
            o.push(("ret", cx.ty(sig.output())));
        } else {
            let t = tcx.type_of(did).instantiate_identity().skip_norm_wip();
            o.push(("ty", cx.ty(t)));
        }
        {
            // generic parameter names in argument order (parents first)
            let mut names: Vec<String> = Vec::new();
            let g = tcx.generics_of(did);
            let mut chain = vec![g];
            let mut cur = g;
            while let Some(p) = cur.parent {
                cur = tcx.generics_of(p);
                chain.push(cur);
            }
            for g in chain.iter().rev() {
                for p in g.own_params.iter() {
                    names.push(p.name.to_string());
                }
            }
            o.push(("generics", J::A(names.into_iter().map(J::S).collect())));
        }
        let mut bcx = BodyCx { cx: &mut cx, tr, owner: ldid, file, nodes: 0 };
        let ctxt = body.value.span.ctxt();
        let params: Vec<J> = body.params.iter().map(|p| bcx.pat(p.pat)).collect();
        let bj = bcx.expr(body.value, ctxt);
        total_nodes += bcx.nodes;
        o.push(("params", J::A(params)));
        o.push(("body", bj));
        bodies.push(J::O(o));
    }

    // ADTs, impls, traits
    let mut adts = Vec::new();
    let mut impls = Vec::new();
    let mut traits = Vec::new();
    let mut aliases = Vec::new();
    for ldid in tcx.hir_crate_items(()).definitions() {
        let did = ldid.to_def_id();
        match tcx.def_kind(ldid) {
            DefKind::Struct | DefKind::Enum | DefKind::Union => {
                let adt = tcx.adt_def(did);
                let repr = adt.repr();
                let mut variants = Vec::new();
                for v in adt.variants() {
                    let fields: Vec<J> = v
                        .fields
                        .iter()
                        .map(|f| {
                            let t = tcx.type_of(f.did).instantiate_identity().skip_norm_wip();
                            obj! {"n": J::s(f.name.to_string()), "t": cx.ty(t), "pub": J::B(f.vis.is_public())}
                        })
                        .collect();
                    variants.push(obj! {"n": J::s(v.name.to_string()), "f": J::A(fields)});
                }
                let gens: Vec<J> = tcx.generics_of(did).own_params.iter().map(|p| J::s(p.name.to_string())).collect();
                let span = tcx.def_span(ldid);
                adts.push(obj! {
                    "i": J::I(did.index.as_u32() as i128),
                    "path": J::s(cx.path(did)),
                    "kind": J::s(format!("{:?}", adt.adt_kind())),
                    "repr_c": J::B(repr.c()),
                    "repr_transparent": J::B(repr.transparent()),
                    "repr_packed": J::B(repr.packed()),
                    "generics": J::A(gens),
                    "variants": J::A(variants),
                    "loc": cx.loc_j(span),
                    "pub": J::B(tcx.visibility(did).is_public()),
                });
            }
            DefKind::Impl { of_trait } => {
                let span = tcx.def_span(ldid);
                let self_ty = tcx.type_of(did).instantiate_identity().skip_norm_wip();
                let mut o: Vec<(&'static str, J)> = Vec::new();
                o.push(("i", J::I(did.index.as_u32() as i128)));
                o.push(("self", cx.ty(self_ty)));
                if let ty::Adt(ad, _) = self_ty.kind() {
                    o.push(("self_adt", J::s(cx.path(ad.did()))));
                }
                if of_trait {
                    let hdr = tcx.impl_trait_header(did);
                    let trf = hdr.trait_ref.instantiate_identity().skip_norm_wip();
                    o.push(("trait", J::s(cx.path(trf.def_id))));
                    let ta: Vec<J> = trf.args.iter().skip(1).map(|a| {
                        let s = with_no_trimmed_paths!(a.to_string());
                        cx.intern(s)
                    }).collect();
                    o.push(("trait_args", J::A(ta)));
                    o.push(("unsafe", J::B(hdr.safety.is_unsafe())));
                    o.push(("negative", J::B(matches!(hdr.polarity, ty::ImplPolarity::Negative))));
                }
                o.push(("derived", J::B(tcx.is_automatically_derived(did))));
                let gens: Vec<J> = tcx.generics_of(did).own_params.iter().map(|p| J::s(p.name.to_string())).collect();
                o.push(("generics", J::A(gens)));
                let preds: Vec<J> = tcx
                    .predicates_of(did)
                    .predicates
                    .iter()
                    .map(|(p, _)| J::s(with_no_trimmed_paths!(p.to_string())))
                    .collect();
                o.push(("preds", J::A(preds)));
                let mut items = Vec::new();
                for it in tcx.associated_items(did).in_definition_order() {
                    let mut io: Vec<(&'static str, J)> = Vec::new();
                    io.push(("n", J::s(it.name().to_string())));
                    io.push(("i", J::I(it.def_id.index.as_u32() as i128)));
                    io.push(("kind", J::s(format!("{:?}", it.tag()))));
                    if it.is_type() {
                        let t = tcx.type_of(it.def_id).instantiate_identity().skip_norm_wip();
                        io.push(("ty", cx.ty(t)));
                    }
                    items.push(J::O(io));
                }
                o.push(("items", J::A(items)));
                o.push(("loc", cx.loc_j(span)));
                o.push(("bt", cx.macro_bt(span)));
                impls.push(J::O(o));
            }
            DefKind::TyAlias => {
                let t = tcx.type_of(did).instantiate_identity().skip_norm_wip();
                let gens: Vec<J> = tcx.generics_of(did).own_params.iter().map(|p| J::s(p.name.to_string())).collect();
                aliases.push(obj! {
                    "path": J::s(cx.path(did)),
                    "ty": cx.ty(t),
                    "generics": J::A(gens),
                    "loc": cx.loc_j(tcx.def_span(ldid)),
                    "pub": J::B(tcx.visibility(did).is_public()),
                });
            }
            DefKind::Trait => {
                let mut items = Vec::new();
                for it in tcx.associated_items(did).in_definition_order() {
                    items.push(obj! {
                        "n": J::s(it.name().to_string()),
                        "i": J::I(it.def_id.index.as_u32() as i128),
                        "kind": J::s(format!("{:?}", it.tag())),
                        "default": J::B(it.defaultness(tcx).has_value()),
                    });
                }
                traits.push(obj! {
                    "i": J::I(did.index.as_u32() as i128),
                    "path": J::s(cx.path(did)),
                    "items": J::A(items),
                    "unsafe": J::B(tcx.trait_def(did).safety.is_unsafe()),
                });
            }
            _ => {}
        }
    }

    let nb = bodies.len();
    let strs: Vec<J> = cx.str_list.iter().map(|s| J::s(s.clone())).collect();
    let root = obj! {
        "crate": J::s(crate_name.clone()),
        "tag": J::s(tag.clone()),
        "n_bodies": J::I(nb as i128),
        "n_nodes": J::I(total_nodes as i128),
        "strs": J::A(strs),
        "adts": J::A(adts),
        "impls": J::A(impls),
        "traits": J::A(traits),
        "aliases": J::A(aliases),
        "bodies": J::A(bodies),
    };
    let mut out = String::with_capacity(64 << 20);
    root.write(&mut out);
    let path = format!("{}/{}.{}.json", out_dir, crate_name, tag);
    let tmp = format!("{}.tmp{}", path, std::process::id());
    std::fs::write(&tmp, out).expect("write facts");
    std::fs::rename(&tmp, &path).expect("rename facts");
    eprintln!("pfacts: crate={} tag={} bodies={} nodes={} -> {}", crate_name, tag, nb, total_nodes, path);
}

impl Callbacks for Dump {
    fn after_analysis<'tcx>(&mut self, _c: &rustc_interface::interface::Compiler, tcx: TyCtxt<'tcx>) -> Compilation {
        dump(tcx);
        Compilation::Continue
    }
}

struct Plain;
impl Callbacks for Plain {}

fn main() {
    let mut argv: Vec<String> = std::env::args().collect();
    // as (workspace) wrapper: argv = [self, rustc, args...]
    if argv.len() > 1 && (argv[1].ends_with("rustc") || argv[1].contains("/rustc")) {
        argv.remove(1);
    }
    argv[0] = "rustc".to_string();
    let wanted = std::env::var("PFACTS_CRATES").unwrap_or_else(|_| "palette".to_string());
    let mut crate_name = None;
    let mut i = 0;
    while i < argv.len() {
        if argv[i] == "--crate-name" && i + 1 < argv.len() {
            crate_name = Some(argv[i + 1].clone());
        }
        i += 1;
    }
    let is_target = match &crate_name {
        Some(n) => wanted.split(',').any(|w| w == n),
        None => false,
    };
    // build scripts / proc-macro probes: argv may contain `-vV` or `--print`
    let probing = argv.iter().any(|a| a == "-vV" || a.starts_with("--print") || a == "-V");
    if is_target && !probing {
        rustc_driver::run_compiler(&argv, &mut Dump);
    } else {
        rustc_driver::run_compiler(&argv, &mut Plain);
    }
}
