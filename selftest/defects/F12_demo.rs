use palette::{color_difference::Ciede2000, Lab};

// Independent transcription of Sharma, Wu, Dalal (2005), eq. 2-22.
fn sharma(l1: f64, a1: f64, b1: f64, l2: f64, a2: f64, b2: f64) -> f64 {
    let c1 = (a1 * a1 + b1 * b1).sqrt();
    let c2 = (a2 * a2 + b2 * b2).sqrt();
    let cbar = (c1 + c2) / 2.0;
    let g = 0.5 * (1.0 - (cbar.powi(7) / (cbar.powi(7) + 25f64.powi(7))).sqrt());
    let a1p = (1.0 + g) * a1;
    let a2p = (1.0 + g) * a2;
    let c1p = (a1p * a1p + b1 * b1).sqrt();
    let c2p = (a2p * a2p + b2 * b2).sqrt();
    let hp = |b: f64, a: f64| if b == 0.0 && a == 0.0 { 0.0 } else { let h = b.atan2(a).to_degrees(); if h < 0.0 { h + 360.0 } else { h } };
    let h1p = hp(b1, a1p);
    let h2p = hp(b2, a2p);
    let dlp = l2 - l1;
    let dcp = c2p - c1p;
    let dhp = if c1p * c2p == 0.0 { 0.0 } else if (h2p - h1p).abs() <= 180.0 { h2p - h1p } else if h2p - h1p > 180.0 { h2p - h1p - 360.0 } else { h2p - h1p + 360.0 };
    let dhh = 2.0 * (c1p * c2p).sqrt() * (dhp / 2.0).to_radians().sin();
    let lbar = (l1 + l2) / 2.0;
    let cbarp = (c1p + c2p) / 2.0;
    let hbar = if c1p * c2p == 0.0 { h1p + h2p } else if (h1p - h2p).abs() <= 180.0 { (h1p + h2p) / 2.0 } else if h1p + h2p < 360.0 { (h1p + h2p + 360.0) / 2.0 } else { (h1p + h2p - 360.0) / 2.0 };
    let t = 1.0 - 0.17 * (hbar - 30.0).to_radians().cos() + 0.24 * (2.0 * hbar).to_radians().cos() + 0.32 * (3.0 * hbar + 6.0).to_radians().cos() - 0.20 * (4.0 * hbar - 63.0).to_radians().cos();
    let dtheta = 30.0 * (-((hbar - 275.0) / 25.0).powi(2)).exp();
    let rc = 2.0 * (cbarp.powi(7) / (cbarp.powi(7) + 25f64.powi(7))).sqrt();
    let sl = 1.0 + 0.015 * (lbar - 50.0).powi(2) / (20.0 + (lbar - 50.0).powi(2)).sqrt();
    let sc = 1.0 + 0.045 * cbarp;
    let sh = 1.0 + 0.015 * cbarp * t;
    let rt = -(2.0 * dtheta).to_radians().sin() * rc;
    ((dlp / sl).powi(2) + (dcp / sc).powi(2) + (dhh / sh).powi(2) + rt * (dcp / sc) * (dhh / sh)).sqrt()
}

#[test]
fn mean_hue_wraps_down_when_the_sum_is_at_least_360() {
    let cases = [
        (60.0, 100.0, -50.0, 55.0, 120.0, 60.0),
        (50.0, 80.0, -30.0, 50.0, 90.0, 40.0),
        (40.0, 60.0, -10.0, 45.0, 70.0, 5.0),
        (50.0, 2.5, 0.0, 50.0, 0.0, -2.5), // sum < 360 wrap (Sharma pair region)
    ];
    for (l1, a1, b1, l2, a2, b2) in cases {
        let p: f64 = Lab::<palette::white_point::D65, f64>::new(l1, a1, b1).difference(Lab::new(l2, a2, b2));
        let r = sharma(l1, a1, b1, l2, a2, b2);
        println!("{p} vs {r}: {}", (p - r).abs());
        assert!((p - r).abs() < 1e-9, "palette {p} vs Sharma {r}");
    }
}
