use palette::{convert::FromColorUnclamped, white_point::D65, Hsluv, Lchuv, Srgb, IntoColor};

#[test]
fn black_hsluv_with_hue_zero_is_finite() {
    // black, with the default hue: every component exactly on a bound
    let c32: Lchuv<D65, f32> = Lchuv::from_color_unclamped(Hsluv::<D65, f32>::new(0.0, 0.0, 0.0));
    assert!(c32.chroma.is_finite(), "f32: chroma = {}", c32.chroma);
    let c64: Lchuv<D65, f64> = Lchuv::from_color_unclamped(Hsluv::<D65, f64>::new(0.0, 50.0, 0.0));
    assert!(c64.chroma.is_finite(), "f64: chroma = {}", c64.chroma);
    assert_eq!(c64.chroma, 0.0);
    let c180: Lchuv<D65, f64> = Lchuv::from_color_unclamped(Hsluv::<D65, f64>::new(180.0, 100.0, 0.0));
    assert!(c180.chroma.is_finite(), "hue 180: chroma = {}", c180.chroma);
    let rgb: Srgb<f64> = Hsluv::<D65, f64>::new(0.0, 100.0, 0.0).into_color();
    assert!(rgb.red.is_finite() && rgb.green.is_finite() && rgb.blue.is_finite(), "{:?}", rgb);
}
