use palette::cam16::Cam16;

#[test]
fn cam16_equality_sees_the_hue() {
    let a = Cam16 { lightness: 50.0f64, chroma: 30.0, hue: 10.0.into(), brightness: 100.0, colorfulness: 25.0, saturation: 40.0 };
    let b = Cam16 { hue: 200.0.into(), ..a };
    assert!(a != b, "two Cam16 colours that differ only in hue (10 vs 200 degrees) compare equal");
}
